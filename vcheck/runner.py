"""Common driver of every property check: deductive layer -> replay of counterexamples -> bounded
stand-in layer -> known-findings filter -> evidence file -> exit code.

exit 0  property held on everything explored (undecided obligations are printed, never turned into violations)
exit 1  VIOLATION line(s) printed
exit 2  neither layer could run
exit 3  checker crash
"""
import hashlib
import importlib
import json
import os
import sys
import time
import traceback

HERE = os.path.dirname(os.path.dirname(os.path.abspath(__file__)))
REPO = os.environ.get("GLUE_REPO", "/repo")


class Failure:
    """A property-level failure found by a native run (replay of a counterexample or bounded driver)."""

    def __init__(self, signature, detail, replay_code, obligation=None, source='bounded'):
        self.signature = signature          # deterministic, fine-grained; matched against known findings
        self.detail = detail
        self.replay_code = replay_code      # body of a runnable script (exit 1 iff the property fails)
        self.obligation = obligation
        self.source = source


class BoundedResult:
    def __init__(self):
        self.evaluations = 0
        self.nontrivial = set()
        self.failures = []
        self.samples = []
        self.rule = ''
        self.parts = {}
        self.exhaustive = False
        self.notes = []

    def count(self, key=None, part=None):
        self.evaluations += 1
        if key is not None:
            self.nontrivial.add(key)
        if part:
            self.parts[part] = self.parts.get(part, 0) + 1

    def fail(self, signature, detail, replay_code):
        # keep one failure per signature
        if not any(f.signature == signature for f in self.failures):
            self.failures.append(Failure(signature, detail, replay_code))


def load_known_findings():
    p = os.path.join(HERE, 'known_findings.json')
    if not os.path.exists(p):
        return []
    with open(p) as f:
        return json.load(f).get('findings', [])


REPLAY_HEADER = '''#!/usr/bin/env python
# Replay file written by /verif/check.  Run:  /verif/check {pid} --replay {path}
# property:   {pid}
# obligation: {obligation}
# source:     {source}
# detail:     {detail}
{extra}
import os, sys
REPO = os.environ.get("GLUE_REPO", "/repo")
sys.path.insert(0, REPO)
sys.path.insert(0, {here!r})
'''


def write_replay(pid, failure, extra=''):
    d = os.path.join(os.environ.get('VERIF_REPLAY_DIR', os.path.join(HERE, 'replays')), pid)
    os.makedirs(d, exist_ok=True)
    h = hashlib.sha256((failure.signature + failure.detail).encode()).hexdigest()[:10]
    name = ''.join(ch if ch.isalnum() or ch in '-_.' else '_' for ch in (failure.obligation or failure.signature))[:80]
    path = os.path.join(d, "%s-%s.py" % (name, h))
    detail = failure.detail.replace('\n', '\n#            ')
    with open(path, 'w') as f:
        f.write(REPLAY_HEADER.format(pid=pid, path=path, obligation=failure.obligation or '-', source=failure.source,
                                     detail=detail, extra=extra, here=HERE))
        f.write(failure.replay_code or "# no failing input found: the obligation above failed, the solver output is in the header\nsys.exit(0)\n")
    return path


def contract_replay_code(modname, target, cfg, val):
    return ("from %s import CONTRACTS\n"
            "c = [c for c in CONTRACTS if c.target == %r][0]\n"
            "cfg, val = %r, %r\n"
            "# direct call: %s\n"
            "r = c.native(cfg, val)\n"
            "print(r)\n"
            "sys.exit(1 if (r is not None and not r[0]) else 0)\n") % (modname, target, cfg, val,
                                                                     _native_call(modname, target, cfg, val))


def _native_call(modname, target, cfg, val):
    try:
        mod = importlib.import_module(modname)
        c = [c for c in mod.CONTRACTS if c.target == target][0]
        return c.native_call(cfg, val)
    except Exception:
        return '-'


def run_check(spec, tier, seed):
    """spec: module object of checks/<id>.py"""
    from pyvc.verify import run_contracts, summarize
    pid = spec.PROPERTY
    t0 = time.time()
    os.environ.setdefault('PYVC_TMP', '/tmp')
    budget = spec.BUDGET_S.get(tier, 10.0) if hasattr(spec, 'BUDGET_S') else (10.0 if tier == 'quick' else 60.0)
    violations = []       # (Failure, no_input_found)
    known_hits = []
    undecided_lines = []
    crashed = False
    # ------------------------------------------------------------------ deductive layer
    results = []
    per_module = {}
    for modname in getattr(spec, 'DEDUCTIVE', []):
        try:
            r = run_contracts(modname, tier=tier, budget_s=budget)
        except Exception:
            traceback.print_exc()
            crashed = True
            continue
        per_module[modname] = r
        results.extend(r)
    summ = summarize(results)
    for c in summ['crashed']:
        print("CHECKER-CRASH %s %s\n%s" % (c['function'], c['config'], c.get('trace', '')))
        crashed = True
    # vacuity guards
    vacuity = []
    if getattr(spec, 'DEDUCTIVE', []) and summ['obligations'] == 0:
        vacuity.append("zero obligations generated")
    if summ['canaries'] != summ['canaries_refuted']:
        vacuity.append("a canary assertion (false, placed after the precondition) was not refuted: "
                       "contradictory precondition or unreachable body")
    min_obl = getattr(spec, 'MIN_OBLIGATIONS', {}).get(tier, 1)
    if getattr(spec, 'DEDUCTIVE', []) and summ['obligations'] < min_obl and not summ['undecided']:
        vacuity.append("only %d obligations generated, contract files record at least %d" % (summ['obligations'], min_obl))
    for u in summ['undecided']:
        line = "UNDECIDED obligation=%s reason=%s" % (u['obligation'], u['reason'])
        undecided_lines.append(line)
        print(line)
    # counterexamples: replay on the real code
    unconfirmed = []
    seen = set()
    for x in summ['refuted']:
        if x['obligation'] in seen:
            continue
        seen.add(x['obligation'])
        modname = [m for m, rs in per_module.items() if any(r['function'] == x['function'] for r in rs)][0]
        mod = importlib.import_module(modname)
        # several contracts may sit on one function (different paths of it): take the one that owns this configuration
        c, cfg = next((c, cf) for c in mod.CONTRACTS if c.target == x['function'] for cf in c.configs(tier) if c.cfg_name(cf) == x['config'])
        nat = None
        try:
            nat = c.native(cfg, x['valuation'])
        except Exception as e:
            nat = (False, "native replay raised %s: %s" % (type(e).__name__, e))
        extra = "# function:   %s (sha256 %s)\n# config:     %s\n# solver model:\n#   %s" % (
            x['function'], next((r.get('sha256') for r in results if r['function'] == x['function']), '?'),
            x['config'], x['model'].replace('\n', '\n#   '))
        if nat is not None and not nat[0]:
            f = Failure("%s|%s" % (x['obligation'], 'replayed'), nat[1],
                        contract_replay_code(modname, x['function'], cfg, x['valuation']),
                        obligation=x['obligation'], source='solver counterexample replayed on the real code')
            f.extra = extra
            violations.append((f, False))
        else:
            unconfirmed.append((x, extra, modname))
    # ------------------------------------------------------------------ bounded layer
    bres = BoundedResult()
    if hasattr(spec, 'bounded'):
        try:
            # thorough tier: the bounded driver is run with several seeds (random parts differ, exhaustive parts repeat)
            n_seeds = getattr(spec, 'THOROUGH_SEEDS', 3) if tier == 'thorough' else 1
            for k in range(n_seeds):
                spec.bounded(tier, seed + 1000 * k, bres)
        except Exception as e:
            tb = traceback.extract_tb(sys.exc_info()[2])
            inner = tb[-1] if tb else None
            repo_real = os.path.realpath(REPO)
            if inner is not None and os.path.realpath(inner.filename).startswith(repo_real + os.sep):
                # the library itself raised on an operation that the driver performs successfully on the unchanged tree
                drv = [f for f in tb if os.path.realpath(f.filename).startswith(os.path.realpath(HERE) + os.sep)]
                where = "%s:%s" % (os.path.relpath(inner.filename, repo_real), inner.name)
                bres.fail("library-exception|%s|%s" % (where, type(e).__name__),
                          "the library raised %s: %s in %s (line %d) during a driver operation that succeeds on the unchanged tree; driver frame: %s"
                          % (type(e).__name__, e, where, inner.lineno, ("%s:%d %s" % (os.path.basename(drv[-1].filename), drv[-1].lineno, drv[-1].line)) if drv else '?'),
                          None)
                bres.notes.append("bounded driver stopped early by a library exception: " + ''.join(traceback.format_exception_only(type(e), e)).strip())
            else:
                traceback.print_exc()
                crashed = True
    # an obligation refuted without a replayable model: second search = the bounded driver
    known_sigs = set(k.get('signature') for k in load_known_findings() if k.get('property') == pid and k.get('status', 'open') == 'open')
    for x, extra, modname in unconfirmed:
        # failing inputs of recorded known findings are never used as the witness of a refuted obligation (the refutation would
        # inherit the finding's signature and be filtered with it)
        related = [f for f in bres.failures if getattr(f, 'function', None) in (None, x['function']) and f.signature not in known_sigs]
        if related:
            f0 = related[0]
            f = Failure("%s|input:%s" % (x['obligation'], f0.signature), f0.detail, f0.replay_code, obligation=x['obligation'],
                        source='obligation refuted; failing input found by the bounded driver')
            f.extra = extra
            if not any(v[0].signature == f.signature for v in violations):
                violations.append((f, False))
        else:
            f = Failure("%s|no-input" % x['obligation'],
                        "obligation refuted by the solver; the model did not reproduce on the real code and the "
                        "bounded driver found no failing input", None, obligation=x['obligation'],
                        source='solver refutation (obligation discharged on the unchanged tree)')
            f.extra = extra
            violations.append((f, True))
    for f in bres.failures:
        if not any(v[0].signature == f.signature for v in violations):
            f.extra = ''
            violations.append((f, False))
    # ------------------------------------------------------------------ known findings
    known = load_known_findings()
    reported = []
    for f, noinput in violations:
        hit = None
        for k in known:
            if k.get('property') == pid and k.get('status', 'open') == 'open' and k.get('signature') == f.signature:
                hit = k
                break
        if hit is not None:
            known_hits.append(hit)
        else:
            reported.append((f, noinput))
    for k in known:
        if k.get('property') == pid and k.get('status', 'open') == 'open' and k in known_hits:
            print("KNOWN-FINDING: property=%s %s" % (pid, k['what']))
    for f, noinput in reported:
        path = write_replay(pid, f, getattr(f, 'extra', ''))
        print("VIOLATION property=%s replay=%s obligation=%s detail=%s%s" % (
            pid, path, f.obligation or f.signature, f.detail.replace('\n', ' ')[:300],
            " no-failing-input-found" if noinput else ""))
    for v in vacuity:
        print("VACUITY-GUARD-FAILED %s" % v)
    # ------------------------------------------------------------------ evidence
    wall = time.time() - t0
    proved = bool(getattr(spec, 'DEDUCTIVE', [])) and summ['obligations'] > 0 and \
        summ['discharged'] == summ['obligations'] and not vacuity
    level = spec.LEVEL if (proved or spec.LEVEL != 'proof') else 'exploration'
    fun = {}
    for k, v in summ['functions'].items():
        fun[k] = {"line": v['line'], "sha256": v['sha256'], "configs": len(v['configs']),
                  "obligations": v['obligations'], "discharged": v['discharged'], "paths": v['paths'],
                  "dropped": v['dropped'], "decorators": v['decorators']}
    coverage = {
        "obligations": summ['obligations'], "discharged": summ['discharged'],
        "checker_cmd": "cd /verif && ./check %s --tier %s" % (pid, tier),
        "trusted_base": list(getattr(spec, 'TRUSTED_BASE', [])),
        "back_ends": summ['backends'], "solver_s": summ['solver_s'],
        "functions_under_contract": fun,
        "vacuity_guards": {"canaries": summ['canaries'], "canaries_refuted": summ['canaries_refuted'],
                           "problems": vacuity},
        "undecided": undecided_lines[:50],
        "configs": getattr(spec, 'CONFIG_NOTE', {}).get(tier, ''),
        "obligation_samples": summ['samples'],
        "bounded_stand_in": {
            "label": "bounded - never counted as proved",
            "evaluations": bres.evaluations, "distinct_nontrivial": len(bres.nontrivial), "rule": bres.rule,
            "parts": bres.parts, "exhaustive": bres.exhaustive, "notes": bres.notes},
        "evaluations": max(bres.evaluations, 0), "distinct_nontrivial": len(bres.nontrivial),
        "rule": bres.rule or "no bounded layer",
        "samples": (bres.samples[:6] or []) + summ['samples'][:4],
        "exhaustive": bool(bres.exhaustive),
        "known_findings_hit": [k['what'] for k in known_hits],
    }
    if not coverage["samples"]:
        coverage["samples"] = ["(none)"]
    ev = {"property_id": pid, "tier": tier, "seed": seed, "level": level, "coverage": coverage,
          "assumptions": list(getattr(spec, 'ASSUMPTIONS', [])), "wall_s": round(wall, 2),
          "violations": len(reported)}
    evdir = os.environ.get('VERIF_EVIDENCE_DIR', os.path.join(HERE, 'evidence'))
    os.makedirs(evdir, exist_ok=True)
    with open(os.path.join(evdir, pid + '.json'), 'w') as f:
        json.dump(ev, f, indent=1, sort_keys=True, default=str)
    print("%s tier=%s obligations=%d discharged=%d undecided=%d bounded_evaluations=%d violations=%d known=%d wall=%.1fs"
          % (pid, tier, summ['obligations'], summ['discharged'], len(summ['undecided']), bres.evaluations,
             len(reported), len(known_hits), wall))
    if crashed:
        return 3
    if reported:
        return 1
    if vacuity:
        return 3
    # bounded floor: a driver that produced fewer non-trivial cases than its floor fails the check
    floor = getattr(spec, 'BOUNDED_FLOOR', {}).get(tier, 0)
    if hasattr(spec, 'bounded') and len(bres.nontrivial) < floor:
        print("BOUNDED-FLOOR-FAILED distinct_nontrivial=%d floor=%d" % (len(bres.nontrivial), floor))
        return 3
    return 0


def main(argv=None):
    import argparse
    ap = argparse.ArgumentParser()
    ap.add_argument('property')
    ap.add_argument('--tier', default=os.environ.get('VERIF_TIER', 'quick'))
    ap.add_argument('--replay', default=None)
    a = ap.parse_args(argv)
    if a.tier not in ('quick', 'thorough'):
        a.tier = 'quick'
    seed = int(os.environ.get('VERIF_SEED', '0') or 0)
    sys.path.insert(0, HERE)
    sys.path.insert(0, REPO)
    if a.replay:
        import subprocess
        r = subprocess.run([sys.executable, a.replay], env=dict(os.environ, GLUE_REPO=REPO))
        return 1 if r.returncode != 0 else 0
    try:
        spec = importlib.import_module('checks.%s' % a.property.lower())
    except ImportError:
        traceback.print_exc()
        return 2
    try:
        return run_check(spec, a.tier, seed)
    except Exception:
        traceback.print_exc()
        return 3


if __name__ == '__main__':
    sys.exit(main())
