"""C13 - sidecar contracts for glue/core/command.py: CommandStack.do/undo/redo/can_undo_redo/undo_label/redo_label,
AddData/RemoveData.do/undo, ApplySubsetState/ApplyROI.do+undo.

CommandStack: _command_stack, _undo_stack : Seq(Cmd) of unbounded length.  Commands are external code with the
contract "cmd.do(session) / cmd.undo(session) = some effect on the session", recorded in the ghost `trace`.

ApplySubsetState / ApplyROI: finite-universe heap model of the collection API (<= 2 datasets, one pre-existing group,
the applied update may create one group): do() followed by an arbitrary update followed by undo() must restore
the subset groups, each dataset's subsets, every selection, the edit-subset choice and the group counter.
"""
import z3

from pyvc.verify import FnContract, Inputs, St
from pyvc.interp import LoopSpec, Interp, Hooks
from pyvc.values import PObj, SeqBox, PList, Builtin, PyRaise, ExcVal, PType, Unsupported, is_z3
from pyvc.extract import FunctionText
from pyvc import spec as S

CMD = "glue/core/command.py"

Cmd = z3.DeclareSort('Cmd')
Ev = z3.Datatype('Ev')
Ev.declare('do', ('c', Cmd))
Ev.declare('undo', ('c', Cmd))
Ev = Ev.create()
Res = z3.DeclareSort('Result')
do_result = z3.Function('result_of_do', Cmd, z3.IntSort(), Res)      # result of the k-th external call
label_of = z3.Function('label_of', Cmd, z3.StringSort())
MAX_UNDO = 50


def make_stack(P):
    stk = PObj('CommandStack')
    stk.field_kinds = {'_command_stack': ('seq', Cmd), '_undo_stack': ('seq', Cmd)}
    stk.fields['_command_stack'] = SeqBox(z3.Const('stack0', z3.SeqSort(Cmd)))
    stk.fields['_undo_stack'] = SeqBox(z3.Const('redo0', z3.SeqSort(Cmd)))
    stk.fields['_session'] = PObj('Session')
    P.ghost.update(trace=z3.Empty(z3.SeqSort(Ev)), calls=0, notified=[])

    def notify(I, self_, what):
        I.path.ghost['notified'] = I.path.ghost['notified'] + [what]
    stk.methods['notify'] = notify
    return stk


class StackContract(FnContract):
    def base(self, P):
        stk = make_stack(P)
        st = St(stk=stk, old_stack=stk.fields['_command_stack'].expr, old_redo=stk.fields['_undo_stack'].expr,
                k=z3.Int('k'))
        return st

    def requires(self, cfg, st):
        return [('history-bounded', z3.Length(st.old_stack) <= MAX_UNDO)]

    def globals_(self, cfg, st):
        def getattr_symbolic(I, obj, attr):
            if obj.sort() == Cmd and attr in ('do', 'undo'):
                def method(I2, session):
                    g = I2.path.ghost
                    I2.path.check("%s/command-receives-the-session" % I2.hooks.name, session is st.stk.fields['_session'])
                    ev = Ev.do(obj) if attr == 'do' else Ev.undo(obj)
                    g['trace'] = z3.Concat(g['trace'], z3.Unit(ev))
                    g['calls'] = g['calls'] + 1
                    # snapshot of the stacks at the time the external code runs
                    g['stack_at_call'] = st.stk.fields['_command_stack'].expr
                    g['redo_at_call'] = st.stk.fields['_undo_stack'].expr
                    return do_result(obj, g['calls']) if attr == 'do' else None
                return Builtin('cmd.' + attr, method)
            if obj.sort() == Cmd and attr == 'label':
                return label_of(obj)
            raise Unsupported("attribute %s of symbolic %s" % (attr, obj.sort()))
        return {'__getattr_symbolic__': getattr_symbolic}

    def stacks(self, st):
        a, b = st.stk.fields['_command_stack'], st.stk.fields['_undo_stack']
        if not isinstance(a, SeqBox) or not isinstance(b, SeqBox):
            return None
        return a.expr, b.expr


class StackDo(StackContract):
    property_ids = ('C13',)
    target = CMD + ":CommandStack.do"
    title = ("executes the command exactly once with the session, logs it at the end of the history, keeps only the last MAX_UNDO, "
             "clears the redo history, returns the command's result")

    def inputs(self, cfg, P):
        st = self.base(P)
        st.cmd = z3.Const('cmd', Cmd)
        return Inputs([st.stk, st.cmd], st=st)

    def requires(self, cfg, st):
        # no bound on the history found: a command whose do() raised stays logged without the trim, so the history may be longer than
        # MAX_UNDO when the next command arrives - a successful do() has to bring it back to the bound whatever it finds
        return []

    def finish(self, cfg, st, P, outcome):
        qn = "CommandStack.do[-]"
        if outcome[0] != 'return':
            return
        ss = self.stacks(st)
        P.check(qn + "/ensures:stacks-are-lists", ss is not None)
        if ss is None:
            return
        new, redo = ss
        g = P.ghost
        full = z3.Concat(st.old_stack, z3.Unit(st.cmd))
        n_full = z3.Length(st.old_stack) + 1
        n_new = z3.If(n_full <= MAX_UNDO, n_full, MAX_UNDO)
        P.check(qn + "/ensures:executed-exactly-once", S.And(g['calls'] == 1, g['trace'] == z3.Unit(Ev.do(st.cmd))))
        P.check(qn + "/ensures:returns-the-command's-result", outcome[1] == do_result(st.cmd, 1) if is_z3(outcome[1]) else False)
        P.check(qn + "/ensures:history-length", S.And(z3.Length(new) == n_new, z3.Length(new) <= MAX_UNDO))
        k = st.k
        P.check(qn + "/ensures:history-is-the-last-MAX_UNDO-commands-in-order",
                S.Implies(S.And(0 <= k, k < n_new), new[k] == full[k + (n_full - n_new)]))
        P.check(qn + "/ensures:newest-command-is-last", new[z3.Length(new) - 1] == st.cmd)
        P.check(qn + "/ensures:redo-history-cleared", z3.Length(redo) == 0)
        P.check(qn + "/ensures:listeners-notified", g['notified'] == ['do'])


class StackUndo(StackContract):
    property_ids = ('C13',)
    target = CMD + ":CommandStack.undo"
    title = "undoes exactly the last executed command, once, and moves it to the redo history; IndexError (and no change) when there is nothing to undo"

    def inputs(self, cfg, P):
        st = self.base(P)
        return Inputs([st.stk], st=st)

    raises = {'IndexError': lambda cfg, st: z3.Length(st.old_stack) == 0}

    def finish(self, cfg, st, P, outcome):
        qn = "CommandStack.undo[-]"
        ss = self.stacks(st)
        P.check(qn + "/ensures:stacks-are-lists", ss is not None)
        if ss is None:
            return
        new, redo = ss
        g = P.ghost
        n = z3.Length(st.old_stack)
        if outcome[0] == 'raise':
            P.check(qn + "/raises:nothing-changed", S.And(new == st.old_stack, redo == st.old_redo, g['calls'] == 0))
            return
        last = st.old_stack[n - 1]
        P.check(qn + "/ensures:something-to-undo", n >= 1)
        P.check(qn + "/ensures:undoes-the-last-command-exactly-once", S.And(g['calls'] == 1, g['trace'] == z3.Unit(Ev.undo(last))))
        P.check(qn + "/ensures:history-loses-exactly-the-last", S.And(z3.Length(new) == n - 1, z3.Concat(new, z3.Unit(last)) == st.old_stack))
        P.check(qn + "/ensures:redo-history-gains-it", redo == z3.Concat(st.old_redo, z3.Unit(last)))
        P.check(qn + "/ensures:listeners-notified", g['notified'] == ['undo'])


class StackRedo(StackContract):
    property_ids = ('C13',)
    target = CMD + ":CommandStack.redo"
    title = "re-executes exactly the last undone command, once, and moves it back to the history; IndexError (and no change) when nothing was undone"

    def inputs(self, cfg, P):
        st = self.base(P)
        return Inputs([st.stk], st=st)

    def requires(self, cfg, st):
        # redo is only reachable after an undo, which removed one entry from a bounded history
        return [('history-bounded', z3.Length(st.old_stack) < MAX_UNDO)]

    raises = {'IndexError': lambda cfg, st: z3.Length(st.old_redo) == 0}

    def finish(self, cfg, st, P, outcome):
        qn = "CommandStack.redo[-]"
        ss = self.stacks(st)
        P.check(qn + "/ensures:stacks-are-lists", ss is not None)
        if ss is None:
            return
        new, redo = ss
        g = P.ghost
        n = z3.Length(st.old_redo)
        if outcome[0] == 'raise':
            P.check(qn + "/raises:nothing-changed", S.And(new == st.old_stack, redo == st.old_redo, g['calls'] == 0))
            return
        last = st.old_redo[n - 1]
        P.check(qn + "/ensures:something-to-redo", n >= 1)
        P.check(qn + "/ensures:redoes-the-last-undone-command-exactly-once", S.And(g['calls'] == 1, g['trace'] == z3.Unit(Ev.do(last))))
        P.check(qn + "/ensures:returns-the-command's-result", outcome[1] == do_result(last, 1) if is_z3(outcome[1]) else False)
        P.check(qn + "/ensures:redo-history-loses-exactly-the-last", S.And(z3.Length(redo) == n - 1, z3.Concat(redo, z3.Unit(last)) == st.old_redo))
        P.check(qn + "/ensures:history-gains-it", new == z3.Concat(st.old_stack, z3.Unit(last)))
        P.check(qn + "/ensures:history-bounded", z3.Length(new) <= MAX_UNDO)
        P.check(qn + "/ensures:listeners-notified", g['notified'] == ['redo'])


class CanUndoRedo(StackContract):
    property_ids = ('C13',)
    target = CMD + ":CommandStack.can_undo_redo"
    title = "reports (history non-empty, redo history non-empty); changes nothing"

    def inputs(self, cfg, P):
        st = self.base(P)
        return Inputs([st.stk], st=st)

    def finish(self, cfg, st, P, outcome):
        qn = "CommandStack.can_undo_redo[-]"
        if outcome[0] != 'return':
            return
        r = outcome[1]
        ok = isinstance(r, tuple) and len(r) == 2
        P.check(qn + "/ensures:pair", ok)
        if ok:
            P.check(qn + "/ensures:result", S.And(S.Iff(r[0], z3.Length(st.old_stack) > 0), S.Iff(r[1], z3.Length(st.old_redo) > 0)))
        new, redo = self.stacks(st)
        P.check(qn + "/pure", S.And(new == st.old_stack, redo == st.old_redo, P.ghost['calls'] == 0))


class Label(StackContract):
    property_ids = ('C13',)
    which = 'undo'

    def inputs(self, cfg, P):
        st = self.base(P)
        return Inputs([st.stk], st=st)

    def finish(self, cfg, st, P, outcome):
        qn = "CommandStack.%s_label[-]" % self.which
        if outcome[0] != 'return':
            return
        seq = st.old_stack if self.which == 'undo' else st.old_redo
        n = z3.Length(seq)
        r = outcome[1]
        if isinstance(r, str):
            P.check(qn + "/ensures:empty-label-iff-nothing-to-%s" % self.which, S.And(r == '', n == 0))
        else:
            P.check(qn + "/ensures:label-of-the-command-%s-would-act-on" % self.which, S.And(n > 0, r == label_of(seq[n - 1])))
        new, redo = self.stacks(st)
        P.check(qn + "/pure", S.And(new == st.old_stack, redo == st.old_redo))


class UndoLabel(Label):
    target = CMD + ":CommandStack.undo_label"
    title = "label of the command an undo would reverse ('' when none)"
    which = 'undo'


class RedoLabel(Label):
    target = CMD + ":CommandStack.redo_label"
    title = "label of the command a redo would execute ('' when none)"
    which = 'redo'


# =================================================================================================
class DataCmd(FnContract):
    """AddData / RemoveData: do() changes the membership of the command's dataset as named; do() followed by undo()
    restores the membership the dataset had before (also when do() was a no-op); other datasets are not touched."""
    property_ids = ('C13', 'C06')
    cls = None
    member_after_do = None

    def inputs(self, cfg, P):
        data = PObj('Data')
        present0 = z3.Bool('dataset_in_collection0')
        world = {'present': present0, 'others_touched': False}
        dc = PObj('DataCollection')

        def contains(I, self_, d):
            return world['present'] if d is data else z3.Bool('other_present')

        def append(I, self_, d):
            if d is data:
                world['present'] = z3.BoolVal(True)
            else:
                world['others_touched'] = True

        def remove(I, self_, d):
            if d is data:
                world['present'] = z3.BoolVal(False)
            else:
                world['others_touched'] = True
        dc.methods.update({'__contains__': contains, 'append': append, 'remove': remove})
        session = PObj('Session', fields={'data_collection': dc})
        cmd = PObj(self.cls, fields={'data': data})
        st = St(world=world, data=data, present0=present0, cmd=cmd, session=session)
        return Inputs([cmd, session], st=st)

    def finish(self, cfg, st, P, outcome):
        qn = "%s.do+undo[-]" % self.cls
        if outcome[0] != 'return':
            P.check(qn + "/do-does-not-raise", False)
            return
        P.check(qn + "/ensures:membership-after-do", S.Iff(st.world['present'], self.member_after_do))
        ft = FunctionText(CMD.split(':')[0], self.cls + '.undo')
        I = Interp(P, {}, Hooks(name=qn), ft)
        try:
            I.run_function(ft, [st.cmd, st.session], {})
        except PyRaise:
            P.check(qn + "/undo-does-not-raise", False)
            return
        P.check(qn + "/ensures:undo-restores-the-membership-before-do", S.Iff(st.world['present'], st.present0))
        P.check(qn + "/frame:other-datasets-untouched", not st.world['others_touched'])


class AddDataDoUndo(DataCmd):
    target = CMD + ":AddData.do"
    title = "AddData: after do the dataset is in the collection; do+undo restores its previous membership"
    cls = 'AddData'
    member_after_do = True


class RemoveDataDoUndo(DataCmd):
    target = CMD + ":RemoveData.do"
    title = "RemoveData: after do the dataset is not in the collection; do+undo restores its previous membership"
    cls = 'RemoveData'
    member_after_do = False


# =================================================================================================
State = z3.DeclareSort('SubsetStateRef')


class ApplyDoUndo(FnContract):
    """do(); arbitrary application of a selection (may create one subset group with a subset in every dataset, may
    change any selection, the edit subset and the group counter); undo()  ==>  everything restored."""
    property_ids = ('C13', 'C06')
    cls = 'ApplySubsetState'

    def configs(self, tier):
        base = [dict(ndata=n, groups=g, creates=c) for n in (0, 1, 2) for g in (0, 1) for c in (False, True)]
        # a pre-existing group is removed through the collection between do and undo (undo then cannot restore it, but what it leaves
        # must still be a consistent registry: every registered group has its subset in every dataset and nothing else is carried)
        return base + [dict(ndata=n, groups=g, creates=c, removed=r) for n in (1, 2) for g in (1, 2) for c in (False, True) for r in range(g)]

    def inputs(self, cfg, P):
        nd, ng = cfg['ndata'], cfg['groups']
        world = St(datas=[], groups=[], sg_count=z3.Int('sg_count0'), edit=PList([]))
        dc = PObj('DataCollection')

        def mk_subset(data, group, tag):
            # GroupedSubset.subset_state is a Pointer to group.subset_state
            s = PObj('GroupedSubset', fields={'data': data, 'group': group})
            s.methods['subset_state'] = ('__property__', lambda I, self_: self_.fields['group'].fields['subset_state'])
            s.methods['subset_state.setter'] = lambda I, self_, v: self_.fields['group'].fields.__setitem__('subset_state', v)

            def delete(I, self_):
                d = self_.fields['data']
                d.fields['_subsets'] = [x for x in d.fields['_subsets'] if x is not self_]
            s.methods['delete'] = delete
            return s
        for i in range(nd):
            d = PObj('Data', fields={'_subsets': []})
            d.methods['subsets'] = ('__property__', lambda I, self_: tuple(self_.fields['_subsets']))
            world.datas.append(d)
        for j in range(ng):
            g = PObj('SubsetGroup', fields={'subsets': [], 'subset_state': z3.Const('group_state_%d' % j, State)})
            for i, d in enumerate(world.datas):
                s = mk_subset(d, g, 'g%d_d%d' % (j, i))
                d.fields['_subsets'].append(s)
                g.fields['subsets'].append(s)
            world.groups.append(g)
        if ng:
            world.edit = PList([world.groups[0]])
        dc.fields['_sg_count'] = world.sg_count
        dc.methods['__iter__'] = lambda I, self_: PList(list(world.datas))
        dc.methods['subset_groups'] = ('__property__', lambda I, self_: tuple(world.groups))

        def remove_subset_group(I, self_, g):
            if not any(x is g for x in world.groups):
                return None
            world.groups[:] = [x for x in world.groups if x is not g]
            for s in list(g.fields['subsets']):
                s.methods['delete'](I, s)
            return None
        dc.methods['remove_subset_group'] = remove_subset_group
        mode = PObj('EditSubsetMode', fields={'_edit_subset': world.edit})
        mode.methods['edit_subset'] = ('__property__', lambda I, self_: self_.fields['_edit_subset'])

        def set_edit(I, self_, v):
            self_.fields['_edit_subset'] = v
        mode.methods['edit_subset.setter'] = set_edit

        def apply_update(I, *a, **k):
            """the selection is applied (external): see class docstring"""
            for g in world.groups:
                g.fields['subset_state'] = I.path.fresh('new_state', State)
            if cfg['creates']:
                g = PObj('SubsetGroup', fields={'subsets': [], 'subset_state': I.path.fresh('created_state', State)})
                for i, d in enumerate(world.datas):
                    s = mk_subset(d, g, 'created_d%d' % i)
                    d.fields['_subsets'].append(s)
                    g.fields['subsets'].append(s)
                world.groups.append(g)
                dc.fields['_sg_count'] = dc.fields['_sg_count'] + 1
                mode.fields['_edit_subset'] = PList([g])
            return None
        mode.methods['update'] = apply_update
        session = PObj('Session', fields={'edit_subset_mode': mode, 'data_collection': dc})
        cmd = PObj(self.cls, fields={'data_collection': dc, 'subset_state': z3.Const('applied_state', State), 'extra': {},
                                     'roi': z3.Const('roi', State), 'apply_func': Builtin('apply_func', apply_update)})
        before = St(groups=list(world.groups), subsets=[list(d.fields['_subsets']) for d in world.datas],
                    states=[g.fields['subset_state'] for g in world.groups],
                    edit=list(world.edit.items), sg_count=world.sg_count)
        st = St(world=world, dc=dc, mode=mode, session=session, cmd=cmd, before=before)
        return Inputs([cmd, session], st=st)

    def globals_(self, cfg, st):
        return {'ReplaceMode': Builtin('ReplaceMode', lambda I, *a: None)}

    def finish(self, cfg, st, P, outcome):
        qn = "%s.do+undo[%s]" % (self.cls, self.cfg_name(cfg))
        if outcome[0] != 'return':
            return
        w, b = st.world, st.before
        created = [g for g in w.groups if not any(g is x for x in b.groups)]
        if 'removed' in cfg:
            victim = b.groups[cfg['removed']]
            st.dc.methods['remove_subset_group'](None, st.dc, victim)
        # now run the real undo() on the same heap
        ft = FunctionText(CMD.split(':')[0], self.cls + '.undo')
        I = Interp(P, self.globals_(cfg, st), Hooks(name=qn), ft)
        try:
            I.run_function(ft, [st.cmd, st.session], {})
        except PyRaise as e:
            P.check(qn + "/undo-does-not-raise", False)
            return
        if 'removed' in cfg:
            P.check(qn + "/ensures:groups-created-by-the-command-are-gone", not any(g is x for g in created for x in w.groups))
            P.check(qn + "/ensures:surviving-groups-are-the-other-previous-ones-in-order",
                    len(w.groups) == len(b.groups) - 1 and all(x is y for x, y in zip(w.groups, [g for g in b.groups if g is not victim])))
            sym = True
            for d in w.datas:
                carried = d.fields['_subsets']
                # every carried subset belongs to a registered group, and every registered group has exactly one subset here
                sym = sym and all(any(s.fields['group'] is g for g in w.groups) for s in carried)
                sym = sym and all(sum(1 for s in carried if s.fields['group'] is g) == 1 for g in w.groups)
                sym = sym and all(any(s is x for x in s.fields['group'].fields['subsets']) for s in carried)
            P.check(qn + "/ensures:registry-symmetric(every-registered-group-has-its-subset-in-every-dataset-and-nothing-else-is-carried)", sym)
            conds = [g.fields['subset_state'] == old for g, old in zip(b.groups, b.states) if g is not victim]
            P.check(qn + "/ensures:selections-of-the-surviving-groups-restored", S.And(*conds) if conds else True)
            P.check(qn + "/ensures:group-counter-restored", st.dc.fields['_sg_count'] == b.sg_count)
            return
        P.check(qn + "/ensures:subset-groups-restored", len(w.groups) == len(b.groups) and all(x is y for x, y in zip(w.groups, b.groups)))
        ok_subsets = all(len(d.fields['_subsets']) == len(bs) and all(x is y for x, y in zip(d.fields['_subsets'], bs))
                         for d, bs in zip(w.datas, b.subsets))
        P.check(qn + "/ensures:each-dataset-has-exactly-its-previous-subsets", ok_subsets)
        if len(w.groups) == len(b.groups):
            # the selection of every group (which is what each of its subsets shows), also of groups that have no subset because
            # the collection holds no dataset
            conds = [g.fields['subset_state'] == old for g, old in zip(w.groups, b.states)]
            P.check(qn + "/ensures:every-selection-restored", S.And(*conds) if conds else True)
        e = st.mode.fields['_edit_subset']
        items = e.items if isinstance(e, PList) else (list(e) if isinstance(e, (list, tuple)) else None)
        P.check(qn + "/ensures:edit-subset-choice-restored", items is not None and len(items) == len(b.edit) and all(x is y for x, y in zip(items, b.edit)))
        P.check(qn + "/ensures:group-counter-restored", st.dc.fields['_sg_count'] == b.sg_count)
        if not ok_subsets:
            return
        # ---- second round on the SAME command object (redo after other commands were undone and redone in between:
        # the groups/subsets are then different objects and the selections differ) - the command must snapshot again
        self.second_round(cfg, st, P, qn)

    def second_round(self, cfg, st, P, qn):
        w = st.world
        # other commands re-created the existing groups as new objects with new selections
        old_groups = list(w.groups)
        w.groups[:] = []
        for d in w.datas:
            d.fields['_subsets'] = []
        for j, g_old in enumerate(old_groups):
            g = PObj('SubsetGroup', fields={'subsets': [], 'subset_state': P.fresh('round2_state', State)})
            for i, d in enumerate(w.datas):
                s = PObj('GroupedSubset', fields={'data': d, 'group': g})
                s.methods['subset_state'] = ('__property__', lambda I, self_: self_.fields['group'].fields['subset_state'])
                s.methods['subset_state.setter'] = lambda I, self_, v: self_.fields['group'].fields.__setitem__('subset_state', v)
                s.methods['delete'] = g_old.fields['subsets'][i].methods['delete'] if g_old.fields['subsets'] else None
                d.fields['_subsets'].append(s)
                g.fields['subsets'].append(s)
            w.groups.append(g)
        st.mode.fields['_edit_subset'] = PList([w.groups[0]]) if w.groups else PList([])
        st.dc.fields['_sg_count'] = P.fresh_int('sg_count_round2')
        b = St(groups=list(w.groups), subsets=[list(d.fields['_subsets']) for d in w.datas],
               states=[g.fields['subset_state'] for g in w.groups],
               edit=list(st.mode.fields['_edit_subset'].items), sg_count=st.dc.fields['_sg_count'])
        for fn in ('do', 'undo'):
            ft = FunctionText(CMD.split(':')[0], self.cls + '.' + fn)
            I = Interp(P, self.globals_(cfg, st), Hooks(name=qn), ft)
            try:
                I.run_function(ft, [st.cmd, st.session], {})
            except PyRaise:
                P.check(qn + "/redo-round:%s-does-not-raise" % fn, False)
                return
        P.check(qn + "/redo-round:subset-groups-restored", len(w.groups) == len(b.groups) and all(x is y for x, y in zip(w.groups, b.groups)))
        ok2 = all(len(d.fields['_subsets']) == len(bs) and all(x is y for x, y in zip(d.fields['_subsets'], bs))
                  for d, bs in zip(w.datas, b.subsets))
        P.check(qn + "/redo-round:each-dataset-has-exactly-its-previous-subsets", ok2)
        if len(w.groups) == len(b.groups):
            conds = [g.fields['subset_state'] == old for g, old in zip(w.groups, b.states)]
            P.check(qn + "/redo-round:every-selection-restored", S.And(*conds) if conds else True)
        e = st.mode.fields['_edit_subset']
        items = e.items if isinstance(e, PList) else (list(e) if isinstance(e, (list, tuple)) else None)
        P.check(qn + "/redo-round:edit-subset-choice-restored",
                items is not None and len(items) == len(b.edit) and all(x is y for x, y in zip(items, b.edit)))
        P.check(qn + "/redo-round:group-counter-restored", st.dc.fields['_sg_count'] == b.sg_count)


class ApplySubsetStateDoUndo(ApplyDoUndo):
    target = CMD + ":ApplySubsetState.do"
    title = "ApplySubsetState: do, any application of the selection, undo => groups, subsets, selections, edit subset, group counter restored"
    cls = 'ApplySubsetState'


class ApplyROIDoUndo(ApplyDoUndo):
    target = CMD + ":ApplyROI.do"
    title = "ApplyROI: do, any application of the region, undo => groups, subsets, selections, edit subset, group counter restored"
    cls = 'ApplyROI'


CONTRACTS = [StackDo(), StackUndo(), StackRedo(), CanUndoRedo(), UndoLabel(), RedoLabel(),
             AddDataDoUndo(), RemoveDataDoUndo(),
             ApplySubsetStateDoUndo(), ApplyROIDoUndo()]
