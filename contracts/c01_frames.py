"""C01 (and C10) - frame contract of the statistic kernel glue/utils/array.py:compute_statistic.

Evaluating a selection must never alter it.  Masks handed to the statistic kernel may be cache entries of memoised
to_mask methods (or basic-slice views of them), so the kernel is put under a frame contract:

  compute_statistic(statistic, data, mask, axis, finite, positive, percentile)
      frame     neither the `data` nor the `mask` array object handed in is written (no in-place operator, no item
                assignment reaches them; np.asanyarray returns the very object it is given - the worst case)
      result    the statistic's function (NaN-ignoring variant whenever anything is filtered) applied to the values
                restricted to keep = [finite] & [positive] & [mask], where keep starts from a fresh all-True array:
                with axis None the values indexed by keep, otherwise a float copy with NaN written outside keep;
                no filter (or datetime values): the plain function on the values themselves; NaN for no values;
                the values themselves for an empty axis tuple

Arrays are opaque tokens with identity; every numpy operation returns a fresh token whose description nests the
operands', in-place operations rewrite the description of the object they are applied to and flag it as written.
"""
import z3

from pyvc.verify import FnContract, Inputs, St
from pyvc.values import PObj, PList, Builtin, PType, is_z3

ARRAY = "glue/utils/array.py"
CONTRACTS = []

STATS = ('minimum', 'maximum', 'mean', 'median', 'sum', 'percentile')


def _d(x):
    if isinstance(x, PObj) and 'desc' in x.fields:
        return x.fields['desc']
    if isinstance(x, tuple):
        return tuple(_d(y) for y in x)
    if isinstance(x, PList):
        return tuple(_d(y) for y in x.items)
    if is_z3(x):
        return ('sym', str(x))
    return x


def arr(desc, st, given=False, **fields):
    a = PObj('array', fields=dict(desc=desc, written=False, given=given, **fields))
    st.arrays.append(a)

    def fresh(name):
        def f(I, self_, *args, **kw):
            return arr((name, self_.fields['desc']) + tuple(_d(x) for x in args), st, size=self_.fields.get('size'), dtype=self_.fields.get('dtype'))
        return f
    for nm in ('__gt__', '__lt__', '__ge__', '__le__', '__invert__', '__and__', '__or__', 'astype', 'copy'):
        a.methods[nm] = fresh(nm)

    def getitem(I, self_, key):
        # indexing with a boolean/integer array copies; a basic index would be a view of the same memory
        if isinstance(key, PObj) and key.cls == 'array':
            return arr(('getitem', self_.fields['desc'], _d(key)), st, size=z3.Int('n_kept'), dtype=self_.fields.get('dtype'))
        v = arr(('view', self_.fields['desc'], _d(key)), st, size=self_.fields.get('size'), dtype=self_.fields.get('dtype'))
        v.fields['base'] = self_
        return v
    a.methods['__getitem__'] = getitem

    def touch(self_):
        self_.fields['written'] = True
        b = self_.fields.get('base')
        while b is not None:
            b.fields['written'] = True
            b = b.fields.get('base')

    def inplace(name):
        def f(I, self_, other):
            self_.fields['desc'] = (name, self_.fields['desc'], _d(other))
            touch(self_)
            return self_
        return f
    for nm in ('__iand__', '__ior__', '__ixor__', '__iadd__', '__imul__', '__isub__'):
        a.methods[nm] = inplace(nm)

    def setitem(I, self_, key, value):
        self_.fields['desc'] = ('setitem', self_.fields['desc'], _d(key), _d(value))
        touch(self_)
    a.methods['__setitem__'] = setitem
    return a


class StatisticKernelFrame(FnContract):
    property_ids = ('C01', 'C10')
    target = ARRAY + ":compute_statistic"
    title = ("neither the values nor the mask handed in is written; the result is the statistic's function (NaN-ignoring when anything is filtered) of the values "
             "restricted to a fresh keep = [finite] & [positive] & [mask]")

    def configs(self, tier):
        out = []
        stats = ('mean', 'percentile') if tier == 'quick' else STATS
        for statistic in stats:
            for finite in (True, False):
                for positive in (True, False):
                    for mask in (True, False):
                        for axis in ('none', 'int', 'empty', 'pair'):
                            out.append(dict(statistic=statistic, finite=finite, positive=positive, mask=mask, axis=axis, kind='f'))
        for mask in (True, False):
            out.append(dict(statistic='maximum', finite=True, positive=False, mask=mask, axis='none', kind='M'))
        out.append(dict(statistic='mode', finite=True, positive=False, mask=False, axis='none', kind='f'))
        return out

    def inputs(self, cfg, P):
        st = St(cfg=cfg, arrays=[], applied=[])
        dtype = PObj('dtype', fields={'kind': cfg['kind']})
        # one shape object for both (the mask has the shape of the values: the worst case for aliasing shortcuts); whether the arrays
        # are writeable, contiguous or own their memory is left open
        shape = PObj('shape', fields={'desc': ('shape-of-values',)})

        def flags(nm):
            return PObj('flags', fields={k: z3.Bool('%s_%s' % (nm, k)) for k in ('writeable', 'owndata', 'c_contiguous', 'f_contiguous', 'contiguous')})
        st.data = arr(('values',), st, given=True, size=z3.Int('n_values'), dtype=dtype, shape=shape, flags=flags('values'), ndim=z3.Int('ndim'))
        st.mask = arr(('mask',), st, given=True, size=z3.Int('n_values'), dtype=PObj('dtype', fields={'kind': 'b'}),
                      shape=shape, flags=flags('mask'), ndim=z3.Int('ndim')) if cfg['mask'] else None
        st.axis = {'none': None, 'int': 0, 'empty': (), 'pair': (0, 1)}[cfg['axis']]
        kw = dict(mask=st.mask, axis=st.axis, finite=cfg['finite'], positive=cfg['positive'])
        if cfg['statistic'] == 'percentile':
            kw['percentile'] = z3.Real('percentile')
        return Inputs([cfg['statistic'], st.data], kw, st=st)

    def requires(self, cfg, st):
        return [('sizes', z3.And(z3.Int('n_values') >= 0, z3.Int('n_kept') >= 0, z3.Int('n_kept') <= z3.Int('n_values')))]

    raises = {'ValueError': lambda cfg, st: cfg['statistic'] not in STATS}

    def globals_(self, cfg, st):
        def asany(I, a, dtype=None):
            return a                      # an ndarray of the right dtype is returned as is: the worst case for the frame

        def ones(I, shape, dtype=None):
            return arr(('ones', _d(shape)), st, size=st.data.fields['size'])

        def np1(name):
            return Builtin('np.' + name, lambda I, *a, **k: arr((name,) + tuple(_d(x) for x in a), st, size=a[0].fields.get('size') if a and isinstance(a[0], PObj) else None))

        def array(I, a, dtype=None, copy=True):
            return arr(('copy-as-float' if dtype is not None else 'copy', _d(a)), st, size=a.fields.get('size'), dtype=PObj('dtype', fields={'kind': 'f'}))

        def fn(kind, name):
            def f(I, data, *args, axis='missing'):
                st.applied.append((kind, name, data, args, axis))
                return arr((kind + name, _d(data)) + tuple(_d(x) for x in args) + (('axis', _d(axis)),), st)
            return Builtin(kind + name, f)
        cm = ('__cm__', lambda: None, lambda exc: None)
        g = {'numpy.asanyarray': Builtin('np.asanyarray', asany), 'numpy.asarray': Builtin('np.asarray', asany), 'numpy.ones': Builtin('np.ones', ones),
             'numpy.isfinite': np1('isfinite'), 'numpy.array': Builtin('np.array', array), 'numpy.nan': 'NAN', 'numpy.logical_and': np1('logical_and'),
             'numpy.ones_like': Builtin('np.ones_like', lambda I, a, dtype=None: arr(('ones', ('shape-of', _d(a))), st, size=a.fields.get('size'))),
             'numpy.isnan': np1('isnan'), 'numpy.where': np1('where'),
             'PLAIN_FUNCTIONS': {s: fn('plain-', s) for s in STATS}, 'NAN_FUNCTIONS': {s: fn('nan-', s) for s in STATS},
             'warnings.catch_warnings': Builtin('catch_warnings', lambda I, *a, **k: cm), 'warnings.simplefilter': Builtin('simplefilter', lambda I, *a, **k: None),
             'RuntimeWarning': PType('RuntimeWarning'), 'float': PType('float'), 'bool': PType('bool'), 'tuple': PType('tuple'),
             'isinstance': Builtin('isinstance', lambda I, v, t: isinstance(v, tuple) if getattr(t, 'name', None) == 'tuple' else False)}
        return g

    # ------------------------------------------------------------------------------------------
    @staticmethod
    def _factors(d):
        """leaves of the conjunction that makes up `keep` (all-True arrays dropped)"""
        if isinstance(d, tuple) and d and d[0] in ('__iand__', '__and__', 'logical_and') and len(d) == 3:
            return StatisticKernelFrame._factors(d[1]) + StatisticKernelFrame._factors(d[2])
        if isinstance(d, tuple) and d and d[0] == 'ones':
            return []
        return [d]

    def ensures(self, cfg, st, result):
        out = []
        out.append(('frame:values-array-not-written', not st.data.fields['written'] and st.data.fields['desc'] == ('values',)))
        if st.mask is not None:
            out.append(('frame:mask-array-not-written', not st.mask.fields['written'] and st.mask.fields['desc'] == ('mask',)))
        filtered = (cfg['finite'] or cfg['positive'] or cfg['mask']) and cfg['kind'] != 'M'
        want = set()
        if cfg['finite']:
            want.add(('isfinite', ('values',)))
        if cfg['positive']:
            want.add(('__gt__', ('values',), 0))
        if cfg['mask']:
            want.add(('mask',))
        return out + self._result_clauses(cfg, st, result, filtered, want)

    def _result_clauses(self, cfg, st, result, filtered, want):
        out = []
        n_values, n_kept = z3.Int('n_values'), z3.Int('n_kept')
        if result == 'NAN':
            # no values at all (or none kept, with axis None)
            size = n_kept if (filtered and cfg['axis'] == 'none') else n_values
            out.append(('nan-only-when-there-is-nothing-to-reduce', size == 0))
            return out
        if cfg['axis'] == 'empty' and not st.applied:
            d = _d(result)
            out.append(('empty-axis-tuple:the-restricted-values-themselves', self._restricted(cfg, d, filtered, want)))
            return out
        ok = isinstance(result, PObj) and len(st.applied) == 1
        out.append(('one-statistic-function-applied', ok))
        if not ok:
            return out
        kind, name, data, args, axis = st.applied[0]
        out.append(('function-is-the-requested-statistic', name == cfg['statistic']))
        out.append(('nan-ignoring-function-iff-anything-is-filtered', kind == ('nan-' if filtered else 'plain-')))
        out.append(('reduction-axes-passed-on', axis == st.axis or (axis is None and st.axis is None)))
        if cfg['statistic'] == 'percentile':
            out.append(('percentile-passed-on', len(args) == 1 and is_z3(args[0]) and z3.eq(args[0], z3.Real('percentile'))))
        out.append(('applied-to-the-restricted-values', self._restricted(cfg, _d(data), filtered, want)))
        size = n_kept if (filtered and cfg['axis'] == 'none') else n_values
        out.append(('something-to-reduce', size != 0))
        return out

    def _restricted(self, cfg, d, filtered, want):
        if not filtered:
            return d == ('values',)
        if cfg['axis'] == 'none':
            if not (isinstance(d, tuple) and len(d) == 3 and d[0] == 'getitem' and d[1] == ('values',)):
                return False
            keep = d[2]
        else:
            # float copy with NaN outside keep
            if not (isinstance(d, tuple) and len(d) == 4 and d[0] == 'setitem' and d[1] == ('copy-as-float', ('values',)) and d[3] == 'NAN'):
                return False
            inv = d[2]
            if not (isinstance(inv, tuple) and len(inv) == 2 and inv[0] == '__invert__'):
                return False
            keep = inv[1]
        return set(self._factors(keep)) == want

    # ------------------------------------------------------------------------------------------
    def native(self, cfg, val):
        import os
        import sys
        import numpy as np
        sys.path.insert(0, os.environ.get('GLUE_REPO', '/repo'))
        from glue.utils.array import compute_statistic
        if cfg['statistic'] not in STATS:
            return None
        if cfg['kind'] == 'M':
            values = np.array(['2020-01-01', '2021-01-01', 'NaT', '2019-06-01'], dtype='datetime64[D]').reshape((2, 2))
        else:
            values = np.array([[1., np.nan, -2., 4.], [np.inf, 0., 3., -np.inf], [5., 6., np.nan, -7.]])
        for mask in ([None] if not cfg['mask'] else [np.ones(values.shape, dtype=bool), (np.arange(values.size).reshape(values.shape) % 3 != 1)]):
            v0 = values.copy()
            m0 = None if mask is None else mask.copy()
            kw = dict(mask=mask, axis={'none': None, 'int': 0, 'empty': (), 'pair': (0, 1)}[cfg['axis']], finite=cfg['finite'], positive=cfg['positive'])
            if cfg['statistic'] == 'percentile':
                kw['percentile'] = 30
            try:
                compute_statistic(cfg['statistic'], values, **kw)
            except Exception as e:
                return (False, "compute_statistic(%r, values, %s) raised %s: %s" % (cfg['statistic'], _kw(kw), type(e).__name__, e))
            if m0 is not None and not np.array_equal(mask, m0):
                return (False, "compute_statistic(%r, values, %s) changed the mask array it was given at %d of %d elements (the mask may be a cached mask of a selection)"
                        % (cfg['statistic'], _kw(kw), int(np.sum(mask != m0)), mask.size))
            same = (values == v0) | ((values != values) & (v0 != v0))
            if not np.all(same):
                return (False, "compute_statistic(%r, values, %s) changed the values array it was given" % (cfg['statistic'], _kw(kw)))
        return None

    def native_call(self, cfg, val):
        return "glue.utils.array.compute_statistic(%r, values, mask=%s, axis=%s, finite=%r, positive=%r)" % (
            cfg['statistic'], 'mask' if cfg['mask'] else None, cfg['axis'], cfg['finite'], cfg['positive'])


def _kw(kw):
    return ', '.join("%s=%s" % (k, 'array' if hasattr(v, 'shape') else repr(v)) for k, v in kw.items())


CONTRACTS.append(StatisticKernelFrame())
