"""C02 - saver / loader pairs of glue/core/state.py as inverse functions.

For a pair registered for one class, the real saver is run on an object whose fields are opaque values, and the real loader is run on
the record the saver returned (plus the `_type` entry the serializer adds).  The serialization context is abstract:

    context.id(x)      an opaque reference to x          context.object(ref)   the object the reference stands for (inverse of id)
    context.do(x)      an inline record of x             context.object(None)  None

Postcondition: the loader constructs an object of the right class from exactly the values the saved object held (by identity, so that
falsy values - 0, None, empty - are not swapped for defaults), each in the constructor position of the field it was read from.
Pairs that go through numpy / astropy / matplotlib (arrays, units, WCS, components, Data itself) stay with the bounded round trips.
"""
import z3

from pyvc.verify import FnContract, Inputs, St
from pyvc.values import PObj, PList, Builtin, PType, Unsupported
from pyvc.extract import FunctionText
from pyvc.interp import Interp, Hooks

STATE = "glue/core/state.py"
CONTRACTS = []


def val(name):
    return PObj('value', fields={'name': name})


def make_context():
    ctx = PObj('context')

    def ident(I, s, x):
        return PObj('ref', fields={'of': x})

    def obj(I, s, r):
        if r is None:
            return None
        if isinstance(r, PObj) and r.cls == 'ref':
            return r.fields['of']
        if isinstance(r, PObj) and r.cls == 'inline-record':
            return r.fields['of']
        raise Unsupported("context.object of %r" % (r,))
    ctx.methods['id'] = ident
    ctx.methods['object'] = lambda I, s, r: r if _literal(r) else obj(I, s, r)
    # numbers and strings of numbers are written as they are (GlueSerializer.do / GlueUnSerializer.object pass literals through)
    ctx.methods['do'] = lambda I, s, x: x if _literal(x) else PObj('inline-record', fields={'of': x})
    return ctx


def _literal(x):
    return isinstance(x, (int, float)) or (isinstance(x, PObj) and x.fields.get('literal') is True)


def num(name):
    return PObj('value', fields={'name': name, 'literal': True})


class Pair(FnContract):
    """subclasses give: cls (class name), saver / loader function names, fields {attribute: value}, and expect(st, made) -> clauses"""
    property_ids = ('C02', 'C12')
    cls = None
    saver = None
    loader = None

    @property
    def target(self):
        return STATE + ":" + self.loader

    @property
    def title(self):
        return "%s: the loader rebuilds the object from exactly the values the saver recorded (%s is the inverse of %s)" % (self.cls, self.loader, self.saver)

    def configs(self, tier):
        return [{}]

    def make_object(self, cfg):
        raise NotImplementedError

    def inputs(self, cfg, P):
        st = St(made=[], cfg=cfg)
        st.obj = self.make_object(cfg)
        st.ctx = make_context()
        # the real saver, from its own text, on the same path
        ft = FunctionText(STATE, self.saver)
        g = self.globals_(cfg, st)
        rec = Interp(P, g, Hooks(name=self.saver), ft).run_function(ft, [st.obj, st.ctx], {})
        if not isinstance(rec, dict):
            raise Unsupported("saver returned %r" % (rec,))
        rec = dict(rec)
        rec['_type'] = 'glue.core.%s' % self.cls
        st.rec = rec
        return Inputs([rec, st.ctx], st=st)

    def ctor(self, st, name):
        def make(I, *a, **k):
            o = PObj(name, fields={'args': a, 'kwargs': k})
            st.made.append(o)
            return o
        return Builtin(name, make)

    def globals_(self, cfg, st):
        return {self.cls: self.ctor(st, self.cls)}

    def ensures(self, cfg, st, result):
        ok = isinstance(result, PObj) and result.cls == self.cls and len(st.made) == 1 and result is st.made[0]
        out = [('loader-constructs-one-object-of-the-saved-class', ok)]
        if ok:
            out += self.expect(cfg, st, result)
        return out


def same(a, b):
    return a is b


class RangePair(Pair):
    cls, saver, loader = 'RangeSubsetState', '_save_range_subset_state', '_load_range_subset_state'

    def make_object(self, cfg):
        return PObj(self.cls, fields={'lo': val('lo'), 'hi': val('hi'), 'att': val('att')})

    def expect(self, cfg, st, r):
        f = st.obj.fields
        a = r.fields['args']
        return [('constructor-gets-lo-hi-att-as-saved', len(a) == 3 and not r.fields['kwargs'] and same(a[0], f['lo']) and same(a[1], f['hi']) and same(a[2], f['att']))]


class RoiPair(Pair):
    cls, saver, loader = 'RoiSubsetState', '_save_roi_subset_state', '_load_roi_subset_state'

    def configs(self, tier):
        return [dict(pretransform='set'), dict(pretransform='none')]

    def make_object(self, cfg):
        return PObj(self.cls, fields={'xatt': val('xatt'), 'yatt': val('yatt'), 'roi': val('roi'), 'pretransform': val('pretransform') if cfg['pretransform'] == 'set' else None})

    def expect(self, cfg, st, r):
        f = st.obj.fields
        a = r.fields['args']
        return [('constructor-gets-xatt-yatt-roi-pretransform-as-saved',
                 len(a) == 4 and not r.fields['kwargs'] and same(a[0], f['xatt']) and same(a[1], f['yatt']) and same(a[2], f['roi']) and same(a[3], f['pretransform']))]


class RoiNdPair(Pair):
    cls, saver, loader = 'RoiSubsetStateNd', '_save_roi_subset_state_nd', '_load_roi_subset_state_nd'

    def configs(self, tier):
        return [dict(n=n) for n in (1, 2, 3)]

    def make_object(self, cfg):
        atts = [val('att%d' % i) for i in range(cfg['n'])]
        o = PObj(self.cls, fields={'roi': val('roi'), 'pretransform': val('pretransform'), '_atts': atts})
        o.methods['attributes'] = ('__property__', lambda I, s: tuple(s.fields['_atts']))
        return o

    def expect(self, cfg, st, r):
        f = st.obj.fields
        k = r.fields['kwargs']
        atts = k.get('atts')
        items = atts.items if isinstance(atts, PList) else (list(atts) if isinstance(atts, (list, tuple)) else None)
        return [('constructor-gets-the-attributes-in-order-roi-and-pretransform-as-saved',
                 not r.fields['args'] and set(k) == {'atts', 'roi', 'pretransform'} and items is not None and len(items) == len(f['_atts'])
                 and all(same(x, y) for x, y in zip(items, f['_atts'])) and same(k['roi'], f['roi']) and same(k['pretransform'], f['pretransform']))]


OPS = ['ge', 'gt', 'le', 'lt', 'eq', 'ne']


class InequalityPair(Pair):
    cls, saver, loader = 'InequalitySubsetState', '_save_inequality_subset_state', '_load_inequality_subset_state'

    def configs(self, tier):
        return [dict(op=o) for o in OPS]

    def make_object(self, cfg):
        self._ops = getattr(self, '_ops', None) or {o: PObj('operator.' + o) for o in OPS}
        return PObj(self.cls, fields={'left': val('left'), 'right': val('right'), 'operator': self._ops[cfg['op']]})

    def globals_(self, cfg, st):
        g = Pair.globals_(self, cfg, st)
        self._ops = getattr(self, '_ops', None) or {o: PObj('operator.' + o) for o in OPS}
        # the repository's own tables, read from the module (symbols of the comparison operators and their inverse)
        import os
        import sys
        sys.path.insert(0, os.environ.get('GLUE_REPO', '/repo'))
        import operator
        from glue.core import subset as S_
        real = {getattr(operator, o): o for o in OPS}
        opsym = {self._ops[real[k]]: v for k, v in S_.OPSYM.items() if k in real}
        symop = {v: self._ops[real[k]] for v, k in S_.SYMOP.items() if k in real}
        g['OPSYM'] = PObj('dict', methods={'get': lambda I, s, k, d=None: next((v for kk, v in opsym.items() if kk is k), d)})
        g['SYMOP'] = symop
        return g

    def expect(self, cfg, st, r):
        f = st.obj.fields
        a = r.fields['args']
        return [('constructor-gets-left-right-and-the-same-comparison-as-saved',
                 len(a) == 3 and not r.fields['kwargs'] and same(a[0], f['left']) and same(a[1], f['right']) and same(a[2], f['operator']))]


class CompositePair(Pair):
    saver, loader = '_save_composite_subset_state', '_load_composite_subset_state'
    cls = 'AndState'

    def configs(self, tier):
        return [dict(kind='binary'), dict(kind='invert')]

    def make_object(self, cfg):
        return PObj(self.cls, fields={'state1': val('state1'), 'state2': val('state2') if cfg['kind'] == 'binary' else None})

    def globals_(self, cfg, st):
        ctor = self.ctor(st, self.cls)
        return {'lookup_class_with_patches': Builtin('lookup_class_with_patches', lambda I, name: ctor if name == 'glue.core.%s' % self.cls else PObj('other-class'))}

    def expect(self, cfg, st, r):
        f = st.obj.fields
        a = r.fields['args']
        return [('class-looked-up-from-the-recorded-type-and-given-state1-state2-as-saved',
                 len(a) == 2 and not r.fields['kwargs'] and same(a[0], f['state1']) and same(a[1], f['state2']))]


class SlicePair(FnContract):
    property_ids = ('C02', 'C12')
    target = STATE + ":_load_slice"
    title = "slice: start, stop and step are recorded and read back in that order (None stays None)"

    def configs(self, tier):
        return [dict(none=m) for m in range(8)]

    def inputs(self, cfg, P):
        from pyvc.values import PSlice
        vals = [None if (cfg['none'] >> i) & 1 else z3.Int(n) for i, n in enumerate(('start', 'stop', 'step'))]
        sl = PObj('slice', fields={'start': vals[0], 'stop': vals[1], 'step': vals[2]})
        st = St(vals=vals)
        ft = FunctionText(STATE, '_save_slice')
        rec = Interp(P, {}, Hooks(name='_save_slice'), ft).run_function(ft, [sl, make_context()], {})
        return Inputs([dict(rec), make_context()], st=st)

    def ensures(self, cfg, st, result):
        from pyvc.values import PSlice
        ok = isinstance(result, PSlice)
        out = [('loader-builds-a-slice', ok)]
        if ok:
            got = [result.start, result.stop, result.step]
            out.append(('start-stop-step-as-saved', all((g is None) if w is None else (g is w) for g, w in zip(got, st.vals))))
        return out


class ListPair(FnContract):
    property_ids = ('C02', 'C12')
    target = STATE + ":_load_list"
    title = "list: the items are recorded by reference in order and read back in that order"

    def configs(self, tier):
        return [dict(n=n) for n in (0, 1, 3)]

    def inputs(self, cfg, P):
        items = [val('item%d' % i) for i in range(cfg['n'])]
        ctx = make_context()
        ft = FunctionText(STATE, '_save_list')
        rec = Interp(P, {}, Hooks(name='_save_list'), ft).run_function(ft, [PList(list(items)), ctx], {})
        return Inputs([dict(rec), ctx], st=St(items=items))

    def ensures(self, cfg, st, result):
        got = result.items if isinstance(result, PList) else (list(result) if isinstance(result, (list, tuple)) else None)
        return [('same-items-in-the-same-order', got is not None and len(got) == len(st.items) and all(a is b for a, b in zip(got, st.items)))]


class StylePair(Pair):
    """VisualAttributes: every listed attribute is recorded by value and set again on a fresh default object - also values that are falsy"""
    cls, saver, loader = 'VisualAttributes', '_save_style', '_load_style'
    ATTS = ['color', 'alpha', 'linewidth', 'linestyle', 'marker', 'markersize']

    def configs(self, tier):
        return [dict(cmap=c) for c in (True, False)]

    def make_object(self, cfg):
        f = {a: val(a) for a in self.ATTS}
        f['alpha'] = 0                     # fully transparent: a falsy value that must survive
        f['linewidth'] = 0.0
        f['_atts'] = PList(list(self.ATTS))
        return PObj(self.cls, fields=f)

    def globals_(self, cfg, st):
        def make(I, *a, **k):
            if a or k:
                raise Unsupported("VisualAttributes constructed with arguments: its __init__ is outside this contract (bounded round trips decide)")
            f = {x: 'DEFAULT-%s' % x for x in self.ATTS}
            f['_atts'] = PList(list(self.ATTS) + (['preferred_cmap'] if cfg['cmap'] else []))
            o = PObj(self.cls, fields=f)
            st.made.append(o)
            return o
        return {self.cls: Builtin(self.cls, make)}

    def ensures(self, cfg, st, result):
        ok = isinstance(result, PObj) and result.cls == self.cls and len(st.made) == 1 and result is st.made[0]
        out = [('loader-builds-one-fresh-style', ok)]
        if ok:
            f, g = st.obj.fields, result.fields
            for a in self.ATTS:
                w, v = f[a], g.get(a)
                out.append(('attribute-%s-as-saved' % a, (v is w) if isinstance(w, PObj) else (type(v) is type(w) and v == w)))
        return out


for c in (RangePair(), RoiPair(), RoiNdPair(), InequalityPair(), CompositePair(), SlicePair(), ListPair(), StylePair()):
    CONTRACTS.append(c)


# -------------------------------------------------------------------------------------------------
# classes of glue/core/subset.py that carry their own __gluestate__ / __setgluestate__
SUBSET = "glue/core/subset.py"


def _lst(x):
    return x.items if isinstance(x, PList) else (list(x) if isinstance(x, (list, tuple)) else None)


class MethodPair(FnContract):
    property_ids = ('C02', 'C12')
    cls = None
    file = SUBSET
    fields = ()                # attribute names read by __gluestate__ (properties are modelled as fields)

    @property
    def target(self):
        return self.file + ":%s.__setgluestate__" % self.cls

    @property
    def title(self):
        return "%s: __setgluestate__ rebuilds the selection from exactly the values __gluestate__ recorded" % self.cls

    def make_object(self, cfg):
        return PObj(self.cls, fields={f: val(f) for f in self.fields})

    def inputs(self, cfg, P):
        st = St(made=[], cfg=cfg)
        st.obj = self.make_object(cfg)
        st.ctx = make_context()
        ft = FunctionText(self.file, self.cls + '.__gluestate__')
        rec = Interp(P, self.globals_(cfg, st), Hooks(name=self.cls + '.__gluestate__'), ft).run_function(ft, [st.obj, st.ctx], {})
        if not isinstance(rec, dict):
            raise Unsupported("__gluestate__ returned %r" % (rec,))
        st.rec = dict(rec)

        def make(I, *a, **k):
            o = PObj(self.cls, fields={'args': a, 'kwargs': k})
            st.made.append(o)
            return o
        st.ctor = Builtin(self.cls, make)
        return Inputs([st.ctor, st.rec, st.ctx], st=st)

    def ensures(self, cfg, st, result):
        ok = isinstance(result, PObj) and result.cls == self.cls and len(st.made) == 1 and result is st.made[0]
        out = [('one-object-of-the-class-is-built', ok)]
        if ok:
            out += self.expect(cfg, st, result.fields['args'], result.fields['kwargs'], st.obj.fields)
        return out


class CategoricalRoiMP(MethodPair):
    cls, fields = 'CategoricalROISubsetState', ('att', 'roi')

    def expect(self, cfg, st, a, k, f):
        return [('att-and-roi-as-saved', not a and set(k) == {'att', 'roi'} and k['att'] is f['att'] and k['roi'] is f['roi'])]


class MultiRangeMP(MethodPair):
    cls = 'MultiRangeSubsetState'

    def configs(self, tier):
        return [dict(n=n) for n in (0, 1, 3)]

    def make_object(self, cfg):
        return PObj(self.cls, fields={'att': val('att'), 'pairs': PList([(val('lo%d' % i), val('hi%d' % i)) for i in range(cfg['n'])])})

    def expect(self, cfg, st, a, k, f):
        pairs = _lst(a[0]) if len(a) == 1 else None
        want = f['pairs'].items
        ok = pairs is not None and len(pairs) == len(want) and all(len(_lst(p) or ()) == 2 and _lst(p)[0] is w[0] and _lst(p)[1] is w[1] for p, w in zip(pairs, want))
        return [('every-range-with-its-own-bounds-in-order-and-the-attribute-as-saved', bool(ok) and set(k) == {'att'} and k['att'] is f['att'])]


class Categorical2DMP(MethodPair):
    cls, fields = 'CategoricalROISubsetState2D', ('categories', 'att1', 'att2')

    def expect(self, cfg, st, a, k, f):
        return [('categories-att1-att2-as-saved', not a and set(k) == {'categories', 'att1', 'att2'} and all(k[x] is f[x] for x in self.fields))]


class CategoricalMultiRangeMP(MethodPair):
    cls, fields = 'CategoricalMultiRangeSubsetState', ('ranges', 'cat_att', 'num_att')

    def expect(self, cfg, st, a, k, f):
        return [('ranges-and-both-attributes-as-saved', not a and set(k) == {'ranges', 'cat_att', 'num_att'} and all(k[x] is f[x] for x in self.fields))]


class MultiOrMP(MethodPair):
    cls = 'MultiOrState'

    def configs(self, tier):
        return [dict(n=n) for n in (1, 2, 4)]

    def make_object(self, cfg):
        return PObj(self.cls, fields={'states': PList([val('state%d' % i) for i in range(cfg['n'])])})

    def expect(self, cfg, st, a, k, f):
        got = _lst(a[0]) if len(a) == 1 else None
        want = f['states'].items
        return [('members-as-saved-in-order', not k and got is not None and len(got) == len(want) and all(x is y for x, y in zip(got, want)))]


class MaskMP(MethodPair):
    cls = 'MaskSubsetState'

    def make_object(self, cfg):
        return PObj(self.cls, fields={'mask': val('mask'), 'cids': PList([val('cid0'), val('cid1')])})

    def expect(self, cfg, st, a, k, f):
        cids = _lst(a[1]) if len(a) == 2 else None
        return [('mask-first-then-the-pixel-attributes-in-order', not k and cids is not None and a[0] is f['mask'] and len(cids) == 2 and all(x is y for x, y in zip(cids, f['cids'].items)))]


class CategoryMP(MethodPair):
    cls, fields = 'CategorySubsetState', ('_att', '_categories')

    def expect(self, cfg, st, a, k, f):
        return [('attribute-then-category-codes-as-saved', not k and len(a) == 2 and a[0] is f['_att'] and a[1] is f['_categories'])]


for c in (CategoricalRoiMP(), MultiRangeMP(), Categorical2DMP(), CategoricalMultiRangeMP(), MultiOrMP(), MaskMP(), CategoryMP()):
    CONTRACTS.append(c)


# -------------------------------------------------------------------------------------------------
# regions of glue/core/roi.py whose parameters are plain numbers (C08: a saved and restored region contains exactly the same points)
ROIF = "glue/core/roi.py"


class NumericRoiMP(MethodPair):
    property_ids = ('C02', 'C08')
    file = ROIF
    params = ()

    def make_object(self, cfg):
        return PObj(self.cls, fields={p_: num(p_) for p_ in self.params})

    def expect(self, cfg, st, a, k, f):
        return [('every-parameter-as-saved', not a and set(k) == set(self.params) and all(k[p_] is f[p_] for p_ in self.params))]


class RectMP(NumericRoiMP):
    cls, params = 'RectangularROI', ('xmin', 'xmax', 'ymin', 'ymax', 'theta')


class CircleMP(NumericRoiMP):
    cls, params = 'CircularROI', ('xc', 'yc', 'radius')


class AnnulusMP(NumericRoiMP):
    cls, params = 'CircularAnnulusROI', ('xc', 'yc', 'inner_radius', 'outer_radius')


class EllipseMP(NumericRoiMP):
    cls, params = 'EllipticalROI', ('xc', 'yc', 'radius_x', 'radius_y', 'theta')


for c in (RectMP(), CircleMP(), AnnulusMP(), EllipseMP()):
    CONTRACTS.append(c)


class SubsetPair(Pair):
    """a plain (ungrouped) subset: style, selection and label"""
    cls, saver, loader = 'Subset', '_save_subset', '_load_subset'

    def make_object(self, cfg):
        return PObj(self.cls, fields={'style': val('style'), 'subset_state': val('state'), 'label': 'hot'})

    def globals_(self, cfg, st):
        def make(I, data, *a, **k):
            o = PObj(self.cls, fields={'data': data, 'args': a, 'kwargs': k})
            st.made.append(o)
            return o
        return {self.cls: Builtin(self.cls, make)}

    def expect(self, cfg, st, r):
        f, g = st.obj.fields, r.fields
        return [('built-without-a-dataset(the-dataset-attaches-it-later)', g['data'] is None and not g['args'] and not g['kwargs']),
                ('style-selection-and-label-as-saved', g.get('style') is f['style'] and g.get('subset_state') is f['subset_state'] and g.get('label') == f['label'])]


CONTRACTS.append(SubsetPair())


class RangeRoiMP(MethodPair):
    """x / y range regions: the two axis classes fix the orientation themselves, the general class is given it"""
    property_ids = ('C02', 'C08')
    file = ROIF
    cls = 'RangeROI'

    def configs(self, tier):
        return [dict(kind=k) for k in ('x', 'y', 'general')]

    def make_object(self, cfg):
        return PObj(self.cls, fields={'ori': 'y' if cfg['kind'] == 'y' else 'x', 'min': num('min'), 'max': num('max')})

    def globals_(self, cfg, st):
        # `cls is XRangeROI`: the class the loader is called on is one of the two axis classes (then identical to the constructor under
        # test) or the general one (then neither)
        ctor = getattr(st, 'ctor', None)
        return {'XRangeROI': ctor if cfg['kind'] == 'x' else PObj('class-object', fields={'name': 'XRangeROI'}),
                'YRangeROI': ctor if cfg['kind'] == 'y' else PObj('class-object', fields={'name': 'YRangeROI'})}

    def expect(self, cfg, st, a, k, f):
        if cfg['kind'] == 'general':
            return [('orientation-and-bounds-as-saved', len(a) == 1 and a[0] == f['ori'] and set(k) == {'min', 'max'} and k['min'] is f['min'] and k['max'] is f['max'])]
        return [('bounds-as-saved(the-axis-class-fixes-the-orientation)', not a and set(k) == {'min', 'max'} and k['min'] is f['min'] and k['max'] is f['max'])]


CONTRACTS.append(RangeRoiMP())


class Roi3dMP(MethodPair):
    cls, fields = 'RoiSubsetState3d', ('xatt', 'yatt', 'zatt', 'roi', 'pretransform')

    def globals_(self, cfg, st):
        # the loader names the class explicitly instead of using cls
        return {'RoiSubsetState3d': getattr(st, 'ctor', None)}

    def expect(self, cfg, st, a, k, f):
        vals = list(a) + [k[x] for x in ('xatt', 'yatt', 'zatt', 'roi', 'pretransform')[len(a):] if x in k]
        return [('three-attributes-roi-and-pretransform-as-saved', len(vals) == 5 and all(v is f[x] for v, x in zip(vals, self.fields)))]


class ElementMP(MethodPair):
    cls = 'ElementSubsetState'

    def make_object(self, cfg):
        return PObj(self.cls, fields={'_indices': val('indices'), '_data_uuid': 'uuid-of-the-dataset'})

    def expect(self, cfg, st, a, k, f):
        r = st.made[0]
        return [('indices-as-saved', not a and set(k) == {'indices'} and k['indices'] is f['_indices']),
                ('dataset-uuid-carried-over', r.fields.get('_data_uuid') == f['_data_uuid'])]


for c in (Roi3dMP(), ElementMP()):
    CONTRACTS.append(c)
