"""C12 - sidecar contracts for glue/core/state.py: VersionedDict, lookup_class_with_patches,
GlueSerializer._dispatch / do (protocol stamp), GlueUnSerializer._dispatch.

Representation of VersionedDict._data (a defaultdict(dict)): two-level table  Item -> (Int -> Val)
with presence sets dom1 (items) and dom2 (versions per item).  Ghost n(item) = number of versions.

VI(item, v):   dom2[item][v]  <=>  1 <= v <= n(item)          (versions consecutive from 1)
VIs(item):     dom1[item]     =>   n(item) >= 1                (no empty entry)
Quantifiers are instantiated by hand: VI is assumed at the finitely many version terms an obligation needs
and proved at one arbitrary symbolic version `w` and item `other` - never an `assume` of the goal.
"""
import z3

from pyvc.verify import FnContract, Inputs, St
from pyvc.interp import LoopSpec
from pyvc.values import PObj, Builtin, PyRaise, ExcVal, PType, Unsupported, PList, is_z3
from pyvc import spec as S

STATE = "glue/core/state.py"

Item = z3.DeclareSort('Item')
Val = z3.DeclareSort('Val')
VRow = z3.ArraySort(z3.IntSort(), Val)
VDom = z3.ArraySort(z3.IntSort(), z3.BoolSort())
nver = z3.Function('n_versions', Item, z3.IntSort())       # ghost: number of versions registered for an item (entry state)


def make_vdict(P):
    """VersionedDict instance whose _data is the two-level table; returns (vd, data)"""
    data = PObj('defaultdict')
    data.fields.update(tbl=z3.Const('tbl0', z3.ArraySort(Item, VRow)), dom1=z3.Const('dom1_0', z3.ArraySort(Item, z3.BoolSort())),
                       dom2=z3.Const('dom2_0', z3.ArraySort(Item, VDom)))

    def view(item):
        v = PObj('dict', fields={'key': item})

        def contains(I, self_, ver):
            if not is_z3(ver) and not isinstance(ver, int):
                raise Unsupported("version key")
            return z3.Select(z3.Select(data.fields['dom2'], item), ver)

        def getitem(I, self_, ver):
            if not I.path.branch(contains(I, self_, ver)):
                raise PyRaise(ExcVal('KeyError'))
            return z3.Select(z3.Select(data.fields['tbl'], item), ver)

        def setitem(I, self_, ver, val):
            data.fields['tbl'] = z3.Store(data.fields['tbl'], item, z3.Store(z3.Select(data.fields['tbl'], item), ver, val))
            data.fields['dom2'] = z3.Store(data.fields['dom2'], item, z3.Store(z3.Select(data.fields['dom2'], item), ver, z3.BoolVal(True)))
            # defaultdict: the outer entry exists after `_data[item]`; recorded by d_getitem
        v.methods.update({'__contains__': contains, '__getitem__': getitem, '__setitem__': setitem})
        return v

    def d_contains(I, self_, item):
        return z3.Select(data.fields['dom1'], item)

    def d_getitem(I, self_, item):
        # defaultdict(dict): a missing key is inserted with an empty dict
        present = z3.Select(data.fields['dom1'], item)
        if not I.path.branch(present):
            data.fields['dom1'] = z3.Store(data.fields['dom1'], item, z3.BoolVal(True))
            data.fields['dom2'] = z3.Store(data.fields['dom2'], item, z3.K(z3.IntSort(), z3.BoolVal(False)))
        return view(item)

    def d_get(I, self_, item, default=None):
        if I.path.branch(z3.Select(data.fields['dom1'], item)):
            return view(item)
        return default

    def d_len(I, self_):
        raise Unsupported("len of symbolic table")
    data.methods.update({'__contains__': d_contains, '__getitem__': d_getitem, 'get': d_get, '__len__': d_len})
    vd = PObj('VersionedDict', fields={'_data': data})
    return vd, data


def VI(d, item, v):
    return z3.Select(z3.Select(d['dom2'], item), v) == z3.And(1 <= v, v <= nver(item))


def VIs(d, item):
    return z3.Implies(z3.Select(d['dom1'], item), nver(item) >= 1)


def max_model(st):
    """max(versions) of an inner dict view = the largest present version (spec of max over dict keys)."""
    def b_max(I, *args, **kw):
        if len(args) == 1 and isinstance(args[0], PObj) and args[0].cls == 'dict' and 'key' in args[0].fields:
            item = args[0].fields['key']
            d = st.data.fields
            m = I.path.fresh_int('maxver')
            # spec of max over a non-empty finite set of ints, instantiated at the terms needed
            nonempty = nver(item) >= 1
            if not I.path.branch(nonempty):
                raise PyRaise(ExcVal('ValueError', ('max() arg is an empty sequence',)))
            I.path.assume(z3.Select(z3.Select(d['dom2'], item), m))
            I.path.assume(z3.Implies(z3.Select(z3.Select(d['dom2'], item), nver(item)), nver(item) <= m))
            I.path.assume(VI(st.old, item, m))
            return m
        from pyvc.builtins import b_max as real_max
        return real_max(I, *args, **kw)
    return Builtin('max', b_max)


class VDContract(FnContract):
    def base(self, P):
        vd, data = make_vdict(P)
        st = St(vd=vd, data=data, old=dict(data.fields), item=z3.Const('item', Item), ver=z3.Int('version'),
                other=z3.Const('other_item', Item), w=z3.Int('w'), value=z3.Const('value', Val))
        return st

    def requires(self, cfg, st):
        d = st.old
        terms = [st.ver, st.ver - 1, st.w, nver(st.item), nver(st.item) + 1, z3.IntVal(1), z3.IntVal(0)]
        r = [('n>=0', nver(st.item) >= 0), ('n>=0(other)', nver(st.other) >= 0),
             ('absent=>n==0', z3.Or(z3.Select(d['dom1'], st.item), nver(st.item) == 0)),
             ('absent=>n==0(other)', z3.Or(z3.Select(d['dom1'], st.other), nver(st.other) == 0)),
             ('VIs(item)', VIs(d, st.item)), ('VIs(other)', VIs(d, st.other))]
        for t in terms:
            r.append(('VI(item)', VI(d, st.item, t)))
        r.append(('VI(other,w)', VI(d, st.other, st.w)))
        return r

    def unchanged(self, st):
        return S.And(*[st.data.fields[k] == st.old[k] for k in ('tbl', 'dom1', 'dom2')])

    def globals_(self, cfg, st):
        def b_int(I, v):
            if is_z3(v) and v.sort() == z3.IntSort():
                return v
            if isinstance(v, str):
                raise PyRaise(ExcVal('ValueError'))
            raise Unsupported("int()")
        return {'max': max_model(st), 'int': Builtin('int', b_int)}


class VDSetItem(VDContract):
    property_ids = ('C12',)
    target = STATE + ":VersionedDict.__setitem__"
    title = ("accepts exactly version n+1 (>= 1); stores the value there; every other (item, version) entry unchanged; "
             "a rejected assignment changes nothing and leaves no entry behind")

    def configs(self, tier):
        return [dict(key='pair'), dict(key='triple'), dict(key='bad-version')]

    def inputs(self, cfg, P):
        st = self.base(P)
        if cfg['key'] == 'pair':
            key = (st.item, st.ver)
        elif cfg['key'] == 'triple':
            key = (st.item, st.ver, st.ver)
        else:
            key = (st.item, 'bad')
        return Inputs([st.vd, key, st.value], st=st, symbols={'version': st.ver})

    raises = {'KeyError': lambda cfg, st: S.And(cfg['key'] == 'pair', st.ver != nver(st.item) + 1),
              'ValueError': lambda cfg, st: cfg['key'] != 'pair'}

    def finish(self, cfg, st, P, outcome):
        qn = "VersionedDict.__setitem__[%s]" % self.cfg_name(cfg)
        d = st.data.fields
        if outcome[0] == 'raise':
            P.check(qn + "/raises:nothing-changed-no-entry-left-behind", self.unchanged(st))
            return
        P.check(qn + "/ensures:only-a-well-formed-key-is-accepted", cfg['key'] == 'pair')
        if cfg['key'] != 'pair':
            return
        n = nver(st.item)
        P.check(qn + "/ensures:version-is-next-and>=1", S.And(st.ver == n + 1, st.ver >= 1))
        P.check(qn + "/ensures:value-stored", S.And(z3.Select(d['dom1'], st.item), z3.Select(z3.Select(d['dom2'], st.item), st.ver),
                                                     z3.Select(z3.Select(d['tbl'], st.item), st.ver) == st.value))
        # VI' with n' = n + 1 at an arbitrary version w
        P.check(qn + "/ensures:versions-stay-consecutive-from-1",
                z3.Select(z3.Select(d['dom2'], st.item), st.w) == z3.And(1 <= st.w, st.w <= n + 1))
        # never overwritten + whole-map frame: any other (item', w) keeps presence and value
        same = S.And(st.other == st.item, st.w == st.ver)
        o = st.old
        P.check(qn + "/frame:every-other-entry-unchanged",
                S.Implies(S.Not(same),
                          S.And(z3.Select(z3.Select(d['dom2'], st.other), st.w) == z3.Select(z3.Select(o['dom2'], st.other), st.w),
                                z3.Select(z3.Select(d['tbl'], st.other), st.w) == z3.Select(z3.Select(o['tbl'], st.other), st.w))))
        P.check(qn + "/frame:other-items-presence", S.Implies(st.other != st.item, z3.Select(d['dom1'], st.other) == z3.Select(o['dom1'], st.other)))


class VDGetItem(VDContract):
    property_ids = ('C12',)
    target = STATE + ":VersionedDict.__getitem__"
    title = "returns (value of the newest version, that version number); KeyError for an unknown key; changes nothing"

    def inputs(self, cfg, P):
        st = self.base(P)
        return Inputs([st.vd, st.item], st=st)

    raises = {'KeyError': lambda cfg, st: S.Not(z3.Select(st.old['dom1'], st.item))}

    def finish(self, cfg, st, P, outcome):
        qn = "VersionedDict.__getitem__[-]"
        P.check(qn + "/pure", self.unchanged(st))
        if outcome[0] != 'return':
            return
        r = outcome[1]
        ok = isinstance(r, tuple) and len(r) == 2
        P.check(qn + "/ensures:pair", ok)
        if ok:
            n = nver(st.item)
            P.check(qn + "/ensures:newest", S.And(r[1] == n, r[0] == z3.Select(z3.Select(st.old['tbl'], st.item), n), n >= 1))


class VDGetVersion(VDContract):
    property_ids = ('C12',)
    target = STATE + ":VersionedDict.get_version"
    title = "returns the value stored at the requested version (newest when None); KeyError iff that version was never registered; values never change"

    def configs(self, tier):
        return [dict(version='given'), dict(version='None')]

    def inputs(self, cfg, P):
        st = self.base(P)
        return Inputs([st.vd, st.item, st.ver if cfg['version'] == 'given' else None], st=st)

    @staticmethod
    def _ke(cfg, st):
        if cfg['version'] == 'given':
            return S.Not(S.And(z3.Select(st.old['dom1'], st.item), 1 <= st.ver, st.ver <= nver(st.item)))
        return S.Not(z3.Select(st.old['dom1'], st.item))
    raises = {'KeyError': lambda cfg, st: VDGetVersion._ke(cfg, st)}

    def finish(self, cfg, st, P, outcome):
        qn = "VersionedDict.get_version[%s]" % self.cfg_name(cfg)
        d, o = st.data.fields, st.old
        # values and version sets never change (an empty entry may appear for an unknown key: defaultdict read)
        P.check(qn + "/frame:registered-versions-and-values-unchanged",
                S.And(z3.Select(z3.Select(d['dom2'], st.other), st.w) == S.And(z3.Select(o['dom1'], st.other), z3.Select(z3.Select(o['dom2'], st.other), st.w))
                      if False else S.Implies(z3.Select(o['dom1'], st.other),
                                              z3.Select(z3.Select(d['dom2'], st.other), st.w) == z3.Select(z3.Select(o['dom2'], st.other), st.w)),
                      d['tbl'] == o['tbl']))
        if outcome[0] != 'return':
            return
        r = outcome[1]
        v = st.ver if cfg['version'] == 'given' else nver(st.item)
        P.check(qn + "/ensures:value-of-that-version",
                S.And(r == z3.Select(z3.Select(o['tbl'], st.item), v), 1 <= v, v <= nver(st.item)) if is_z3(r) else False)


class VDContains(VDContract):
    property_ids = ('C12',)
    target = STATE + ":VersionedDict.__contains__"
    title = "true iff at least one version is registered for the key; changes nothing"

    def inputs(self, cfg, P):
        st = self.base(P)
        return Inputs([st.vd, st.item], st=st)

    def finish(self, cfg, st, P, outcome):
        qn = "VersionedDict.__contains__[-]"
        P.check(qn + "/pure", self.unchanged(st))
        if outcome[0] == 'return':
            r = outcome[1]
            P.check(qn + "/ensures:result", S.Iff(r, z3.Select(st.old['dom1'], st.item)) if (is_z3(r) or isinstance(r, bool)) else False)


class VDDelItem(VDContract):
    property_ids = ('C12',)
    target = STATE + ":VersionedDict.__delitem__"
    title = "always refuses (ValueError) and changes nothing: registered versions are never removed"

    def inputs(self, cfg, P):
        st = self.base(P)
        return Inputs([st.vd, st.item], st=st)

    raises = {'ValueError': lambda cfg, st: True}

    def finish(self, cfg, st, P, outcome):
        qn = "VersionedDict.__delitem__[-]"
        P.check(qn + "/pure", self.unchanged(st))
        P.check(qn + "/ensures:always-raises", outcome[0] == 'raise')


# =================================================================================================
Name = z3.DeclareSort('Name')
patched = z3.Function('in_PATH_PATCHES', Name, z3.BoolSort())
patch = z3.Function('PATH_PATCHES', Name, Name)
rank = z3.Function('rank', Name, z3.IntSort())


class LookupPatched(FnContract):
    property_ids = ('C12',)
    target = STATE + ":lookup_class_with_patches"
    title = ("follows redirections until a name that is not a key of the table and looks that name up; terminates because the table "
             "has a ranking function (rank decreases along every row - the row obligations are discharged on the real table by the [E] part)")

    def inputs(self, cfg, P):
        nm = z3.Const('name', Name)
        st = St(name=nm, x=z3.Const('x', Name))
        table = PObj('dict')

        def contains(I, self_, k):
            return patched(k)

        def getitem(I, self_, k):
            if not I.path.branch(patched(k)):
                raise PyRaise(ExcVal('KeyError'))
            return patch(k)
        def get(I, self_, k, default=None):
            if I.path.branch(patched(k)):
                return patch(k)
            return default
        table.methods.update({'__contains__': contains, '__getitem__': getitem, 'get': get})
        st.table = table
        P.ghost.update(looked_up=None)
        return Inputs([nm], st=st)

    def globals_(self, cfg, st):
        def lookup_class(I, n):
            I.path.ghost['looked_up'] = n
            return z3.Const('the_class', z3.DeclareSort('Obj'))
        return {'PATH_PATCHES': st.table, 'lookup_class': Builtin('lookup_class', lookup_class)}

    def loops(self, cfg, st):
        def inv(L):
            # the current name is reachable from the argument: abstracted as "rank never above the start"
            return [('rank-bounded', rank(L.name) <= rank(st.name))]

        def dec(L):
            return rank(L.name)

        def on_iter(what, L):
            if what == 'havoc':
                # ranking-function property of the table, instantiated at the current name ([E] discharges it per row)
                P = L.interp.path
                nm = L.name
                P.assume(z3.Implies(patched(nm), z3.And(rank(patch(nm)) < rank(nm), rank(patch(nm)) >= 0)))
                P.assume(rank(nm) >= 0)
        return {0: LoopSpec(inv=inv, decreases=dec, on_iter=on_iter)}

    def finish(self, cfg, st, P, outcome):
        qn = "lookup_class_with_patches[-]"
        if outcome[0] == 'return':
            lk = P.ghost['looked_up']
            P.check(qn + "/ensures:looks-up-a-fixed-point", S.Not(patched(lk)) if lk is not None else False)


# =================================================================================================
TypeS = z3.DeclareSort('PyType')
Fun = z3.DeclareSort('Fun')
has_gs = z3.Function('has___gluestate__', TypeS, z3.BoolSort())
gs_of = z3.Function('__gluestate__of', TypeS, Fun)
saver_n = z3.Function('n_saver_versions', TypeS, z3.IntSort())
saver_at = z3.Function('saver', TypeS, z3.IntSort(), Fun)
in_savers = z3.Function('in_saver_registry', TypeS, z3.BoolSort())


class SaverDispatch(FnContract):
    """GlueSerializer._dispatch against the VersionedDict contract: a save always uses the newest version of the
    first type in the MRO that has a saver."""
    property_ids = ('C12', 'C02')
    target = STATE + ":GlueSerializer._dispatch"
    title = "returns (__gluestate__, 1) for self-describing objects, else (newest saver, its version) of the first class in the MRO with a saver; raises otherwise"

    def configs(self, tier):
        return [dict(mro=k) for k in (1, 2, 3, 4)]

    def inputs(self, cfg, P):
        k = cfg['mro']
        types = [z3.Const('T%d' % i, TypeS) for i in range(k)]
        obj = PObj('object')
        tobj = PObj('type', fields={'__gluestate__': gs_of(types[0])})
        tobj.methods['mro'] = lambda I, self_: PList(list(types))
        obj.fields['__type__'] = tobj
        disp = PObj('VersionedDict')
        disp.methods['__contains__'] = lambda I, self_, t: in_savers(t)

        def getitem(I, self_, t):
            # contract of VersionedDict.__getitem__ (proved above): newest value and its version
            if not I.path.branch(in_savers(t)):
                raise PyRaise(ExcVal('KeyError'))
            I.path.assume(saver_n(t) >= 1)
            return (saver_at(t, saver_n(t)), saver_n(t))
        disp.methods['__getitem__'] = getitem
        ser = PObj('GlueSerializer', fields={'dispatch': disp})
        st = St(types=types, obj=obj, ser=ser)
        return Inputs([ser, obj], st=st)

    def globals_(self, cfg, st):
        def b_hasattr(I, o, name):
            if o is st.obj and name == '__gluestate__':
                return has_gs(st.types[0])
            raise Unsupported("hasattr")
        return {'hasattr': Builtin('hasattr', b_hasattr), 'GlueSerializeError': PType('GlueSerializeError')}

    raises = {'GlueSerializeError': lambda cfg, st: S.And(S.Not(has_gs(st.types[0])), *[S.Not(in_savers(t)) for t in st.types])}

    def ensures(self, cfg, st, result):
        ok = isinstance(result, tuple) and len(result) == 2
        if not ok:
            return [('pair', False)]
        f, v = result
        out = []
        cases = [S.And(has_gs(st.types[0]), f == gs_of(st.types[0]), v == 1)]
        for i, t in enumerate(st.types):
            earlier = [S.Not(in_savers(u)) for u in st.types[:i]]
            cases.append(S.And(S.Not(has_gs(st.types[0])), in_savers(t), *(earlier + [v == saver_n(t), f == saver_at(t, saver_n(t))])))
        out.append(('newest-saver-of-first-registered-class', S.Or(*cases)))
        out.append(('version>=1', v >= 1))
        return out


loader_has = z3.Function('loader_registered', TypeS, z3.IntSort(), z3.BoolSort())
loader_at = z3.Function('loader', TypeS, z3.IntSort(), Fun)
has_sgs = z3.Function('has___setgluestate__', TypeS, z3.BoolSort())
sgs_of = z3.Function('__setgluestate__of', TypeS, Fun)


class LoaderDispatch(FnContract):
    property_ids = ('C12', 'C02')
    target = STATE + ":GlueUnSerializer._dispatch"
    title = ("a record is loaded by __setgluestate__ of its (redirected) class, else by the loader registered for exactly the record's "
             "_protocol (default 1) on the first class of the MRO that has one; never by a loader of another version")

    def configs(self, tier):
        return [dict(mro=k, proto=p) for k in (1, 2, 3) for p in ('given', 'absent')] + [dict(mro=1, proto='given', typ='None')]

    def inputs(self, cfg, P):
        k = cfg['mro']
        types = [z3.Const('T%d' % i, TypeS) for i in range(k)]
        version = z3.Int('protocol')
        rec = PObj('dict')
        tname = z3.Const('type_name', Name)

        def r_getitem(I, self_, key):
            if key == '_type':
                return tname
            raise Unsupported("rec[%r]" % key)

        def r_get(I, self_, key, default=None):
            if key == '_protocol':
                return version if cfg['proto'] == 'given' else default
            raise Unsupported("rec.get(%r)" % key)
        rec.methods.update({'__getitem__': r_getitem, 'get': r_get})
        typ = PObj('type', fields={'__setgluestate__': sgs_of(types[0])})
        typ.methods['mro'] = lambda I, self_: PList(list(types))
        disp = PObj('VersionedDict')

        def get_version(I, self_, t, v):
            # contract of VersionedDict.get_version (proved above)
            if not I.path.branch(loader_has(t, v)):
                raise PyRaise(ExcVal('KeyError'))
            return loader_at(t, v)
        disp.methods['get_version'] = get_version
        un = PObj('GlueUnSerializer', fields={'dispatch': disp})
        st = St(types=types, version=version, typ=typ, rec=rec, tname=tname, cfg=cfg)
        P.ghost.update(lookups=[])
        return Inputs([un, rec], st=st)

    def globals_(self, cfg, st):
        def lookup(I, name):
            I.path.ghost['lookups'] = I.path.ghost['lookups'] + [name]
            return None if cfg.get('typ') == 'None' else st.typ

        def b_hasattr(I, o, name):
            if o is st.typ and name == '__setgluestate__':
                return has_sgs(st.types[0])
            raise Unsupported("hasattr")
        return {'lookup_class_with_patches': Builtin('lookup_class_with_patches', lookup), 'hasattr': Builtin('hasattr', b_hasattr),
                'GlueSerializeError': PType('GlueSerializeError')}

    @staticmethod
    def _v(cfg, st):
        return st.version if cfg['proto'] == 'given' else 1

    raises = {'GlueSerializeError': lambda cfg, st: True if cfg.get('typ') == 'None' else
              S.And(S.Not(has_sgs(st.types[0])), *[S.Not(loader_has(t, LoaderDispatch._v(cfg, st))) for t in st.types])}

    def ensures(self, cfg, st, result):
        v = self._v(cfg, st)
        if not is_z3(result):
            return [('returns-a-loader', False)]
        cases = [S.And(has_sgs(st.types[0]), result == sgs_of(st.types[0]))]
        for i, t in enumerate(st.types):
            earlier = [S.Not(loader_has(u, v)) for u in st.types[:i]]
            cases.append(S.And(S.Not(has_sgs(st.types[0])), loader_has(t, v), result == loader_at(t, v), *earlier))
        return [('loader-of-exactly-the-recorded-protocol', S.Or(*cases))]

    def finish(self, cfg, st, P, outcome):
        P.check("GlueUnSerializer._dispatch[%s]/ensures:type-name-resolved-through-the-rename-table-once" % self.cfg_name(cfg),
                len(P.ghost['lookups']) == 1 and P.ghost['lookups'][0] is st.tname)


class SerializerDo(FnContract):
    """GlueSerializer.do: the `_protocol` written is the version returned by _dispatch, omitted iff 1; the
    `_working` guard is restored."""
    property_ids = ('C12', 'C02')
    target = STATE + ":GlueSerializer.do"
    title = "the record carries _protocol == the dispatched (newest) version, omitted iff that is 1; the circular-reference guard is left as found"

    def inputs(self, cfg, P):
        version = z3.Int('dispatched_version')
        fun = z3.Const('saver_fun', Fun)
        obj = PObj('object')
        tobj = PObj('type', fields={'__module__': 'mod', '__name__': 'Cls'})
        obj.fields['__type__'] = tobj
        working = PObj('set', fields={'has': z3.Bool('oid_in_working0')})
        working.methods['__contains__'] = lambda I, self_, x: working.fields['has']

        def w_add(I, self_, x):
            working.fields['has'] = z3.BoolVal(True)

        def w_remove(I, self_, x):
            if not I.path.branch(working.fields['has']):
                raise PyRaise(ExcVal('KeyError'))
            working.fields['has'] = z3.BoolVal(False)
        working.methods.update({'add': w_add, 'remove': w_remove})
        ser = PObj('GlueSerializer', fields={'_working': working})
        ser.methods['_dispatch'] = lambda I, self_, o: (fun, version)
        st = St(version=version, fun=fun, obj=obj, ser=ser, working=working, old_has=working.fields['has'])
        P.ghost.update(result=None)
        return Inputs([ser, obj], st=st)

    def requires(self, cfg, st):
        return [('version>=1', st.version >= 1)]

    def globals_(self, cfg, st):
        def call_symbolic(I, fv, args, kwargs):
            if fv.sort() == Fun:
                d = {}
                I.path.ghost['result'] = d
                return d
            raise Unsupported("call")

        def b_isinstance(I, v, t):
            return False          # obj is neither a str, a function nor a method in this configuration

        def b_type(I, v):
            return v.fields['__type__']

        def b_id(I, v):
            return z3.Int('oid')
        return {'__call_symbolic__': call_symbolic, 'isinstance': Builtin('isinstance', b_isinstance),
                'type': Builtin('type', b_type), 'id': Builtin('id', b_id), 'literals': (), 'builtin_iterables': (),
                'GlueSerializeError': PType('GlueSerializeError')}

    raises = {'GlueSerializeError': lambda cfg, st: st.old_has}

    def finish(self, cfg, st, P, outcome):
        qn = "GlueSerializer.do[-]"
        if outcome[0] != 'return':
            P.check(qn + "/raises:guard-untouched", st.working.fields['has'] == st.old_has)
            return
        r = outcome[1]
        ok = isinstance(r, dict) and r is P.ghost['result']
        P.check(qn + "/ensures:returns-the-saver's-record", ok)
        if ok:
            if '_protocol' in r:
                P.check(qn + "/ensures:protocol-is-the-dispatched-version", S.And(r['_protocol'] == st.version, st.version > 1))
            else:
                P.check(qn + "/ensures:protocol-omitted-only-for-version-1", st.version == 1)
            P.check(qn + "/ensures:type-recorded", '_type' in r)
        P.check(qn + "/ensures:guard-restored", st.working.fields['has'] == st.old_has)



class RegistryDisable(FnContract):
    """GlueUnSerializer.object is wrapped in registry.disable and is recursive (loaders call context.object for their parts): labels read
    back from a record must be taken as they are, at every nesting depth - so the wrapper has to put back the flag it found"""
    property_ids = ('C12', 'C02')
    target = "glue/core/registry.py:disable.wrapper"
    title = ("while the wrapped function runs label disambiguation is off; afterwards the flag is what it was before the call (so an inner, re-entrant "
             "call does not switch disambiguation back on for the rest of the outer one), on return and on exceptions alike; result and arguments pass through")

    def configs(self, tier):
        return [dict(raises=False), dict(raises=True)]

    def inputs(self, cfg, P):
        was = z3.Bool('disambiguation_was_disabled')
        reg = PObj('Registry', fields={'_disable': was})
        st = St(reg=reg, was=was, seen=[], calls=[], result=PObj('result'))
        return Inputs([PObj('arg')], {'k': PObj('kwarg')}, st=st)

    def globals_(self, cfg, st):
        def func(I, *a, **k):
            st.calls.append((a, k))
            st.seen.append(st.reg.fields['_disable'])
            if cfg['raises']:
                raise PyRaise(ExcVal('GlueSerializeError', ('loader failed',)))
            return st.result
        return {'Registry': Builtin('Registry', lambda I: st.reg), 'func': Builtin('func', func)}

    raises = {'GlueSerializeError': lambda cfg, st: cfg['raises']}

    def finish(self, cfg, st, P, outcome):
        qn = "registry.disable.wrapper[%s]" % self.cfg_name(cfg)
        P.check(qn + "/ensures:wrapped-function-called-once-with-the-arguments", len(st.calls) == 1 and len(st.calls[0][0]) == 1 and set(st.calls[0][1]) == {'k'})
        P.check(qn + "/ensures:disambiguation-off-while-the-function-runs", len(st.seen) == 1 and st.seen[0] is True)
        now = st.reg.fields['_disable']
        P.check(qn + "/ensures:flag-restored-to-its-previous-value", (now == st.was) if is_z3(now) else S.Iff(st.was, now))
        if outcome[0] == 'return':
            P.check(qn + "/ensures:result-passed-through", outcome[1] is st.result)


CONTRACTS = [VDSetItem(), VDGetItem(), VDGetVersion(), VDContains(), VDDelItem(), LookupPatched(),
             SaverDispatch(), LoaderDispatch(), SerializerDo(), RegistryDisable()]
