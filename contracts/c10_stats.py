"""C10 - sidecar contract for the chunked path of Data.compute_statistic (the real function, walked from its first statement).

  Data.compute_statistic, chunked branch (view None, axis = all axes but one, size > n_chunk_max, selection not a SliceSubsetState):
    for a dataset of rank d (d concrete, 2..4), symbolic extents, symbolic size and chunk limit, and an arbitrary kept axis k:
      - the chunk shape handed to iterate_chunks is admissible (same rank, 1 <= chunk[i] <= extent[i]: no ValueError), and is the
        whole extent on every reduced axis
      - every recursive call receives a view that is a tuple of d unit-step slices inside the array covering the reduced axes
        entirely, and passes statistic / attribute / selection / axis / filters through unchanged
      - every assignment result[chunk_view[k]] = values is inside the result and of matching length
      - at the end result has extent[k] entries and, for an arbitrary index e, result[e] is the statistic of row e
        (ROW(e): uninterpreted; the recursive call on a view whose kept-axis slice is [a, b) returns [ROW(a), ..., ROW(b-1)])
    iterate_chunks is used through its own contract (contracts.c20_array.IterateChunks, proved on its body): an arbitrary item
    satisfying the per-yield postconditions, and "every element lies in exactly one chunk" when the generator is exhausted.
  The result array is represented point-wise: its length and its value at the arbitrary index e.
"""
import z3

from pyvc.verify import FnContract, Inputs, St
from pyvc.values import PObj, PList, PSlice, Builtin, PType, Unsupported, is_z3
from pyvc.interp import LoopSpec, AbstractGen
from pyvc import spec as S
from contracts.c20_array import chunk_item_post

DATA = "glue/core/data.py"
ROW = z3.Function('ROW', z3.IntSort(), z3.RealSort())


class ComputeStatisticChunked(FnContract):
    property_ids = ('C10',)
    target = DATA + ":Data.compute_statistic"
    title = "chunked path: result[e] is the statistic of row e for every e; chunks handed down cover the reduced axes entirely"
    budget_s = 60

    def configs(self, tier):
        out = []
        for d in (2, 3, 4):
            for k in range(d):
                for sel in ('none', 'state'):
                    if sel == 'state' and tier == 'quick' and d == 4 and k not in (0, 3):
                        continue
                    out.append(dict(ndim=d, keep=k, selection=sel))
        return out

    def inputs(self, cfg, P):
        d, k = cfg['ndim'], cfg['keep']
        shape = tuple(z3.Int('n%d' % i) for i in range(d))
        size, lim, e = z3.Int('size'), z3.Int('n_chunk_max'), z3.Int('e')
        axis = tuple(a for a in range(d) if a != k)
        sel = None if cfg['selection'] == 'none' else PObj('SubsetState', fields={'__bases__': ('SubsetState',)})
        cid = PObj('ComponentID')
        st = St(shape=shape, size=size, lim=lim, e=e, axis=axis, k=k, d=d, sel=sel, cid=cid, results=[], calls=0)
        data = PObj('Data', fields={'ndim': d, 'shape': shape, 'size': size})

        def rec(I, self_, statistic, cid_, subset_state=None, axis=None, finite=True, positive=False, percentile=None, view=None, **kw):
            qn = I.hooks.name
            Pp = I.path
            ok = isinstance(view, tuple) and len(view) == d and all(isinstance(s, PSlice) and s.step is None and s.start is not None and s.stop is not None for s in view)
            Pp.check(qn + "/recursive-call:view-is-a-tuple-of-unit-step-slices", ok)
            if not ok:
                raise Unsupported("recursive call with view %r" % (view,))
            Pp.check(qn + "/recursive-call:view-inside-array", S.And(*[S.And(0 <= s.start, s.start < s.stop, s.stop <= n) for s, n in zip(view, shape)]))
            Pp.check(qn + "/recursive-call:reduced-axes-covered-whole", S.And(*[S.And(view[a].start == 0, view[a].stop == shape[a]) for a in st.axis]))
            same = statistic == 'STAT' and cid_ is cid and subset_state is sel and axis == st.axis and finite == 'FINITE' and positive == 'POSITIVE' and \
                percentile == 'PCT' and not kw
            Pp.check(qn + "/recursive-call:same-statistic-selection-axis-filters", bool(same))
            st.calls += 1
            return PObj('values', fields={'vstart': view[k].start, 'length': view[k].stop - view[k].start})
        data.methods['compute_statistic'] = rec
        symbols = {'n%d' % i: s for i, s in enumerate(shape)}
        symbols.update(size=size, n_chunk_max=lim, e=e)
        P.ghost.update(cnt=0)
        return Inputs([data, 'STAT', cid], dict(subset_state=sel, axis=axis, finite='FINITE', positive='POSITIVE', percentile='PCT', view=None, n_chunk_max=lim),
                      st=st, symbols=symbols)

    def requires(self, cfg, st):
        # size is the number of elements; only "size > n_chunk_max >= 1 and every extent >= 1" is used (the product itself is left
        # unconstrained, which over-approximates: the proof holds for any size value)
        return [('extents>=1', S.And(*[n >= 1 for n in st.shape])), ('n_chunk_max>=1', st.lim >= 1), ('size>n_chunk_max', st.size > st.lim),
                ('0<=e<extent[k]', S.And(0 <= st.e, st.e < st.shape[st.k]))]

    def globals_(self, cfg, st):
        d, k = st.d, st.k

        def b_isinstance(I, v, t):
            ts = t if isinstance(t, tuple) else (t,)
            for x in ts:
                nm = getattr(x, 'name', None)
                if nm == 'list' and isinstance(v, PList):
                    return True
                if nm == 'tuple' and isinstance(v, tuple):
                    return True
                if nm == 'int' and isinstance(v, int):
                    return True
                if isinstance(v, PObj) and nm in v.fields.get('__bases__', ()):
                    return True
            return False

        def zeros(I, n):
            r = PObj('result', fields={'len': n, 'at_e': z3.RealVal(0)})

            def setitem(I2, self_, key, values):
                qn = I2.hooks.name
                Pp = I2.path
                ok = isinstance(key, PSlice) and key.step is None and isinstance(values, PObj) and values.cls == 'values'
                Pp.check(qn + "/assign:result[slice]=values", ok)
                if not ok:
                    raise Unsupported("result[%r] = %r" % (key, values))
                Pp.check(qn + "/assign:slice-inside-result", S.And(0 <= key.start, key.start <= key.stop, key.stop <= self_.fields['len']))
                Pp.check(qn + "/assign:length-matches", key.stop - key.start == values.fields['length'])
                inside = S.And(key.start <= st.e, st.e < key.stop)
                self_.fields['at_e'] = S.If(inside, ROW(values.fields['vstart'] + st.e - key.start), self_.fields['at_e'])
            r.methods['__setitem__'] = setitem
            st.results.append(r)
            return r

        def chunks(I, shape, chunk_shape=None, n_max=None):
            qn = I.hooks.name
            Pp = I.path
            shp = tuple(I.iterate_concrete(shape))
            ch = tuple(I.iterate_concrete(chunk_shape)) if chunk_shape is not None else None
            ok = ch is not None and n_max is None and len(ch) == len(shp) == d and all(a is b for a, b in zip(shp, st.shape))
            Pp.check(qn + "/call:iterate_chunks.requires:shape-of-the-data-and-a-chunk-shape-of-the-same-rank", ok)
            if not ok:
                raise Unsupported("iterate_chunks call")
            # the contract's precondition (chunk >= 1) and its ValueError clause (chunk > extent) must both be excluded
            Pp.check(qn + "/call:iterate_chunks.requires:1<=chunk<=extent", S.And(*[S.And(1 <= c, c <= n) for c, n in zip(ch, shp)]))
            Pp.check(qn + "/chunk-shape:whole-extent-on-reduced-axes", S.And(*[ch[a] == shp[a] for a in st.axis]))
            elem = tuple(st.e if i == k else z3.IntVal(0) for i in range(d))

            def next_item(I2):
                P2 = I2.path
                sl = tuple(PSlice(P2.fresh_int('start%d' % i), P2.fresh_int('stop%d' % i), None) for i in range(d))
                for lbl, c in chunk_item_post(sl, shp, ch):
                    P2.assume(c)
                inside = S.And(*[S.And(s.start <= x, x < s.stop) for s, x in zip(sl, elem)])
                P2.ghost['cnt'] = P2.ghost['cnt'] + S.If(inside, 1, 0)
                return sl

            def finish(I2):
                I2.path.assume(I2.path.ghost['cnt'] == 1)      # IterateChunks: every element lies in exactly one chunk

            def havoc(I2):
                I2.path.ghost['cnt'] = I2.path.fresh_int('cnt')
            return AbstractGen(next_item, finish, havoc)

        return {'isinstance': Builtin('isinstance', b_isinstance), 'SliceSubsetState': PType('SliceSubsetState'),
                'numpy.zeros': Builtin('np.zeros', zeros), 'iterate_chunks': Builtin('iterate_chunks', chunks)}

    def loops(self, cfg, st):
        def inv(L):
            r = L.result
            return [('result-length', r.fields['len'] == st.shape[st.k]),
                    ('cnt>=0', L.ghost['cnt'] >= 0),
                    ('row-e-written-once-its-chunk-passed', S.Or(L.ghost['cnt'] < 1, r.fields['at_e'] == ROW(st.e)))]

        def on_iter(what, L):
            if what == 'havoc':
                L.result.fields['at_e'] = L.interp.path.fresh('at_e', z3.RealSort())
        return {0: LoopSpec(inv=inv, on_iter=on_iter)}

    def ensures(self, cfg, st, result):
        ok = isinstance(result, PObj) and result.cls == 'result' and len(st.results) == 1 and result is st.results[0]
        if not ok:
            return [('returns-the-result-array', False)]
        return [('returns-the-result-array', True), ('result-has-extent[k]-entries', result.fields['len'] == st.shape[st.k]),
                ('result[e]-is-the-statistic-of-row-e', result.fields['at_e'] == ROW(st.e))]

    # -- native replay: run the real method with a small chunk limit and compare with the unchunked call
    def native(self, cfg, val):
        import numpy as np
        d, k = cfg['ndim'], cfg['keep']
        shape = tuple(int(val.get('n%d' % i, 1)) for i in range(d))
        lim = int(val.get('n_chunk_max', 1))
        if any(n < 1 or n > 12 for n in shape) or lim < 1 or int(np.prod(shape)) <= lim or int(np.prod(shape)) > 5000:
            return None
        import os
        import sys
        sys.path.insert(0, os.environ.get('GLUE_REPO', '/repo'))
        from glue.core import Data
        x = np.arange(int(np.prod(shape)), dtype=float).reshape(shape) % 7
        dd = Data(x=x)
        axis = tuple(a for a in range(d) if a != k)
        state = None if cfg['selection'] == 'none' else (dd.id['x'] > 2)
        try:
            import warnings
            with warnings.catch_warnings():
                warnings.simplefilter('ignore')
                exp = np.array([np.nanmean(np.where((x > 2) if state is not None else np.ones(shape, bool), x, np.nan).take(i, axis=k)) for i in range(shape[k])])
                from bounded.c10_stats import time_limit
                with time_limit(20):
                    got = dd.compute_statistic('mean', dd.id['x'], subset_state=state, axis=axis, n_chunk_max=lim)
        except Exception as ex:
            return (False, "compute_statistic(mean, axis=%r, n_chunk_max=%d) on shape %r raised %s: %s" % (axis, lim, shape, type(ex).__name__, ex))
        got = np.asarray(got, dtype=float)
        if got.shape != exp.shape or not np.all((np.abs(got - exp) < 1e-9) | (np.isnan(got) & np.isnan(exp))):
            return (False, "compute_statistic(mean, axis=%r, n_chunk_max=%d) on shape %r gives %s, expected %s" % (axis, lim, shape, got.tolist(), exp.tolist()))
        return (True, '')

    def native_call(self, cfg, val):
        d = cfg['ndim']
        return "Data(x=arange(prod(shape)).reshape(shape) %% 7).compute_statistic('mean', x, axis=all but %d, n_chunk_max=%r) with shape %r" % (
            cfg['keep'], val.get('n_chunk_max'), tuple(val.get('n%d' % i) for i in range(d)))


CONTRACTS = [ComputeStatisticChunked()]


# =================================================================================================
# The selection path of Data.compute_statistic (no chunking): minimal sub-array of the selected region, view recombination, padding.
# Arrays are opaque tokens; what is proved is the *index bookkeeping*: the data are fetched on exactly the box the mask was cut to, and
# the reduced result is put back at exactly that box in a NaN array of the reduced shape of the viewed array.

class _Tok(PObj):
    pass


def tok(kind, **fields):
    return _Tok(kind, fields=fields)


class ComputeStatisticSubarray(FnContract):
    property_ids = ('C10', 'C04')
    target = DATA + ":Data.compute_statistic"
    title = ("with a selection: the mask is cut to its bounding box, the values are fetched on exactly that box of the viewed array (view start + box, "
             "integers kept), the reducer gets both with the caller's axis and filters, and the reduced result is placed at the box inside a NaN "
             "array of the reduced shape of the viewed array; stepped views are reduced whole; an empty selection gives NaN of the reduced shape")
    budget_s = 60

    # per data axis: 'N' (view is None), 's' slice(start, stop), 'i' integer, 'a' absent (short tuple), 'p' stepped slice
    def configs(self, tier):
        out = []
        views = ['N', 'NN', 'NNN', 's', 'ss', 'sa', 'is', 'si', 'sss', 'sis', 'ssa', 'saa', 'iss', 'ps', 'sp']
        for v in views:
            nm = sum(1 for c in v if c != 'i')               # rank of the viewed array
            axes = [None] + list(range(nm)) + [tuple(range(nm))] + ([tuple(range(1, nm))] if nm > 1 else []) + [()]
            if tier == 'quick' and len(v) == 3:
                axes = [None, 0, tuple(range(1, nm)) if nm > 1 else (0,)]
            for ax in axes:
                out.append(dict(view=v, axis=repr(ax), selected='some'))
            out.append(dict(view=v, axis=repr(None), selected='none'))
            out.append(dict(view=v, axis=repr(0), selected='none'))
        return out

    def inputs(self, cfg, P):
        v = cfg['view']
        d = len(v)
        axis = eval(cfg['axis'])
        shape = tuple(z3.Int('n%d' % i) for i in range(d))
        # the caller's view
        entries = []
        for i, c in enumerate(v):
            if c in 's':
                entries.append(PSlice(z3.Int('start%d' % i), z3.Int('stop%d' % i), None))
            elif c == 'p':
                entries.append(PSlice(z3.Int('start%d' % i), z3.Int('stop%d' % i), 2))
            elif c == 'i':
                entries.append(z3.Int('index%d' % i))
            elif c == 'a':
                break
        view = None if v[0] == 'N' else tuple(entries)
        mask_axes = [i for i, c in enumerate(v) if c != 'i']       # data axis of each axis of the viewed array
        m = [z3.Int('m%d' % j) for j in range(len(mask_axes))]      # extents of the viewed array (= of the mask)
        lo = [z3.Int('lo%d' % j) for j in range(len(mask_axes))]
        hi = [z3.Int('hi%d' % j) for j in range(len(mask_axes))]
        st = St(d=d, v=v, axis=axis, shape=shape, view=view, entries=entries, mask_axes=mask_axes, m=m, lo=lo, hi=hi, fetched=[], reduced=[], full=[], assigned=[],
                any_selected=z3.Bool('something_selected'))
        mask = tok('mask', ndim=len(m), shape=tuple(m))

        def getitem(I, self_, key):
            return tok('submask', of=self_, key=key)
        mask.methods['__getitem__'] = getitem
        st.mask = mask
        state = PObj('SubsetState', fields={'__bases__': ('SubsetState',)})
        state.methods['__bool__'] = lambda I, s: True
        state.methods['to_mask'] = lambda I, s, data, view_=None: mask if (view_ is view or view_ == view) else _unsup("to_mask with another view")
        data = PObj('Data', fields={'ndim': d, 'shape': shape, 'size': z3.Int('size')})

        def get_data(I, self_, cid, view=None):
            t = tok('values', view=view, size=z3.Int('fetched_size'), shape=PObj('fetched-shape'))
            st.fetched.append((cid, view, t))
            return t
        data.methods['get_data'] = get_data
        st.data, st.state, st.cid = data, state, PObj('ComponentID')
        return Inputs([data, 'STAT', st.cid], dict(subset_state=state, axis=axis, finite='FINITE', positive='POSITIVE', percentile='PCT', view=view, random_subset=None,
                                                   n_chunk_max=z3.Int('n_chunk_max')), st=st)

    def requires(self, cfg, st):
        r = [('extents>=1', S.And(*[n >= 1 for n in st.shape])), ('no-chunking', st.data.fields['size'] <= z3.Int('n_chunk_max'))]
        # the mask has the shape of the viewed array (contract of to_mask, C04)
        for j, a in enumerate(st.mask_axes):
            c = st.v[a]
            if c in 'sp':
                e = st.entries[a]
                b, en, _ = S.slice_indices(PSlice(e.start, e.stop, None if c == 's' else 2), st.shape[a])
                r.append(('mask-extent-%d-is-the-view-length' % j, st.m[j] == S.range_len(b, en, 1 if c == 's' else 2)))
            else:
                r.append(('mask-extent-%d-is-the-full-extent' % j, st.m[j] == st.shape[a]))
            r.append(('bounding-box-%d-inside-the-mask' % j, S.And(0 <= st.lo[j], st.lo[j] < st.hi[j], st.hi[j] <= st.m[j])))
        for a, c in enumerate(st.v):
            if c == 'i':
                r.append(('index-%d-valid' % a, S.And(-st.shape[a] <= st.entries[a], st.entries[a] < st.shape[a])))
        r.append(('selection-%s' % cfg['selected'], st.any_selected if cfg['selected'] == 'some' else z3.Not(st.any_selected)))
        return r

    def globals_(self, cfg, st):
        def b_isinstance(I, v, t):
            ts = t if isinstance(t, tuple) else (t,)
            for x in ts:
                nm = getattr(x, 'name', None)
                if nm == 'list' and isinstance(v, PList):
                    return True
                if nm == 'tuple' and isinstance(v, tuple):
                    return True
                if nm == 'int' and (isinstance(v, int) and not isinstance(v, bool)):
                    return True
                if nm == 'slice' and isinstance(v, PSlice):
                    return True
                if isinstance(v, PObj) and nm in v.fields.get('__bases__', ()):
                    return True
            return False

        def unbroadcast(I, a):
            if isinstance(a, _Tok) and a.cls == 'mask':
                t = tok('unbroadcast-mask', of=a)
                t.methods['any'] = lambda I2, s, axis=None: tok('valid', collapse=axis)
                return t
            return a

        def np_any(I, a):
            return st.any_selected

        def broadcast_to(I, a, shp):
            if isinstance(a, _Tok) and a.cls == 'valid':
                return a
            return tok('broadcast', value=a, shape=shp)

        def where(I, valid):
            nm = len(st.m)
            col = valid.fields['collapse']
            col = tuple(col) if isinstance(col, tuple) else (col,)
            j = [k for k in range(nm) if k not in col]
            I.path.check(I.hooks.name + "/bounding-box:one-axis-kept-per-projection", len(j) == 1)
            return (tok('indices', j=j[0]),)

        def np_min(I, idx):
            return st.lo[idx.fields['j']]

        def np_max(I, idx):
            return st.hi[idx.fields['j']] - 1

        def reducer(I, statistic, data, mask=None, axis=None, finite=True, positive=False, percentile=None):
            t = tok('reduced', data=data, mask=mask, axis=axis, rest=(statistic, finite, positive, percentile))
            st.reduced.append(t)
            return t

        def full(I, shp, value):
            t = tok('full', shape=shp, value=value)
            t.methods['__setitem__'] = lambda I2, s, key, val: st.assigned.append((s, key, val))
            st.full.append(t)
            return t
        return {'isinstance': Builtin('isinstance', b_isinstance), 'SliceSubsetState': PType('SliceSubsetState'), 'categorical_ndarray': PType('categorical_ndarray'),
                'unbroadcast': Builtin('unbroadcast', unbroadcast), 'numpy.any': Builtin('np.any', np_any), 'numpy.broadcast_to': Builtin('np.broadcast_to', broadcast_to),
                'numpy.where': Builtin('np.where', where), 'numpy.min': Builtin('np.min', np_min), 'numpy.max': Builtin('np.max', np_max),
                'numpy.nan': 'NAN', 'numpy.full': Builtin('np.full', full), 'compute_statistic': Builtin('compute_statistic', reducer),
                'DASK_INSTALLED': False, 'int': PType('int'), 'slice': PType('slice'), 'list': PType('list'), 'tuple': PType('tuple')}

    def ensures(self, cfg, st, result):
        axis = st.axis
        nm = len(st.m)
        axes = None if axis is None else ((axis,) if isinstance(axis, int) else tuple(axis))
        kept = [j for j in range(nm) if axes is None or j not in axes]
        if cfg['selected'] == 'none':
            if axis is None:
                return [('nothing-selected:NaN', result == 'NAN'), ('nothing-fetched', st.fetched == [])]
            ok = isinstance(result, _Tok) and result.cls == 'broadcast' and result.fields['value'] == 'NAN'
            shp = result.fields['shape'] if ok else None
            items = shp.items if isinstance(shp, PList) else (list(shp) if isinstance(shp, (list, tuple)) else None)
            return [('nothing-selected:NaN-array', ok),
                    ('nothing-selected:reduced-shape-of-the-viewed-array', items is not None and len(items) == len(kept) and S.And(*[x == st.m[j] for x, j in zip(items, kept)]) if items is not None else False)]
        stepped = 'p' in st.v
        out = [('reduced-once', len(st.reduced) == 1), ('values-fetched-once', len(st.fetched) == 1)]
        if len(st.reduced) != 1 or len(st.fetched) != 1:
            return out
        red, (cid, fview, ftok) = st.reduced[0], st.fetched[0]
        out.append(('requested-attribute', cid is st.cid))
        out.append(('reducer-gets-the-fetched-values-axis-and-filters', red.fields['data'] is ftok and red.fields['axis'] == axis and red.fields['rest'] == ('STAT', 'FINITE', 'POSITIVE', 'PCT')))
        msk = red.fields['mask']
        if stepped:
            out.append(('stepped-view:mask-and-values-of-the-whole-view', msk is st.mask and (fview is st.view or fview == st.view)))
            out.append(('stepped-view:result-not-padded', result is red))
            return out
        # the box
        okm = isinstance(msk, _Tok) and msk.cls == 'submask' and msk.fields['of'] is st.mask and isinstance(msk.fields['key'], tuple) and len(msk.fields['key']) == nm and \
            all(isinstance(k, PSlice) and k.step is None for k in msk.fields['key'])
        out.append(('mask-cut-to-a-box', okm))
        if okm:
            out.append(('mask-box-is-the-bounding-box', S.And(*[S.And(k.start == st.lo[j], k.stop == st.hi[j]) for j, k in enumerate(msk.fields['key'])])))
        okv = isinstance(fview, tuple) and len(fview) == st.d
        out.append(('values-fetched-with-one-entry-per-data-axis', okv))
        if okv:
            for a, c in enumerate(st.v):
                e = fview[a]
                if c == 'i':
                    out.append(('axis-%d-integer-kept' % a, e is st.entries[a]))
                    continue
                j = st.mask_axes.index(a)
                oks = isinstance(e, PSlice) and e.step is None
                out.append(('axis-%d-is-a-unit-slice' % a, oks))
                if not oks:
                    continue
                if c == 's':
                    b, en, _ = S.slice_indices(PSlice(st.entries[a].start, st.entries[a].stop, None), st.shape[a])
                else:
                    b = 0
                # element k of the fetched box along this axis is element b + lo + k of the data = element lo + k of the mask
                out.append(('axis-%d-values-on-the-box-of-the-viewed-array' % a, S.And(e.start == b + st.lo[j], e.stop == b + st.hi[j])))
                out.append(('axis-%d-box-inside-the-data' % a, S.And(0 <= e.start, e.stop <= st.shape[a])))
        if axis is None:
            out.append(('no-axis:reducer-result-returned', result is red))
            return out
        okf = len(st.full) == 1 and result is st.full[0] and st.full[0].fields['value'] == 'NAN'
        out.append(('padded:NaN-array-returned', okf))
        if okf:
            shp = st.full[0].fields['shape']
            items = shp.items if isinstance(shp, PList) else list(shp)
            out.append(('padded:reduced-shape-of-the-viewed-array', len(items) == len(kept) and S.And(*[x == st.m[j] for x, j in zip(items, kept)])))
            oka = len(st.assigned) == 1 and st.assigned[0][0] is st.full[0] and st.assigned[0][2] is red and isinstance(st.assigned[0][1], tuple) and len(st.assigned[0][1]) == len(kept)
            out.append(('padded:reduced-result-assigned-once', oka))
            if oka:
                out.append(('padded:placed-at-the-box', S.And(*[S.And(k.start == st.lo[j], k.stop == st.hi[j], k.step is None) for k, j in zip(st.assigned[0][1], kept)])))
        return out


def _unsup(msg):
    raise Unsupported(msg)


CONTRACTS.append(ComputeStatisticSubarray())
