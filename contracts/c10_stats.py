"""C10 - sidecar contract for the chunked path of Data.compute_statistic (the real function, walked from its first statement).

  Data.compute_statistic, chunked branch (view None, axis = all axes but one, size > n_chunk_max, selection not a SliceSubsetState):
    for a dataset of rank d (d concrete, 2..4), symbolic extents, symbolic size and chunk limit, and an arbitrary kept axis k:
      - the chunk shape handed to iterate_chunks is admissible (same rank, 1 <= chunk[i] <= extent[i]: no ValueError), and is the
        whole extent on every reduced axis
      - every recursive call receives a view that is a tuple of d unit-step slices inside the array covering the reduced axes
        entirely, and passes statistic / attribute / selection / axis / filters through unchanged
      - every assignment result[chunk_view[k]] = values is inside the result and of matching length
      - at the end result has extent[k] entries and, for an arbitrary index e, result[e] is the statistic of row e
        (ROW(e): uninterpreted; the recursive call on a view whose kept-axis slice is [a, b) returns [ROW(a), ..., ROW(b-1)])
    iterate_chunks is used through its own contract (contracts.c20_array.IterateChunks, proved on its body): an arbitrary item
    satisfying the per-yield postconditions, and "every element lies in exactly one chunk" when the generator is exhausted.
  The result array is represented point-wise: its length and its value at the arbitrary index e.
"""
import z3

from pyvc.verify import FnContract, Inputs, St
from pyvc.values import PObj, PList, PSlice, Builtin, PType, Unsupported, is_z3
from pyvc.interp import LoopSpec, AbstractGen
from pyvc import spec as S
from contracts.c20_array import chunk_item_post

DATA = "glue/core/data.py"
ROW = z3.Function('ROW', z3.IntSort(), z3.RealSort())


class ComputeStatisticChunked(FnContract):
    property_ids = ('C10',)
    target = DATA + ":Data.compute_statistic"
    title = "chunked path: result[e] is the statistic of row e for every e; chunks handed down cover the reduced axes entirely"
    budget_s = 60

    def configs(self, tier):
        out = []
        for d in (2, 3, 4):
            for k in range(d):
                for sel in ('none', 'state'):
                    if sel == 'state' and tier == 'quick' and d == 4 and k not in (0, 3):
                        continue
                    out.append(dict(ndim=d, keep=k, selection=sel))
        return out

    def inputs(self, cfg, P):
        d, k = cfg['ndim'], cfg['keep']
        shape = tuple(z3.Int('n%d' % i) for i in range(d))
        size, lim, e = z3.Int('size'), z3.Int('n_chunk_max'), z3.Int('e')
        axis = tuple(a for a in range(d) if a != k)
        sel = None if cfg['selection'] == 'none' else PObj('SubsetState', fields={'__bases__': ('SubsetState',)})
        cid = PObj('ComponentID')
        st = St(shape=shape, size=size, lim=lim, e=e, axis=axis, k=k, d=d, sel=sel, cid=cid, results=[], calls=0)
        data = PObj('Data', fields={'ndim': d, 'shape': shape, 'size': size})

        def rec(I, self_, statistic, cid_, subset_state=None, axis=None, finite=True, positive=False, percentile=None, view=None, **kw):
            qn = I.hooks.name
            Pp = I.path
            ok = isinstance(view, tuple) and len(view) == d and all(isinstance(s, PSlice) and s.step is None and s.start is not None and s.stop is not None for s in view)
            Pp.check(qn + "/recursive-call:view-is-a-tuple-of-unit-step-slices", ok)
            if not ok:
                raise Unsupported("recursive call with view %r" % (view,))
            Pp.check(qn + "/recursive-call:view-inside-array", S.And(*[S.And(0 <= s.start, s.start < s.stop, s.stop <= n) for s, n in zip(view, shape)]))
            Pp.check(qn + "/recursive-call:reduced-axes-covered-whole", S.And(*[S.And(view[a].start == 0, view[a].stop == shape[a]) for a in st.axis]))
            same = statistic == 'STAT' and cid_ is cid and subset_state is sel and axis == st.axis and finite == 'FINITE' and positive == 'POSITIVE' and \
                percentile == 'PCT' and not kw
            Pp.check(qn + "/recursive-call:same-statistic-selection-axis-filters", bool(same))
            st.calls += 1
            return PObj('values', fields={'vstart': view[k].start, 'length': view[k].stop - view[k].start})
        data.methods['compute_statistic'] = rec
        symbols = {'n%d' % i: s for i, s in enumerate(shape)}
        symbols.update(size=size, n_chunk_max=lim, e=e)
        P.ghost.update(cnt=0)
        return Inputs([data, 'STAT', cid], dict(subset_state=sel, axis=axis, finite='FINITE', positive='POSITIVE', percentile='PCT', view=None, n_chunk_max=lim),
                      st=st, symbols=symbols)

    def requires(self, cfg, st):
        # size is the number of elements; only "size > n_chunk_max >= 1 and every extent >= 1" is used (the product itself is left
        # unconstrained, which over-approximates: the proof holds for any size value)
        return [('extents>=1', S.And(*[n >= 1 for n in st.shape])), ('n_chunk_max>=1', st.lim >= 1), ('size>n_chunk_max', st.size > st.lim),
                ('0<=e<extent[k]', S.And(0 <= st.e, st.e < st.shape[st.k]))]

    def globals_(self, cfg, st):
        d, k = st.d, st.k

        def b_isinstance(I, v, t):
            ts = t if isinstance(t, tuple) else (t,)
            for x in ts:
                nm = getattr(x, 'name', None)
                if nm == 'list' and isinstance(v, PList):
                    return True
                if nm == 'tuple' and isinstance(v, tuple):
                    return True
                if nm == 'int' and isinstance(v, int):
                    return True
                if isinstance(v, PObj) and nm in v.fields.get('__bases__', ()):
                    return True
            return False

        def zeros(I, n):
            r = PObj('result', fields={'len': n, 'at_e': z3.RealVal(0)})

            def setitem(I2, self_, key, values):
                qn = I2.hooks.name
                Pp = I2.path
                ok = isinstance(key, PSlice) and key.step is None and isinstance(values, PObj) and values.cls == 'values'
                Pp.check(qn + "/assign:result[slice]=values", ok)
                if not ok:
                    raise Unsupported("result[%r] = %r" % (key, values))
                Pp.check(qn + "/assign:slice-inside-result", S.And(0 <= key.start, key.start <= key.stop, key.stop <= self_.fields['len']))
                Pp.check(qn + "/assign:length-matches", key.stop - key.start == values.fields['length'])
                inside = S.And(key.start <= st.e, st.e < key.stop)
                self_.fields['at_e'] = S.If(inside, ROW(values.fields['vstart'] + st.e - key.start), self_.fields['at_e'])
            r.methods['__setitem__'] = setitem
            st.results.append(r)
            return r

        def chunks(I, shape, chunk_shape=None, n_max=None):
            qn = I.hooks.name
            Pp = I.path
            shp = tuple(I.iterate_concrete(shape))
            ch = tuple(I.iterate_concrete(chunk_shape)) if chunk_shape is not None else None
            ok = ch is not None and n_max is None and len(ch) == len(shp) == d and all(a is b for a, b in zip(shp, st.shape))
            Pp.check(qn + "/call:iterate_chunks.requires:shape-of-the-data-and-a-chunk-shape-of-the-same-rank", ok)
            if not ok:
                raise Unsupported("iterate_chunks call")
            # the contract's precondition (chunk >= 1) and its ValueError clause (chunk > extent) must both be excluded
            Pp.check(qn + "/call:iterate_chunks.requires:1<=chunk<=extent", S.And(*[S.And(1 <= c, c <= n) for c, n in zip(ch, shp)]))
            Pp.check(qn + "/chunk-shape:whole-extent-on-reduced-axes", S.And(*[ch[a] == shp[a] for a in st.axis]))
            elem = tuple(st.e if i == k else z3.IntVal(0) for i in range(d))

            def next_item(I2):
                P2 = I2.path
                sl = tuple(PSlice(P2.fresh_int('start%d' % i), P2.fresh_int('stop%d' % i), None) for i in range(d))
                for lbl, c in chunk_item_post(sl, shp, ch):
                    P2.assume(c)
                inside = S.And(*[S.And(s.start <= x, x < s.stop) for s, x in zip(sl, elem)])
                P2.ghost['cnt'] = P2.ghost['cnt'] + S.If(inside, 1, 0)
                return sl

            def finish(I2):
                I2.path.assume(I2.path.ghost['cnt'] == 1)      # IterateChunks: every element lies in exactly one chunk

            def havoc(I2):
                I2.path.ghost['cnt'] = I2.path.fresh_int('cnt')
            return AbstractGen(next_item, finish, havoc)

        return {'isinstance': Builtin('isinstance', b_isinstance), 'SliceSubsetState': PType('SliceSubsetState'),
                'numpy.zeros': Builtin('np.zeros', zeros), 'iterate_chunks': Builtin('iterate_chunks', chunks)}

    def loops(self, cfg, st):
        def inv(L):
            r = L.result
            return [('result-length', r.fields['len'] == st.shape[st.k]),
                    ('cnt>=0', L.ghost['cnt'] >= 0),
                    ('row-e-written-once-its-chunk-passed', S.Or(L.ghost['cnt'] < 1, r.fields['at_e'] == ROW(st.e)))]

        def on_iter(what, L):
            if what == 'havoc':
                L.result.fields['at_e'] = L.interp.path.fresh('at_e', z3.RealSort())
        return {0: LoopSpec(inv=inv, on_iter=on_iter)}

    def ensures(self, cfg, st, result):
        ok = isinstance(result, PObj) and result.cls == 'result' and len(st.results) == 1 and result is st.results[0]
        if not ok:
            return [('returns-the-result-array', False)]
        return [('returns-the-result-array', True), ('result-has-extent[k]-entries', result.fields['len'] == st.shape[st.k]),
                ('result[e]-is-the-statistic-of-row-e', result.fields['at_e'] == ROW(st.e))]

    # -- native replay: run the real method with a small chunk limit and compare with the unchunked call
    def native(self, cfg, val):
        import numpy as np
        d, k = cfg['ndim'], cfg['keep']
        shape = tuple(int(val.get('n%d' % i, 1)) for i in range(d))
        lim = int(val.get('n_chunk_max', 1))
        if any(n < 1 or n > 12 for n in shape) or lim < 1 or int(np.prod(shape)) <= lim or int(np.prod(shape)) > 5000:
            return None
        import os
        import sys
        sys.path.insert(0, os.environ.get('GLUE_REPO', '/repo'))
        from glue.core import Data
        x = np.arange(int(np.prod(shape)), dtype=float).reshape(shape) % 7
        dd = Data(x=x)
        axis = tuple(a for a in range(d) if a != k)
        state = None if cfg['selection'] == 'none' else (dd.id['x'] > 2)
        try:
            import warnings
            with warnings.catch_warnings():
                warnings.simplefilter('ignore')
                exp = np.array([np.nanmean(np.where((x > 2) if state is not None else np.ones(shape, bool), x, np.nan).take(i, axis=k)) for i in range(shape[k])])
                from bounded.c10_stats import time_limit
                with time_limit(20):
                    got = dd.compute_statistic('mean', dd.id['x'], subset_state=state, axis=axis, n_chunk_max=lim)
        except Exception as ex:
            return (False, "compute_statistic(mean, axis=%r, n_chunk_max=%d) on shape %r raised %s: %s" % (axis, lim, shape, type(ex).__name__, ex))
        got = np.asarray(got, dtype=float)
        if got.shape != exp.shape or not np.all((np.abs(got - exp) < 1e-9) | (np.isnan(got) & np.isnan(exp))):
            return (False, "compute_statistic(mean, axis=%r, n_chunk_max=%d) on shape %r gives %s, expected %s" % (axis, lim, shape, got.tolist(), exp.tolist()))
        return (True, '')

    def native_call(self, cfg, val):
        d = cfg['ndim']
        return "Data(x=arange(prod(shape)).reshape(shape) %% 7).compute_statistic('mean', x, axis=all but %d, n_chunk_max=%r) with shape %r" % (
            cfg['keep'], val.get('n_chunk_max'), tuple(val.get('n%d' % i) for i in range(d)))


CONTRACTS = [ComputeStatisticChunked()]
