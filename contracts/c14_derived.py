"""C14 - contracts for the 'derived attributes go with their inputs' half of the property: the dependency closure of
Data.remove_component, Data.update_id (shared with C17), ComponentLink.replace_ids / __contains__.
Evaluation of expressions (numpy broadcasting code) is decided by the bounded stand-in."""
import z3

from pyvc.verify import FnContract, Inputs, St
from pyvc.values import PObj, PList, Builtin, PType
from pyvc import spec as S
from contracts.c17_data import RemoveComponent, UpdateID

CL = "glue/core/component_link.py"


class ReplaceIdsConcrete(FnContract):
    """which inputs are the old identifier is enumerated (2^n x target)"""
    property_ids = ('C14',)
    target = CL + ":ComponentLink.replace_ids"
    title = "every occurrence of the old identifier among the inputs and the target becomes the new one; nothing else changes"

    def configs(self, tier):
        out = []
        for n in (1, 2, 3):
            for mask in range(2 ** n):
                for t in (False, True):
                    out.append(dict(n=n, mask=mask, target_old=t))
        return out

    def inputs(self, cfg, P):
        old, new = PObj('ComponentID', fields={'k': 'old'}), PObj('ComponentID', fields={'k': 'new'})
        others = [PObj('ComponentID', fields={'k': i}) for i in range(cfg['n'] + 1)]
        frm = [old if (cfg['mask'] >> i) & 1 else others[i] for i in range(cfg['n'])]
        to = old if cfg['target_old'] else others[-1]
        link = PObj('ComponentLink', fields={'_from': PList(list(frm)), '_to': to})
        return Inputs([link, old, new], st=St(link=link, old=old, new=new, frm=frm, to=to))

    def finish(self, cfg, st, P, outcome):
        qn = "ComponentLink.replace_ids[%s]" % self.cfg_name(cfg)
        P.check(qn + "/does-not-raise", outcome[0] == 'return')
        now = st.link.fields['_from'].items
        P.check(qn + "/ensures:inputs-old-becomes-new-others-kept",
                len(now) == len(st.frm) and all((a is st.new) if b is st.old else (a is b) for a, b in zip(now, st.frm)))
        P.check(qn + "/ensures:target-old-becomes-new-else-kept",
                (st.link.fields['_to'] is st.new) if st.to is st.old else (st.link.fields['_to'] is st.to))


class LinkContains(FnContract):
    property_ids = ('C14', 'C03')
    target = CL + ":ComponentLink.__contains__"
    title = "a link mentions an identifier iff it is one of its inputs or its target (by identity for the target)"

    def configs(self, tier):
        return [dict(where=w) for w in ('input', 'target', 'absent')]

    def inputs(self, cfg, P):
        ids = [PObj('ComponentID', fields={'k': i}) for i in range(4)]
        link = PObj('ComponentLink', fields={'_from': PList(ids[:2]), '_to': ids[2]})
        q = {'input': ids[1], 'target': ids[2], 'absent': ids[3]}[cfg['where']]
        return Inputs([link, q], st=St())

    def ensures(self, cfg, st, result):
        return [('membership', (result is True or result == True) == (cfg['where'] != 'absent') and isinstance(result, bool))]


CONTRACTS = [RemoveComponent(), UpdateID(), ReplaceIdsConcrete(), LinkContains()]
