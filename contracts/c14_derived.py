"""C14 - contracts for the 'derived attributes go with their inputs' half of the property: the dependency closure of
Data.remove_component, Data.update_id (shared with C17), ComponentLink.replace_ids / __contains__.
Evaluation of expressions (numpy broadcasting code) is decided by the bounded stand-in."""
import z3

from pyvc.verify import FnContract, Inputs, St
from pyvc.values import PObj, PList, Builtin, PType
from pyvc import spec as S
from contracts.c17_data import RemoveComponent, UpdateID

CL = "glue/core/component_link.py"


class ReplaceIdsConcrete(FnContract):
    """which inputs are the old identifier is enumerated (2^n x target)"""
    property_ids = ('C14',)
    target = CL + ":ComponentLink.replace_ids"
    title = "every occurrence of the old identifier among the inputs and the target becomes the new one; nothing else changes"

    def configs(self, tier):
        out = []
        for n in (1, 2, 3):
            for mask in range(2 ** n):
                for t in (False, True):
                    out.append(dict(n=n, mask=mask, target_old=t))
        return out

    def inputs(self, cfg, P):
        old, new = PObj('ComponentID', fields={'k': 'old'}), PObj('ComponentID', fields={'k': 'new'})
        others = [PObj('ComponentID', fields={'k': i}) for i in range(cfg['n'] + 1)]
        frm = [old if (cfg['mask'] >> i) & 1 else others[i] for i in range(cfg['n'])]
        to = old if cfg['target_old'] else others[-1]
        link = PObj('ComponentLink', fields={'_from': PList(list(frm)), '_to': to})
        return Inputs([link, old, new], st=St(link=link, old=old, new=new, frm=frm, to=to))

    def finish(self, cfg, st, P, outcome):
        qn = "ComponentLink.replace_ids[%s]" % self.cfg_name(cfg)
        P.check(qn + "/does-not-raise", outcome[0] == 'return')
        now = st.link.fields['_from'].items
        P.check(qn + "/ensures:inputs-old-becomes-new-others-kept",
                len(now) == len(st.frm) and all((a is st.new) if b is st.old else (a is b) for a, b in zip(now, st.frm)))
        P.check(qn + "/ensures:target-old-becomes-new-else-kept",
                (st.link.fields['_to'] is st.new) if st.to is st.old else (st.link.fields['_to'] is st.to))


class LinkContains(FnContract):
    property_ids = ('C14', 'C03')
    target = CL + ":ComponentLink.__contains__"
    title = "a link mentions an identifier iff it is one of its inputs or its target (by identity for the target)"

    def configs(self, tier):
        return [dict(where=w) for w in ('input', 'target', 'absent')]

    def inputs(self, cfg, P):
        ids = [PObj('ComponentID', fields={'k': i}) for i in range(4)]
        link = PObj('ComponentLink', fields={'_from': PList(ids[:2]), '_to': ids[2]})
        q = {'input': ids[1], 'target': ids[2], 'absent': ids[3]}[cfg['where']]
        return Inputs([link, q], st=St())

    def ensures(self, cfg, st, result):
        return [('membership', (result is True or result == True) == (cfg['where'] != 'absent') and isinstance(result, bool))]


class BinaryLinkInit(FnContract):
    property_ids = ('C14',)
    target = CL + ":BinaryComponentLink.__init__"
    title = ("the inputs of an arithmetic expression are the inputs of its operands (identifiers and nested expressions), in order, in a FRESH list; "
             "the operands' own input lists are not modified; numbers contribute nothing; anything else is rejected")

    KINDS = ('cid', 'link', 'number', 'other')

    def configs(self, tier):
        return [dict(left=a, right=b) for a in self.KINDS for b in self.KINDS]

    def mk(self, kind, tag):
        if kind == 'cid':
            return PObj('ComponentID', fields={'tag': tag})
        if kind == 'link':
            ids = PList([PObj('ComponentID', fields={'tag': tag + '_in%d' % i}) for i in range(2)])
            l = PObj('ComponentLink', fields={'_from': ids})
            l.methods['get_from_ids'] = lambda I, s_: s_.fields['_from']          # returns the link's own list (as the real method does)
            return l
        if kind == 'number':
            return 3
        return PObj('str-like')

    def inputs(self, cfg, P):
        left, right = self.mk(cfg['left'], 'L'), self.mk(cfg['right'], 'R')
        me = PObj('BinaryComponentLink')
        captured = {}

        def base_init(I, self_, from_, to, using=None, **kw):
            captured['from'] = from_
            self_.fields['_from'] = from_
            self_.fields['_to'] = to
        me.methods['__init__'] = base_init
        snap = lambda o: list(o.fields['_from'].items) if isinstance(o, PObj) and '_from' in o.fields else None
        st = St(me=me, left=left, right=right, captured=captured, l0=snap(left), r0=snap(right), snap=snap)
        return Inputs([me, left, right, 'OP'], st=st)

    def globals_(self, cfg, st):
        def b_isinstance(I, v, t):
            nm = getattr(t, 'name', None) or getattr(t, 'cls', None)
            if nm == 'Number' or (isinstance(t, PObj) and t.cls == 'Number'):
                return isinstance(v, (int, float))
            return isinstance(v, PObj) and v.cls == nm

        def b_super(I, *a):
            return PObj('super', methods={'__init__': lambda I2, s_, *aa, **kk: I2.call(st.me.methods['__init__'], [st.me] + list(aa), kk)})
        return {'isinstance': Builtin('isinstance', b_isinstance), 'ComponentID': _CidType(), 'ComponentLink': PType('ComponentLink'),
                'numbers.Number': PType('Number'), 'super': Builtin('super', b_super), 'BinaryComponentLink': PType('BinaryComponentLink'),
                'null': 'null', 'glue.core.data.ComponentID': _CidType()}

    raises = {'TypeError': lambda cfg, st: cfg['left'] == 'other' or cfg['right'] == 'other'}

    def finish(self, cfg, st, P, outcome):
        qn = "BinaryComponentLink.__init__[%s]" % self.cfg_name(cfg)
        if outcome[0] != 'return':
            P.check(qn + "/raises:operands-untouched", st.snap(st.left) == st.l0 and st.snap(st.right) == st.r0)
            return
        fr = st.captured.get('from')
        items = fr.items if isinstance(fr, PList) else None
        exp = []
        for o, kind in ((st.left, cfg['left']), (st.right, cfg['right'])):
            if kind == 'cid':
                exp.append(o)
            elif kind == 'link':
                exp.extend(st.l0 if o is st.left else st.r0)
        P.check(qn + "/ensures:inputs-are-the-operands'-inputs-in-order", items is not None and len(items) == len(exp) and all(a is b for a, b in zip(items, exp)))
        P.check(qn + "/ensures:own-fresh-list", fr is not getattr(st.left, 'fields', {}).get('_from') and fr is not getattr(st.right, 'fields', {}).get('_from'))
        P.check(qn + "/frame:operands'-input-lists-unchanged", st.snap(st.left) == st.l0 and st.snap(st.right) == st.r0)
        P.check(qn + "/ensures:operands-kept", st.me.fields.get('_left') is st.left and st.me.fields.get('_right') is st.right and st.me.fields.get('_op') == 'OP')


class _CidType(PType):
    """ComponentID: usable in isinstance and callable (ComponentID(\"\") creates the placeholder target)"""

    def __init__(self):
        PType.__init__(self, 'ComponentID')


from pyvc.interp import Interp as _I
_prev_call = _I.call


def _call(self, fv, args, kwargs):
    if isinstance(fv, _CidType):
        return PObj('ComponentID', fields={'tag': 'placeholder'})
    return _prev_call(self, fv, args, kwargs)


_I.call = _call


class BinaryReplaceIds(FnContract):
    """an arithmetic expression holds its operands twice: in the input list of the link and as _left / _right (an identifier, a nested
    expression or a number)"""
    property_ids = ('C14', 'C17')
    target = CL + ":BinaryComponentLink.replace_ids"
    title = ("every occurrence of the old identifier - as left operand, as right operand (also when it is both), inside nested operand expressions, in the input list and "
             "as target - becomes the new one; other operands are kept")

    KINDS = ('old', 'other', 'link', 'number')

    def configs(self, tier):
        return [dict(left=l, right=r) for l in self.KINDS for r in self.KINDS]

    def inputs(self, cfg, P):
        from pyvc.extract import FunctionText
        from pyvc.interp import Interp, Hooks
        old, new = PObj('ComponentID', fields={'k': 'old'}), PObj('ComponentID', fields={'k': 'new'})
        calls = []

        def operand(kind, side):
            if kind == 'old':
                return old
            if kind == 'other':
                return PObj('ComponentID', fields={'k': 'other-' + side})
            if kind == 'number':
                return 2
            l = PObj('BinaryComponentLink', fields={'__bases__': ('ComponentLink',), 'side': side})
            l.methods['replace_ids'] = lambda I, s, a, b: calls.append((s, a, b))
            return l
        left, right = operand(cfg['left'], 'left'), operand(cfg['right'], 'right')
        frm = [x for x in (left, right) if isinstance(x, PObj) and x.cls == 'ComponentID']
        link = PObj('BinaryComponentLink', fields={'_left': left, '_right': right, '_from': PList(list(frm)), '_to': PObj('ComponentID', fields={'k': 'target'})})
        ft = FunctionText(CL, 'ComponentLink.replace_ids')
        st = St(link=link, old=old, new=new, left=left, right=right, frm=frm, calls=calls, ft=ft)
        return Inputs([link, old, new], st=st)

    def globals_(self, cfg, st):
        from pyvc.interp import Interp, Hooks

        def b_super(I, *a):
            return PObj('super', methods={'replace_ids': lambda I2, s_, o, n: Interp(I2.path, I2.globals, Hooks(name=I2.hooks.name), st.ft).run_function(st.ft, [st.link, o, n], {})})

        def b_isinstance(I, v, t):
            nm = getattr(t, 'name', None)
            return isinstance(v, PObj) and (v.cls == nm or nm in v.fields.get('__bases__', ()))
        return {'super': Builtin('super', b_super), 'BinaryComponentLink': PType('BinaryComponentLink'), 'ComponentLink': PType('ComponentLink'),
                'isinstance': Builtin('isinstance', b_isinstance), 'numbers.Number': PType('Number')}

    def finish(self, cfg, st, P, outcome):
        qn = "BinaryComponentLink.replace_ids[%s]" % self.cfg_name(cfg)
        P.check(qn + "/does-not-raise", outcome[0] == 'return')
        f = st.link.fields
        for side, before in (('_left', st.left), ('_right', st.right)):
            now = f[side]
            if before is st.old:
                P.check(qn + "/ensures:%s-operand-old-becomes-new" % side[1:], now is st.new)
            else:
                P.check(qn + "/ensures:%s-operand-kept" % side[1:], now is before)
                if isinstance(before, PObj) and before.cls == 'BinaryComponentLink':
                    P.check(qn + "/ensures:nested-%s-expression-rewritten-too" % side[1:], any(c[0] is before and c[1] is st.old and c[2] is st.new for c in st.calls))
        now = f['_from'].items
        P.check(qn + "/ensures:input-list-old-becomes-new-others-kept", len(now) == len(st.frm) and all((a is st.new) if b is st.old else (a is b) for a, b in zip(now, st.frm)))


CONTRACTS = [RemoveComponent(), UpdateID(), ReplaceIdsConcrete(), LinkContains(), BinaryLinkInit(), BinaryReplaceIds()]
