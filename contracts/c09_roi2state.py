"""C09 - sidecar contracts for the region -> selection conversion.

  CategoricalROI.from_range      over real bounds lo, hi and an integer category position k (all symbolic):
                                 position k is selected  <=>  lo <= k < hi   (which equals the open range lo < k < hi off the boundary band),
                                 negative bounds clamp to 0, the selected categories are a contiguous slice of the given ones
  roi_to_subset_state            dispatch, per (region kind, axis kinds): which selection class is built from which parameters
                                 (range -> RangeSubsetState / categorical range; unrotated rectangle on a categorical axis -> and of the two
                                 range conversions; categorical region -> categorical selection on x; numeric x numeric -> RoiSubsetState holding
                                 the same region or its polygon)
The polygon x categorical loops (np.arange/np.repeat/boolean indexing, polygon_line_intersections) are numpy code: bounded stand-in.
"""
import z3

from pyvc.verify import FnContract, Inputs, St
from pyvc.values import PObj, PList, PSlice, Builtin, PyRaise, ExcVal, PType, Unsupported, is_z3
from pyvc import spec as S

ROI = "glue/core/roi.py"
SUB = "glue/core/subset.py"


class FromRange(FnContract):
    property_ids = ('C09',)
    target = ROI + ":CategoricalROI.from_range"
    title = "the category at integer position k is selected iff lo <= k < hi (negative bounds clamp to 0); the selection is a contiguous slice of the categories"

    def inputs(self, cfg, P):
        lo, hi = z3.Reals('lo hi')
        k, n = z3.Ints('k n')
        taken = {}
        cats = PObj('categories')

        def getitem(I, self_, sl):
            taken['slice'] = sl
            return PObj('category-slice', fields={'slice': sl})
        cats.methods['__getitem__'] = getitem
        st = St(lo=lo, hi=hi, k=k, n=n, taken=taken, made=[])
        return Inputs([cats, lo, hi], st=st, symbols=dict(lo=lo, hi=hi, k=k, n=n))

    def requires(self, cfg, st):
        return [('0<=k<n', z3.And(st.k >= 0, st.k < st.n))]

    def globals_(self, cfg, st):
        def ceil(I, v):
            c = I.path.fresh_int('ceil')
            I.path.assume(z3.And(z3.ToReal(c) >= v, z3.ToReal(c) - 1 < v))
            return c

        def intp(I, v):
            return v

        def new_roi(I):
            r = PObj('CategoricalROI', fields={'updated_with': None})
            r.methods['update_categories'] = lambda I2, s_, c: s_.fields.__setitem__('updated_with', c)
            st.made.append(r)
            return r
        return {'numpy.ceil': Builtin('np.ceil', ceil), 'numpy.intp': Builtin('np.intp', intp), 'CategoricalROI': Builtin('CategoricalROI', new_roi)}

    def ensures(self, cfg, st, result):
        ok = isinstance(result, PObj) and result.cls == 'CategoricalROI' and isinstance(result.fields.get('updated_with'), PObj) and \
            isinstance(st.taken.get('slice'), PSlice)
        if not ok:
            return [('a-region-built-from-a-slice-of-the-categories', False)]
        sl = st.taken['slice']
        if sl.step is not None:
            return [('contiguous-slice', False)]
        beg, end, _ = S.slice_indices(PSlice(sl.start, sl.stop, None), st.n)
        selected = z3.And(beg <= st.k, st.k < end)
        kr = z3.ToReal(st.k)
        return [('position-k-selected-iff-lo<=k<hi', selected == z3.And(st.lo <= kr, kr < st.hi)),
                ('slice-bounds-non-negative', z3.And(sl.start >= 0, sl.stop >= 0))]


class Roi2State(FnContract):
    property_ids = ('C09',)
    target = SUB + ":roi_to_subset_state"
    title = "per (region kind, axis kinds) the returned selection is of the prescribed class and built from the region's own parameters and the right attribute"

    KINDS = ('xrange', 'yrange', 'rect', 'rect-rotated', 'categorical', 'circle', 'polygon', 'other')

    def configs(self, tier):
        out = []
        for rk in self.KINDS:
            for xc, yc in ((False, False), (True, False), (False, True), (True, True)):
                if rk in ('circle', 'polygon', 'other', 'rect-rotated') and (xc or yc):
                    continue           # polygon x categorical loops: bounded stand-in
                if rk == 'categorical' and not (xc or yc):
                    continue           # a categorical region on numeric axes is not a valid request (to_polygon is not implemented for it)
                out.append(dict(roi=rk, xcat=xc, ycat=yc))
        return out

    def inputs(self, cfg, P):
        rk = cfg['roi']
        bases = {'xrange': ('RangeROI', 'XRangeROI'), 'yrange': ('RangeROI', 'YRangeROI'), 'rect': ('RectangularROI',), 'rect-rotated': ('RectangularROI',),
                 'categorical': ('CategoricalROI',), 'circle': ('CircularROI',), 'polygon': ('PolygonalROI',), 'other': ('MplSomething',)}[rk]
        roi = PObj(bases[-1], fields={'__bases__': bases})
        if rk in ('xrange', 'yrange'):
            roi.fields.update(ori=rk[0], min=z3.Real('rmin'), max=z3.Real('rmax'))
        if rk.startswith('rect'):
            roi.fields.update(xmin=z3.Real('xmin'), xmax=z3.Real('xmax'), ymin=z3.Real('ymin'), ymax=z3.Real('ymax'), theta=('theta', rk == 'rect-rotated'))
        if rk == 'other':
            roi.methods['to_polygon'] = lambda I, s_: ('VX', 'VY')
        xatt, yatt = PObj('ComponentID', fields={'n': 'x'}), PObj('ComponentID', fields={'n': 'y'})
        xcats = PObj('categories', fields={'n': 'x'}) if cfg['xcat'] else None
        ycats = PObj('categories', fields={'n': 'y'}) if cfg['ycat'] else None
        st = St(roi=roi, xatt=xatt, yatt=yatt, xcats=xcats, ycats=ycats)
        return Inputs([roi], dict(x_att=xatt, y_att=yatt, x_categories=xcats, y_categories=ycats), st=st)

    def globals_(self, cfg, st):
        from pyvc.extract import FunctionText
        from pyvc.interp import Interp, Hooks
        ft = FunctionText(SUB, 'roi_to_subset_state')

        def rec(I, roi, **kw):
            sub = Interp(I.path, I.globals, Hooks(name=I.hooks.name), ft)
            return sub.run_function(ft, [roi], kw)

        def ctor(cls, bases=()):
            def make(I, *a, **k):
                return PObj(cls, fields={'args': a, 'kwargs': k, '__bases__': bases + (cls,)})
            return Builtin(cls, make)

        def b_isinstance(I, v, t):
            ts = t if isinstance(t, tuple) else (t,)
            names = [getattr(x, 'name', None) for x in ts]
            return isinstance(v, PObj) and any(n in v.fields.get('__bases__', (v.cls,)) or n == v.cls for n in names)

        def isclose(I, a, b, atol=None):
            return not a[1]          # a == ('theta-mod', rotated?)

        class Theta:
            pass
        g = {'roi_to_subset_state': Builtin('roi_to_subset_state', rec), 'isinstance': Builtin('isinstance', b_isinstance),
             'RangeSubsetState': ctor('RangeSubsetState'), 'AndState': ctor('AndState'), 'RoiSubsetState': None,
             'CategoricalROISubsetState': None,
             'XRangeROI': Builtin('XRangeROI', lambda I, lo=None, hi=None: PObj('XRangeROI', fields={'__bases__': ('RangeROI', 'XRangeROI'), 'ori': 'x', 'min': lo, 'max': hi})),
             'YRangeROI': Builtin('YRangeROI', lambda I, lo=None, hi=None: PObj('YRangeROI', fields={'__bases__': ('RangeROI', 'YRangeROI'), 'ori': 'y', 'min': lo, 'max': hi})),
             'PolygonalROI': ctor('PolygonalROI'), 'numpy.isclose': Builtin('np.isclose', isclose), 'numpy.pi': 'PI'}
        for nm in ('RangeROI', 'RectangularROI', 'CategoricalROI', 'CircularROI', 'EllipticalROI', 'CircularAnnulusROI'):
            g[nm] = PType(nm)
        g['PolygonalROI'] = _Both('PolygonalROI', g['PolygonalROI'])
        # RoiSubsetState(): empty state whose attributes are then assigned
        g['RoiSubsetState'] = Builtin('RoiSubsetState', lambda I: PObj('RoiSubsetState'))
        cr = PObj('CategoricalROISubsetState-class')
        cr.methods['from_range'] = lambda I, s_, categories, att, lo, hi: PObj('CategoricalROISubsetState', fields={'from_range': (categories, att, lo, hi)})
        g['CategoricalROISubsetState'] = _ClassWithStatic(cr, lambda I, roi=None, att=None: PObj('CategoricalROISubsetState', fields={'roi': roi, 'att': att}))
        return g

    def ensures(self, cfg, st, result):
        rk, xc, yc = cfg['roi'], cfg['xcat'], cfg['ycat']
        r = result
        if not isinstance(r, PObj):
            return [('returns-a-selection', False)]
        roi = st.roi

        def is_range_conv(obj, ori, lo, hi):
            att, cats = (st.xatt, st.xcats) if ori == 'x' else (st.yatt, st.ycats)
            if cats is not None:
                fr = obj.fields.get('from_range')
                return obj.cls == 'CategoricalROISubsetState' and fr is not None and fr[0] is cats and fr[1] is att and fr[2] is lo and fr[3] is hi
            a = obj.fields.get('args', ())
            return obj.cls == 'RangeSubsetState' and len(a) == 3 and a[0] is lo and a[1] is hi and a[2] is att
        if rk in ('xrange', 'yrange'):
            return [('range-over-the-axis-it-is-drawn-on', is_range_conv(r, rk[0], roi.fields['min'], roi.fields['max']))]
        if rk == 'rect' and (xc or yc):
            a = r.fields.get('args', ())
            ok = r.cls == 'AndState' and len(a) == 2 and is_range_conv(a[0], 'x', roi.fields['xmin'], roi.fields['xmax']) and \
                is_range_conv(a[1], 'y', roi.fields['ymin'], roi.fields['ymax'])
            return [('and-of-the-x-range-and-y-range-conversions', ok)]
        if rk == 'categorical' and (xc or yc):
            return [('categorical-selection-on-the-x-attribute', r.cls == 'CategoricalROISubsetState' and r.fields.get('roi') is roi and r.fields.get('att') is st.xatt)]
        # numeric x numeric (or nothing categorical): region selection over (x, y)
        ok = r.cls == 'RoiSubsetState' and r.fields.get('xatt') is st.xatt and r.fields.get('yatt') is st.yatt
        region = r.fields.get('roi')
        if rk in ('rect', 'rect-rotated', 'circle', 'polygon'):
            ok = ok and region is roi
        else:
            ok = ok and isinstance(region, PObj) and region.cls == 'PolygonalROI' and region.fields.get('args') == ('VX', 'VY')
        return [('region-selection-over-(x,y)-holding-the-region-or-its-polygon', ok)]


class _Both(PType):
    """usable in isinstance and callable"""

    def __init__(self, name, ctor):
        PType.__init__(self, name)
        self.ctor = ctor


class _ClassWithStatic(PObj):
    def __init__(self, cls_obj, ctor):
        PObj.__init__(self, 'class', methods=dict(cls_obj.methods))
        self.ctor = ctor


from pyvc.interp import Interp as _I
_prev = _I.call


def _call(self, fv, args, kwargs):
    if isinstance(fv, _Both):
        return fv.ctor.fn(self, *args, **kwargs)
    if isinstance(fv, _ClassWithStatic):
        return fv.ctor(self, *args, **kwargs)
    return _prev(self, fv, args, kwargs)


_I.call = _call

_prev_binop = _I.binop


def _binop(self, op, a, b):
    import ast
    if isinstance(op, ast.Mod) and isinstance(a, tuple) and a and a[0] == 'theta':
        return ('theta-mod', a[1])
    return _prev_binop(self, op, a, b)


_I.binop = _binop

CONTRACTS = [FromRange(), Roi2State()]
