"""C06 - the selection commands keep the group registry symmetric.

ApplySubsetState / ApplyROI do+undo on the finite heap model of the collection (contracts/c13_command.py: ApplyDoUndo), discharged here
as obligations of C06: after undo every registered group has its subset in every dataset and no dataset carries anything else - also when
a pre-existing group was removed through the collection between do and undo.
"""
from contracts.c13_command import ApplySubsetStateDoUndo, ApplyROIDoUndo

CONTRACTS = [ApplySubsetStateDoUndo(), ApplyROIDoUndo()]
