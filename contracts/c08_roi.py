"""C08 - sidecar contracts over the REALS for the closed-form regions of glue/core/roi.py.

A-REAL: machine floats are treated as reals.  A-LIFT: the functions are element-wise in (x, y), so one symbolic point stands
for every element of every array shape (`x[keep]`, `inside[keep] = e` are lifted point-wise).  Angles are symbols (c, s) with
c*c + s*s == 1; which branch the float tests `np.isclose(theta % pi, 0)` select is a structure configuration
(axis-aligned: s == 0, quarter-turn: c == 0, general: no constraint) - the numeric branch choice near multiples of pi/2 is covered
by the bounded stand-in.

Spec (geometric truth):  a point is inside a rotated rectangle/ellipse iff R(-theta)(p - centre) is inside the axis-aligned one.
Postconditions exclude the boundary itself (strictly inside => True, strictly outside => False), which also proves that the
bounding-box pre-filter never discards an interior point.
"""
import z3

from pyvc.verify import FnContract, Inputs, St
from pyvc.interp import Interp, Hooks
from pyvc.values import PObj, PList, Builtin, PyRaise, ExcVal, PType, Unsupported, is_z3, PFunc
from pyvc.extract import FunctionText
from pyvc import spec as S

ROI = "glue/core/roi.py"


# ---------------------------------------------------------------------------------------------- numpy-on-reals model
def vec(items):
    v = PObj('vec', fields={'items': list(items)})
    bin_ = lambda f: (lambda I, s, o: vec([f(a, b) for a, b in zip(s.fields['items'], o.fields['items'] if isinstance(o, PObj) else [o] * len(s.fields['items']))]))
    v.methods.update({'__mul__': bin_(lambda a, b: a * b), '__truediv__': bin_(lambda a, b: a / b), '__add__': bin_(lambda a, b: a + b),
                      '__sub__': bin_(lambda a, b: a - b),
                      'min': lambda I, s: _fold(s.fields['items'], lambda a, b: z3.If(b < a, b, a)),
                      'max': lambda I, s: _fold(s.fields['items'], lambda a, b: z3.If(b > a, b, a))})
    return v


def _fold(xs, f):
    r = xs[0]
    for x in xs[1:]:
        r = f(r, _r(x))
    return r


def _r(x):
    return x if is_z3(x) else z3.RealVal(x)


class Angle(PObj):
    def __init__(self, c, s):
        PObj.__init__(self, 'angle', fields={'c': c, 's': s})
        self.methods['__neg__'] = lambda I, a: Angle(a.fields['c'], -a.fields['s'])
        self.methods['__mod__'] = lambda I, a, m: ('theta-mod', m.fields['k'] if isinstance(m, PObj) else m)


def make_np(cfg_angle):
    PI = PObj('pi', fields={'k': 'pi'})
    PI.methods['__truediv__'] = lambda I, s, d: PObj('pi', fields={'k': 'pi/2'}) if d == 2 else (_ for _ in ()).throw(Unsupported('pi/%r' % d))

    def isclose(I, a, b, atol=None, rtol=None):
        if isinstance(a, tuple) and a[0] == 'theta-mod':
            if a[1] == 'pi':
                return cfg_angle == 'axis-aligned'
            if a[1] == 'pi/2':
                return cfg_angle in ('axis-aligned', 'quarter-turn')
        raise Unsupported("np.isclose on %r" % (a,))

    def array(I, x):
        if isinstance(x, PList):
            x = x.items
        if isinstance(x, (list, tuple)) and all(isinstance(e, (int, float)) or is_z3(e) for e in x):
            return vec([_r(float(e)) if not is_z3(e) else e for e in x])
        raise Unsupported("np.array(%r)" % (x,))

    def zeros_like(I, x, dtype=None):
        return False

    def sqrt(I, v):
        r = I.path.fresh('sqrt', z3.RealSort())
        I.path.assume(z3.And(r >= 0, r * r == v))
        return r

    def asarray(I, x):
        return x
    return {'numpy.pi': PI, 'numpy.isclose': Builtin('np.isclose', isclose), 'numpy.array': Builtin('np.array', array),
            'numpy.zeros_like': Builtin('np.zeros_like', zeros_like), 'numpy.sqrt': Builtin('np.sqrt', sqrt),
            'numpy.asarray': Builtin('np.asarray', asarray), 'numpy.ndarray': PType('ndarray')}


def rotation_matrix_model(I, alpha):
    """contract of glue.utils.geometry.rotation_matrix_2d: [[cos, -sin], [sin, cos]]"""
    c, s = alpha.fields['c'], alpha.fields['s']
    m = PObj('mat2', fields={'c': c, 's': s})

    def matmul(I2, self_, v):
        items = v.items if isinstance(v, PList) else list(v)
        a, b = items
        if isinstance(a, PObj) and a.cls == 'vec':
            xs = vec([c * p - s * q for p, q in zip(a.fields['items'], b.fields['items'])])
            ys = vec([s * p + c * q for p, q in zip(a.fields['items'], b.fields['items'])])
            r = PObj('mat2xn', fields={'rows': (xs, ys)})
            r.methods['__add__'] = lambda I3, s_, col: PObj('mat2xn', fields={'rows': (I3.call(xs.methods['__add__'], [xs, col.fields['col'][0]], {}),
                                                                               I3.call(ys.methods['__add__'], [ys, col.fields['col'][1]], {}))},
                                                           methods={'__iter__': lambda I4, s4: PList(list(s4.fields['rows']))})
            return r
        r = PObj('vec2', fields={'xy': (c * a - s * b, s * a + c * b)})
        r.methods['reshape'] = lambda I3, s_, shp: s_.fields['xy']
        return r
    m.methods['__matmul__'] = matmul
    return m


def sym_hooks():
    def getattr_symbolic(I, obj, attr):
        if attr == 'shape':
            return ()
        if attr == 'flatten':
            return Builtin('flatten', lambda I2: obj)
        raise Unsupported("attribute %s of a lifted element" % attr)
    return {'__getattr_symbolic__': getattr_symbolic}


def base_globals(cfg_angle):
    g = make_np(cfg_angle)
    g.update(sym_hooks())

    def b_isinstance(I, v, t):
        return True            # x, y are arrays (lifted)

    def np_array_center(I, x):
        raise Unsupported("np.array")
    g.update({'isinstance': Builtin('isinstance', b_isinstance), 'rotation_matrix_2d': Builtin('rotation_matrix_2d', rotation_matrix_model),
              'UndefinedROI': PType('UndefinedROI'), 'abs': Builtin('abs', lambda I, v: z3.If(v >= 0, v, -v))})
    return g


class _Getitem(PObj):
    pass


# lifted element indexing x[keep]: the element itself (the assignment inside[keep] = e is lifted in Interp.setitem below)
_orig_getitem = Interp.getitem
_orig_setitem = Interp.setitem


def _getitem(self, obj, idx):
    if is_z3(obj) and obj.sort() == z3.RealSort() and (is_z3(idx) or isinstance(idx, bool)):
        return obj
    return _orig_getitem(self, obj, idx)


Interp.getitem = _getitem


def angle_requires(cfg, c, s):
    r = [('unit', c * c + s * s == 1)]
    if cfg['angle'] == 'axis-aligned':
        r.append(('s==0', s == 0))
    elif cfg['angle'] == 'quarter-turn':
        r.append(('c==0', c == 0))
    return r


class RectContains(FnContract):
    property_ids = ('C08', 'C09')
    target = ROI + ":RectangularROI.contains"
    title = "off the boundary, contains(p) answers whether R(-theta)(p - centre) lies in the box of half-width w/2, half-height h/2 (pre-filter never drops an interior point)"
    budget_s = 120

    def configs(self, tier):
        return [dict(angle=a) for a in ('axis-aligned', 'quarter-turn', 'general')]

    def make(self, cfg):
        xmin, xmax, ymin, ymax = z3.Reals('xmin xmax ymin ymax')
        c, s = z3.Reals('cos_theta sin_theta')
        roi = PObj('RectangularROI', fields=dict(xmin=xmin, xmax=xmax, ymin=ymin, ymax=ymax, theta=Angle(c, s)))
        g = base_globals(cfg['angle'])
        for nm in ('defined', 'center', 'width', 'height', 'to_polygon'):
            ft = FunctionText(ROI, 'RectangularROI.' + nm)
            roi.methods[nm] = (lambda I, self_, *a, ft=ft: Interp(I.path, g, Hooks(name=I.hooks.name), ft).run_function(ft, [self_] + list(a), {}))

        # np.array(self.center()).reshape((2, 1)) -> column vector
        def array(I, x):
            if isinstance(x, tuple) and len(x) == 2 and all(is_z3(e) for e in x):
                col = PObj('col2', fields={'col': x})
                col.methods['reshape'] = lambda I2, s_, shp: s_
                return col
            return make_np(cfg['angle'])['numpy.array'].fn(I, x)
        g['numpy.array'] = Builtin('np.array', array)
        return roi, g, (xmin, xmax, ymin, ymax, c, s)

    def inputs(self, cfg, P):
        roi, g, (xmin, xmax, ymin, ymax, c, s) = self.make(cfg)
        x, y = z3.Reals('x y')
        st = St(roi=roi, g=g, x=x, y=y, xmin=xmin, xmax=xmax, ymin=ymin, ymax=ymax, c=c, s=s)
        return Inputs([roi, x, y], st=st, symbols=dict(xmin=xmin, xmax=xmax, ymin=ymin, ymax=ymax, cos_theta=c, sin_theta=s, x=x, y=y))

    def requires(self, cfg, st):
        return [('xmin<xmax', st.xmin < st.xmax), ('ymin<ymax', st.ymin < st.ymax)] + angle_requires(cfg, st.c, st.s)

    def globals_(self, cfg, st):
        return st.g

    def truth(self, st):
        w, h = st.xmax - st.xmin, st.ymax - st.ymin
        cx, cy = st.xmin + w / 2, st.ymin + h / 2
        dx, dy = st.x - cx, st.y - cy
        u, v = st.c * dx + st.s * dy, -st.s * dx + st.c * dy
        inside = z3.And(u > -w / 2, u < w / 2, v > -h / 2, v < h / 2)
        outside = z3.Or(u < -w / 2, u > w / 2, v < -h / 2, v > h / 2)
        return inside, outside

    def ensures(self, cfg, st, result):
        inside, outside = self.truth(st)
        r = S.tobool(result) if (is_z3(result) or isinstance(result, bool)) else None
        if r is None:
            return [('returns-a-mask', False)]
        return [('strictly-inside=>True', z3.Implies(inside, r)), ('strictly-outside=>False', z3.Implies(outside, z3.Not(r)))]


# lifted masked assignment:  inside[keep] = e   ==>   inside = If(keep, e, inside)
def _setitem(self, obj, idx, v):
    if (isinstance(obj, bool) or (is_z3(obj) and obj.sort() == z3.BoolSort())) and (is_z3(idx) or isinstance(idx, bool)):
        raise _LiftedStore(idx, v)
    return _orig_setitem(self, obj, idx, v)


class _LiftedStore(Exception):
    def __init__(self, idx, v):
        self.idx, self.v = idx, v


Interp.setitem = _setitem
_orig_assign = Interp.assign


def _assign(self, t, v, env):
    import ast
    if isinstance(t, ast.Subscript) and isinstance(t.value, ast.Name):
        try:
            return _orig_assign(self, t, v, env)
        except _LiftedStore as ls:
            old = env[t.value.id]
            env[t.value.id] = z3.If(S.tobool(ls.idx), S.tobool(ls.v), S.tobool(old))
            return
    return _orig_assign(self, t, v, env)


Interp.assign = _assign


class RectToPolygon(RectContains):
    target = ROI + ":RectangularROI.to_polygon"
    title = "the five vertices are centre + R(theta)(+-w/2, +-h/2), closed (last == first)"
    budget_s = 60

    def inputs(self, cfg, P):
        roi, g, syms = self.make(cfg)
        xmin, xmax, ymin, ymax, c, s = syms
        st = St(roi=roi, g=g, xmin=xmin, xmax=xmax, ymin=ymin, ymax=ymax, c=c, s=s)
        return Inputs([roi], st=st)

    def ensures(self, cfg, st, result):
        ok = isinstance(result, tuple) and len(result) == 2 and all(isinstance(v, PObj) and v.cls == 'vec' and len(v.fields['items']) == 5 for v in result)
        if not ok:
            return [('two-arrays-of-five-vertices', False)]
        w, h = st.xmax - st.xmin, st.ymax - st.ymin
        cx, cy = st.xmin + w / 2, st.ymin + h / 2
        corners = [(-1, -1), (1, -1), (1, 1), (-1, 1), (-1, -1)]
        if cfg['angle'] == 'axis-aligned':
            # theta is a multiple of pi: the rectangle coincides with the unrotated box (for theta = pi the rotated corner list is
            # the same closed polygon started at the opposite corner) - the code returns the box itself
            ex = [st.xmin, st.xmax, st.xmax, st.xmin, st.xmin]
            ey = [st.ymin, st.ymin, st.ymax, st.ymax, st.ymin]
            return [('vertices-are-the-box-corners', z3.And(*[result[0].fields['items'][k] == ex[k] for k in range(5)] +
                                                             [result[1].fields['items'][k] == ey[k] for k in range(5)]))]
        conds = []
        for k, (a, b) in enumerate(corners):
            px, py = a * w / 2, b * h / 2
            conds.append(result[0].fields['items'][k] == cx + st.c * px - st.s * py)
            conds.append(result[1].fields['items'][k] == cy + st.s * px + st.c * py)
        return [('vertices-are-the-rotated-corners', z3.And(*conds))]


class RectMoveTo(FnContract):
    property_ids = ('C08',)
    target = ROI + ":RectangularROI.move_to"
    title = "the rectangle is translated by exactly (x, y) - old centre: the centre becomes (x, y), width, height and angle are unchanged"

    def inputs(self, cfg, P):
        xmin, xmax, ymin, ymax, x, y = z3.Reals('xmin xmax ymin ymax x y')
        roi = PObj('RectangularROI', fields=dict(xmin=xmin, xmax=xmax, ymin=ymin, ymax=ymax, theta='THETA'))
        for nm in ('center', 'width', 'height'):
            ft = FunctionText(ROI, 'RectangularROI.' + nm)
            roi.methods[nm] = (lambda I, self_, ft=ft: Interp(I.path, {}, Hooks(name=I.hooks.name), ft).run_function(ft, [self_], {}))
        st = St(roi=roi, old=(xmin, xmax, ymin, ymax), x=x, y=y)
        return Inputs([roi, x, y], st=st)

    def finish(self, cfg, st, P, outcome):
        qn = "RectangularROI.move_to[-]"
        f = st.roi.fields
        xmin, xmax, ymin, ymax = st.old
        dx, dy = st.x - (xmin + (xmax - xmin) / 2), st.y - (ymin + (ymax - ymin) / 2)
        P.check(qn + "/ensures:translated-by-the-displacement", z3.And(f['xmin'] == xmin + dx, f['xmax'] == xmax + dx, f['ymin'] == ymin + dy, f['ymax'] == ymax + dy))
        P.check(qn + "/ensures:centre-is-the-target", z3.And(f['xmin'] + (f['xmax'] - f['xmin']) / 2 == st.x, f['ymin'] + (f['ymax'] - f['ymin']) / 2 == st.y))
        P.check(qn + "/frame:angle-untouched", f['theta'] == 'THETA')


class CircleContains(FnContract):
    property_ids = ('C08', 'C09')
    target = ROI + ":CircularROI.contains"
    title = "contains(p) <=> |p - centre|^2 < r^2"

    def inputs(self, cfg, P):
        xc, yc, r, x, y = z3.Reals('xc yc radius x y')
        roi = PObj('CircularROI', fields=dict(xc=xc, yc=yc, radius=r))
        roi.methods['defined'] = lambda I, s_: True
        return Inputs([roi, x, y], st=St(xc=xc, yc=yc, r=r, x=x, y=y))

    def requires(self, cfg, st):
        return [('r>=0', st.r >= 0)]

    def globals_(self, cfg, st):
        return base_globals('general')

    def ensures(self, cfg, st, result):
        d2 = (st.x - st.xc) * (st.x - st.xc) + (st.y - st.yc) * (st.y - st.yc)
        return [('inside-iff-distance<radius', S.tobool(result) == (d2 < st.r * st.r))]


class AnnulusContains(FnContract):
    property_ids = ('C08',)
    target = ROI + ":CircularAnnulusROI.contains"
    title = "contains(p) <=> inner <= |p - centre| < outer"
    budget_s = 60

    def inputs(self, cfg, P):
        xc, yc, ri, ro, x, y = z3.Reals('xc yc inner outer x y')
        roi = PObj('CircularAnnulusROI', fields=dict(xc=xc, yc=yc, inner_radius=ri, outer_radius=ro))
        roi.methods['defined'] = lambda I, s_: True
        return Inputs([roi, x, y], st=St(xc=xc, yc=yc, ri=ri, ro=ro, x=x, y=y))

    def requires(self, cfg, st):
        return [('0<inner<outer', z3.And(st.ri > 0, st.ro > st.ri))]

    def globals_(self, cfg, st):
        return base_globals('general')

    def ensures(self, cfg, st, result):
        d2 = (st.x - st.xc) * (st.x - st.xc) + (st.y - st.yc) * (st.y - st.yc)
        return [('inside-iff-inner<=distance<outer', S.tobool(result) == z3.And(d2 >= st.ri * st.ri, d2 < st.ro * st.ro))]


class EllipseContains(FnContract):
    property_ids = ('C08',)
    target = ROI + ":EllipticalROI.contains"
    title = "off the boundary, contains(p) answers whether R(-theta)(p - centre) satisfies u^2/rx^2 + v^2/ry^2 < 1 (bounding-box pre-filter sound)"
    budget_s = 180

    def configs(self, tier):
        return [dict(angle=a) for a in ('axis-aligned', 'quarter-turn', 'general')]

    def inputs(self, cfg, P):
        xc, yc, rx, ry, x, y = z3.Reals('xc yc rx ry x y')
        c, s = z3.Reals('cos_theta sin_theta')
        roi = PObj('EllipticalROI', fields=dict(xc=xc, yc=yc, radius_x=rx, radius_y=ry, theta=Angle(c, s)))
        g = base_globals(cfg['angle'])
        roi.methods['defined'] = lambda I, s_: True
        ft = FunctionText(ROI, 'EllipticalROI.bounds')
        roi.methods['bounds'] = lambda I, self_: Interp(I.path, g, Hooks(name=I.hooks.name), ft).run_function(ft, [self_], {})
        return Inputs([roi, x, y], st=St(g=g, xc=xc, yc=yc, rx=rx, ry=ry, x=x, y=y, c=c, s=s))

    def requires(self, cfg, st):
        return [('rx>0', st.rx > 0), ('ry>0', st.ry > 0)] + angle_requires(cfg, st.c, st.s)

    def globals_(self, cfg, st):
        return st.g

    def ensures(self, cfg, st, result):
        dx, dy = st.x - st.xc, st.y - st.yc
        u, v = st.c * dx + st.s * dy, -st.s * dx + st.c * dy
        q = u * u * st.ry * st.ry + v * v * st.rx * st.rx
        one = st.rx * st.rx * st.ry * st.ry
        r = S.tobool(result)
        return [('strictly-inside=>True', z3.Implies(q < one, r)), ('strictly-outside=>False', z3.Implies(q > one, z3.Not(r)))]


class RangeContains(FnContract):
    property_ids = ('C08', 'C09')
    target = ROI + ":RangeROI.contains"
    title = "contains(p) <=> min < coordinate along the orientation < max (the other coordinate is ignored)"

    def configs(self, tier):
        return [dict(ori='x'), dict(ori='y')]

    def inputs(self, cfg, P):
        lo, hi, x, y = z3.Reals('lo hi x y')
        roi = PObj('RangeROI', fields=dict(min=lo, max=hi, ori=cfg['ori']))
        roi.methods['defined'] = lambda I, s_: True
        return Inputs([roi, x, y], st=St(lo=lo, hi=hi, x=x, y=y))

    def globals_(self, cfg, st):
        return base_globals('general')

    def ensures(self, cfg, st, result):
        coord = st.x if cfg['ori'] == 'x' else st.y
        return [('inside-iff-strictly-between', S.tobool(result) == z3.And(coord > st.lo, coord < st.hi))]


class RangeMoveTo(FnContract):
    property_ids = ('C08',)
    target = ROI + ":RangeROI.move_to"
    title = "the range is translated so that its centre is the target; its width is unchanged"

    def inputs(self, cfg, P):
        lo, hi, c = z3.Reals('lo hi new_center')
        roi = PObj('RangeROI', fields=dict(min=lo, max=hi, ori='x'))
        ft = FunctionText(ROI, 'RangeROI.center')
        roi.methods['center'] = lambda I, self_: Interp(I.path, {}, Hooks(name=I.hooks.name), ft).run_function(ft, [self_], {})
        return Inputs([roi, c], st=St(roi=roi, lo=lo, hi=hi, c=c))

    def finish(self, cfg, st, P, outcome):
        f = st.roi.fields
        P.check("RangeROI.move_to[-]/ensures:centre-is-the-target-width-kept",
                z3.And((f['min'] + f['max']) / 2 == st.c, f['max'] - f['min'] == st.hi - st.lo))


class SimpleMoveTo(FnContract):
    """CircularROI / CircularAnnulusROI / EllipticalROI.move_to: the centre becomes the target, radii and angle untouched"""
    property_ids = ('C08',)
    cls = 'CircularROI'
    others = ('radius',)

    def inputs(self, cfg, P):
        x, y = z3.Reals('x y')
        fields = dict(xc=z3.Real('xc'), yc=z3.Real('yc'))
        for o in self.others:
            fields[o] = z3.Real(o)
        roi = PObj(self.cls, fields=fields)
        return Inputs([roi, x, y], st=St(roi=roi, x=x, y=y, before=dict(fields)))

    def finish(self, cfg, st, P, outcome):
        f = st.roi.fields
        P.check("%s.move_to[-]/ensures:centre-is-the-target" % self.cls, z3.And(f['xc'] == st.x, f['yc'] == st.y))
        P.check("%s.move_to[-]/frame:size-and-angle-untouched" % self.cls, all(f[o] is st.before[o] for o in self.others) and set(f) == set(st.before))


def _mv(cls, others):
    return type(cls + 'MoveTo', (SimpleMoveTo,), dict(target=ROI + ":%s.move_to" % cls, cls=cls, others=others,
                                                      title="%s.move_to: centre becomes the target, nothing else changes" % cls))()


class RectTranspose(FnContract):
    property_ids = ('C08',)
    target = ROI + ":RectangularROI.transpose"
    title = "x and y limits are exchanged (in place, or on a copy leaving the original untouched)"

    def configs(self, tier):
        return [dict(copy=True), dict(copy=False)]

    def inputs(self, cfg, P):
        xmin, xmax, ymin, ymax = z3.Reals('xmin xmax ymin ymax')
        roi = PObj('RectangularROI', fields=dict(xmin=xmin, xmax=xmax, ymin=ymin, ymax=ymax))
        roi.methods['copy'] = lambda I, s_: PObj('RectangularROI', fields=dict(s_.fields))
        return Inputs([roi], {'copy': cfg['copy']}, st=St(roi=roi, v=(xmin, xmax, ymin, ymax)))

    def finish(self, cfg, st, P, outcome):
        qn = "RectangularROI.transpose[%s]" % self.cfg_name(cfg)
        xmin, xmax, ymin, ymax = st.v
        tgt = outcome[1] if cfg['copy'] else st.roi
        ok = isinstance(tgt, PObj)
        P.check(qn + "/ensures:a-rectangle", ok)
        if ok:
            f = tgt.fields
            P.check(qn + "/ensures:limits-exchanged", z3.And(f['xmin'] == ymin, f['xmax'] == ymax, f['ymin'] == xmin, f['ymax'] == xmax))
        if cfg['copy']:
            f = st.roi.fields
            P.check(qn + "/frame:original-untouched", tgt is not st.roi and f['xmin'] is xmin and f['xmax'] is xmax and f['ymin'] is ymin and f['ymax'] is ymax)



class RotateBy(FnContract):
    """Roi.rotate_by is inherited by every region that can be rotated"""
    property_ids = ('C08',)
    target = ROI + ":Roi.rotate_by"
    title = "rotates to exactly (current angle + dtheta) - 0 when the region has no angle yet - through one call of rotate_to, extra arguments passed on"

    def configs(self, tier):
        return [dict(has_theta=True), dict(has_theta=False)]

    def inputs(self, cfg, P):
        theta, dtheta = z3.Reals('theta dtheta')
        calls = []
        roi = PObj('Roi', fields=dict(theta=theta) if cfg['has_theta'] else {})
        roi.methods['rotate_to'] = lambda I, self_, *a, **k: calls.append((a, k))
        st = St(roi=roi, theta=theta if cfg['has_theta'] else z3.RealVal(0), dtheta=dtheta, calls=calls, center=PObj('center'))
        return Inputs([roi, dtheta], dict(center=st.center), st=st)

    def globals_(self, cfg, st):
        return {'numpy.pi': z3.RealVal('3.141592653589793')}

    def finish(self, cfg, st, P, outcome):
        qn = "Roi.rotate_by[%s]" % self.cfg_name(cfg)
        P.check(qn + "/does-not-raise", outcome[0] == 'return')
        ok = len(st.calls) == 1 and len(st.calls[0][0]) == 1
        P.check(qn + "/ensures:one-rotate_to-call-with-one-angle", ok)
        if ok:
            a = st.calls[0][0][0]
            P.check(qn + "/ensures:target-angle-is-current-angle-plus-dtheta", (a == st.theta + st.dtheta) if is_z3(a) else False)
            P.check(qn + "/ensures:extra-arguments-passed-on", st.calls[0][1].get('center') is st.center and set(st.calls[0][1]) == {'center'})



# =================================================================================================
# Projected3dROI.contains3d, element-wise: for an arbitrary element e of the (rank 1 or 2) coordinate arrays the returned mask holds
# INSIDE(sx, sy) of the 2-d region at the projected position of (x[e], y[e], z[e], 1) - every coordinate used with its own values -
# whatever the chunking.  iterate_chunks is used through its contract (C20: every element lies in exactly one chunk inside the array).
INSIDE = z3.Function('region_2d_contains', z3.RealSort(), z3.RealSort(), z3.BoolSort())
CASTF = z3.Function('value_after_cast_to_another_coordinate_dtype', z3.IntSort(), z3.RealSort(), z3.RealSort())


class Contains3d(FnContract):
    property_ids = ('C08',)
    target = ROI + ":Projected3dROI.contains3d"
    title = ("an undefined region raises; otherwise, for every element, the answer is the 2-d region's answer at the perspective projection of (x, y, z, 1) - each coordinate "
             "with its own values - independent of the chunking (iterate_chunks through its contract)")
    budget_s = 60

    def configs(self, tier):
        return [dict(ndim=1, defined=True), dict(ndim=2, defined=True), dict(ndim=1, defined=False)]

    def inputs(self, cfg, P):
        from pyvc.values import PSlice
        d = cfg['ndim']
        shape = tuple(z3.Int('n%d' % i) for i in range(d))
        e = tuple(z3.Int('e%d' % i) for i in range(d))
        M = [[z3.Real('m%d%d' % (i, j)) for j in range(4)] for i in range(4)]
        vals = {'x': z3.Real('x_e'), 'y': z3.Real('y_e'), 'z': z3.Real('z_e')}
        st = St(shape=shape, e=e, M=M, vals=vals, d=d, masks=[])
        P.ghost.update(cnt=0)

        def arr(name, k):
            a = PObj('coords', fields={'name': name, 'shape': shape, 'dtype': PObj('dtype', fields={'k': k})})

            def getitem(I, self_, key):
                if not (isinstance(key, tuple) and len(key) == d and all(isinstance(x, PSlice) for x in key)):
                    raise Unsupported("coordinate array indexed by %r" % (key,))
                return row(vals[name], key, k)
            a.methods['__getitem__'] = getitem
            return a

        def row(val, slices, k=None):
            r = PObj('row', fields={'val': val, 'slices': slices, 'dtype': PObj('dtype', fields={'k': k}), 'shape': (PObj('shape-of-chunk', fields={'slices': slices}),)})
            return r
        st.row = row
        roi2 = PObj('Roi2d')

        def contains(I, self_, sx, sy):
            ok = all(isinstance(v, PObj) and v.cls == 'row' for v in (sx, sy)) and sx.fields['slices'] is sy.fields['slices']
            I.path.check(I.hooks.name + "/call:roi_2d.contains-gets-screen-x-and-y-of-one-chunk", ok)
            if not ok:
                raise Unsupported("roi_2d.contains arguments")
            return PObj('inside', fields={'at_e': INSIDE(sx.fields['val'], sy.fields['val']), 'slices': sx.fields['slices']})
        roi2.methods['contains'] = contains
        roi = PObj('Projected3dROI', fields={'roi_2d': roi2, 'projection_matrix': PObj('matrix', fields={'M': M})})
        roi.methods['defined'] = lambda I, self_: cfg['defined']
        st.roi = roi
        return Inputs([roi, arr('x', 0), arr('y', 1), arr('z', 2)], st=st, symbols=dict(('n%d' % i, n) for i, n in enumerate(shape)))

    def requires(self, cfg, st):
        return [('extents>=1', S.And(*[n >= 1 for n in st.shape])), ('element-inside', S.And(*[S.And(0 <= x, x < n) for x, n in zip(st.e, st.shape)]))]

    raises = {'UndefinedROI': lambda cfg, st: not cfg['defined']}

    def globals_(self, cfg, st):
        from pyvc.interp import AbstractGen
        from pyvc.values import PSlice
        d, row = st.d, st.row

        def stack(rows):
            sk = PObj('stack', fields={'rows': list(rows)})

            def getitem(I, self_, key):
                rs = self_.fields['rows']
                if isinstance(key, int):
                    return rs[key]
                if isinstance(key, PSlice) and key.step is None and all(isinstance(v, (int, type(None))) for v in (key.start, key.stop)):
                    return stack(rs[key.start:key.stop])
                raise Unsupported("stack indexed by %r" % (key,))

            def setitem(I, self_, key, value):
                # writing one coordinate into a pre-allocated array converts it to that array's dtype
                if not (isinstance(key, int) and isinstance(value, PObj) and value.cls == 'row'):
                    raise Unsupported("stack[%r] = %r" % (key, value))
                tgt = self_.fields.get('dtype')
                same = tgt is None or tgt.fields['k'] is None or value.fields['dtype'].fields['k'] is None or tgt.fields['k'] == value.fields['dtype'].fields['k']
                v = value.fields['val'] if same else CASTF(tgt.fields['k'], value.fields['val'])
                self_.fields['rows'][key] = row(v, value.fields['slices'], tgt.fields['k'] if tgt is not None else value.fields['dtype'].fields['k'])

            def div(I, self_, other):
                if not (isinstance(other, PObj) and other.cls == 'row'):
                    raise Unsupported("stack / %r" % (other,))
                return stack([row(r.fields['val'] / other.fields['val'], r.fields['slices']) for r in self_.fields['rows']])
            sk.methods.update({'__getitem__': getitem, '__setitem__': setitem, '__truediv__': div, '__iter__': lambda I, self_: PList(list(self_.fields['rows']))})
            return sk

        def np_array(I, items, dtype=None):
            rows = list(I.iterate_concrete(items))
            if not all(isinstance(r, PObj) and r.cls == 'row' for r in rows):
                raise Unsupported("np.array of %r" % (rows,))
            # a list of arrays is promoted to a common dtype that holds every value (A-REAL)
            return stack(rows)

        def ones(I, shape, dtype=None):
            shape = tuple(shape) if isinstance(shape, tuple) else (shape,)
            toks = [t for t in shape if isinstance(t, PObj) and t.cls == 'shape-of-chunk']
            if len(toks) != 1:
                raise Unsupported("np.ones(%r)" % (shape,))
            sl = toks[0].fields['slices']
            k = dtype.fields['k'] if isinstance(dtype, PObj) and dtype.cls == 'dtype' else None
            lead = [t for t in shape if isinstance(t, int)]
            if not lead:
                return row(z3.RealVal(1), sl, k)
            sk = stack([row(z3.RealVal(1), sl, k) for _ in range(lead[0])])
            sk.fields['dtype'] = PObj('dtype', fields={'k': k})
            return sk

        def tensordot(I, a, b, axes=None):
            ok = isinstance(a, PObj) and a.cls == 'matrix' and isinstance(b, PObj) and b.cls == 'stack' and len(b.fields['rows']) == 4 and axes == (1, 0)
            I.path.check(I.hooks.name + "/call:projection-matrix-contracted-with-the-four-homogeneous-rows", ok)
            if not ok:
                raise Unsupported("tensordot arguments")
            rs = b.fields['rows']
            sl = rs[0].fields['slices']
            I.path.check(I.hooks.name + "/call:rows-of-one-chunk", all(r.fields['slices'] is sl for r in rs))
            M = a.fields['M']
            return stack([row(sum((M[i][j] * rs[j].fields['val'] for j in range(1, 4)), M[i][0] * rs[0].fields['val']), sl) for i in range(4)])

        def zeros(I, shape, dtype=None):
            ok = isinstance(shape, tuple) and len(shape) == d and all(a is b for a, b in zip(shape, st.shape))
            I.path.check(I.hooks.name + "/result-has-the-shape-of-x", ok)
            m = PObj('mask', fields={'at_e': z3.BoolVal(False)})

            def setitem(I2, self_, key, value):
                ok2 = isinstance(value, PObj) and value.cls == 'inside' and key is value.fields['slices']
                I2.path.check(I2.hooks.name + "/assign:answers-of-a-chunk-stored-at-that-chunk", ok2)
                if not ok2:
                    raise Unsupported("mask[%r] = %r" % (key, value))
                inside = S.And(*[S.And(s_.start <= x, x < s_.stop) for s_, x in zip(key, st.e)])
                self_.fields['at_e'] = S.If(inside, value.fields['at_e'], self_.fields['at_e'])
            m.methods['__setitem__'] = setitem
            st.masks.append(m)
            return m

        def chunks(I, shape, chunk_shape=None, n_max=None):
            shp = tuple(I.iterate_concrete(shape))
            ok = len(shp) == d and all(a is b for a, b in zip(shp, st.shape)) and (chunk_shape is None) != (n_max is None)
            I.path.check(I.hooks.name + "/call:iterate_chunks.requires:shape-of-x-and-one-of-chunk_shape-n_max", ok)
            if not ok:
                raise Unsupported("iterate_chunks call")
            if n_max is not None:
                I.path.check(I.hooks.name + "/call:iterate_chunks.requires:n_max>=1", n_max >= 1)

            def next_item(I2):
                P2 = I2.path
                sl = tuple(PSlice(P2.fresh_int('start%d' % i), P2.fresh_int('stop%d' % i), None) for i in range(d))
                P2.assume(S.And(*[S.And(0 <= s_.start, s_.start < s_.stop, s_.stop <= n) for s_, n in zip(sl, shp)]))
                inside = S.And(*[S.And(s_.start <= x, x < s_.stop) for s_, x in zip(sl, st.e)])
                P2.ghost['cnt'] = P2.ghost['cnt'] + S.If(inside, 1, 0)
                return sl

            def finish(I2):
                I2.path.assume(I2.path.ghost['cnt'] == 1)

            def havoc(I2):
                I2.path.ghost['cnt'] = I2.path.fresh_int('cnt')
            return AbstractGen(next_item, finish, havoc)
        return {'numpy.asarray': Builtin('np.asarray', lambda I, a, dtype=None: a), 'numpy.asanyarray': Builtin('np.asanyarray', lambda I, a, dtype=None: a),
                'numpy.array': Builtin('np.array', np_array), 'numpy.ones': Builtin('np.ones', ones), 'numpy.tensordot': Builtin('np.tensordot', tensordot),
                'numpy.zeros': Builtin('np.zeros', zeros), 'iterate_chunks': Builtin('iterate_chunks', chunks), 'UndefinedROI': PType('UndefinedROI'), 'bool': PType('bool')}

    def spec(self, st):
        M, v = st.M, st.vals
        h = [M[i][0] * v['x'] + M[i][1] * v['y'] + M[i][2] * v['z'] + M[i][3] * z3.RealVal(1) for i in range(4)]
        return INSIDE(h[0] / h[3], h[1] / h[3])

    def loops(self, cfg, st):
        from pyvc.interp import LoopSpec

        def inv(L):
            return [('cnt>=0', L.ghost['cnt'] >= 0),
                    ('element-answered-once-its-chunk-passed', S.Or(L.ghost['cnt'] < 1, L.mask.fields['at_e'] == self.spec(st)))]

        def on_iter(what, L):
            if what == 'havoc':
                L.mask.fields['at_e'] = L.interp.path.fresh('mask_at_e', z3.BoolSort())
        return {0: LoopSpec(inv=inv, on_iter=on_iter)}

    def ensures(self, cfg, st, result):
        ok = isinstance(result, PObj) and result.cls == 'mask' and len(st.masks) == 1
        if not ok:
            return [('returns-the-mask-array', False)]
        return [('returns-the-mask-array', True), ('answer-at-every-element-is-the-2d-region-at-its-projection', result.fields['at_e'] == self.spec(st))]

    def native(self, cfg, val):
        import os
        import sys
        import numpy as np
        sys.path.insert(0, os.environ.get('GLUE_REPO', '/repo'))
        from glue.core.roi import Projected3dROI, RectangularROI
        M = np.array([[1., 0, 0.2, 0], [0, 1., 0.1, 0], [0, 0, 1., 0], [0, 0, 0.05, 1.]])
        p = Projected3dROI(RectangularROI(-1.0, 1.5, -0.5, 2.0), M)
        rs = np.random.RandomState(0)
        n = 4000
        base = [rs.uniform(-3, 3, n) for _ in range(3)]
        for kinds in (('f8', 'f8', 'f8'), ('i8', 'f8', 'f8'), ('f4', 'f8', 'f8'), ('f8', 'i4', 'f8'), ('f8', 'f8', 'i2')):
            xs = [np.round(a * 3).astype(k) if k[0] == 'i' else a.astype(k) for a, k in zip(base, kinds)]
            got = np.asarray(p.contains3d(*xs))
            h = M @ np.vstack([a.astype(float) for a in xs] + [np.ones(n)])
            sx, sy = h[0] / h[3], h[1] / h[3]
            want = (sx > -1.0) & (sx < 1.5) & (sy > -0.5) & (sy < 2.0)
            far = (np.abs(sx + 1) > 1e-3) & (np.abs(sx - 1.5) > 1e-3) & (np.abs(sy + 0.5) > 1e-3) & (np.abs(sy - 2) > 1e-3)
            nb = int(np.sum((got != want) & far))
            if nb:
                return (False, "contains3d with coordinate dtypes %s/%s/%s: %d of %d points away from the boundary classified differently from the explicit projection of the same values" % (kinds + (nb, n)))
        return None

    def native_call(self, cfg, val):
        return "Projected3dROI(RectangularROI(-1, 1.5, -0.5, 2), perspective matrix).contains3d(x, y, z) with mixed coordinate dtypes"



# =================================================================================================
# CategoricalROI.contains, element-wise: labels are elements of a totally ordered set (Int), the selected categories a strictly increasing
# sequence C[0..n) (np.unique in update_categories).  np.searchsorted is used through its contract; the quantified facts (sortedness, the
# searchsorted postcondition) are instantiated by hand at the indices the argument needs.
CASTL = z3.Function('label_after_cast_to_the_dtype_of_the_categories', z3.IntSort(), z3.IntSort())


class CategoricalContains(FnContract):
    property_ids = ('C08', 'C09')
    target = ROI + ":CategoricalROI.contains"
    title = "an element is contained iff its label equals one of the selected categories (exact equality of the label as given); no categories: nothing is contained"
    budget_s = 30

    def configs(self, tier):
        return [dict(cats='some'), dict(cats='empty'), dict(cats='none')]

    def inputs(self, cfg, P):
        from pyvc.values import PSlice
        n = z3.Int('n_categories')
        C = z3.Array('categories', z3.IntSort(), z3.IntSort())
        v, w = z3.Int('label_of_the_element'), z3.Int('witness_index')
        st = St(n=n, C=C, v=v, w=w, idx=None)
        x = PObj('labels', fields={'val': v, 'shape': ('SHAPE',), 'dtype': PObj('dtype', fields={'of': 'labels'})})
        x.methods['__getitem__'] = lambda I, self_, key: self_
        x.methods['__eq__'] = lambda I, self_, o: (o.fields['val'] == self_.fields['val']) if isinstance(o, PObj) and 'val' in o.fields else False
        st.x = x
        cats = None
        if cfg['cats'] != 'none':
            cats = PObj('sorted-labels', fields={'dtype': PObj('dtype', fields={'of': 'categories'})})
            cats.methods['__len__'] = lambda I, self_: (0 if cfg['cats'] == 'empty' else n)

            def getitem(I, self_, key):
                if not (isinstance(key, PObj) and key.cls == 'index'):
                    raise Unsupported("categories[%r]" % (key,))
                r = PObj('labels', fields={'val': z3.Select(C, key.fields['val'])})
                r.methods['__eq__'] = lambda I2, a, b: a.fields['val'] == b.fields['val'] if isinstance(b, PObj) and 'val' in b.fields else False
                return r
            cats.methods['__getitem__'] = getitem
        roi = PObj('CategoricalROI', fields={'categories': cats})
        ft = FunctionText(ROI, 'CategoricalROI._categorical_helper')
        roi.methods['_categorical_helper'] = lambda I, self_, indata: Interp(I.path, I.globals, Hooks(name=I.hooks.name), ft).run_function(ft, [self_, indata], {})
        st.roi = roi
        return Inputs([roi, x, None], st=st)

    def requires(self, cfg, st):
        if cfg['cats'] != 'some':
            return []
        return [('at-least-one-category', st.n >= 1)]

    def globals_(self, cfg, st):
        n, C, v, w = st.n, st.C, st.v, st.w

        def searchsorted(I, cats, check, side='left'):
            ok = cats is st.roi.fields['categories'] and isinstance(check, PObj) and 'val' in check.fields and side == 'left'
            I.path.check(I.hooks.name + "/call:searchsorted(the-categories, the-labels)", ok)
            if not ok:
                raise Unsupported("searchsorted arguments")
            val = check.fields['val']
            i = I.path.fresh_int('insertion_index')
            st.idx = i
            P2 = I.path
            # contract of numpy.searchsorted on a sorted array: 0 <= i <= n, everything before i is smaller, everything from i on is not;
            # instantiated at the witness index and at i itself
            P2.assume(S.And(0 <= i, i <= n))
            for j in (w, i):
                P2.assume(S.Implies(S.And(0 <= j, j < i), z3.Select(C, j) < val))
                P2.assume(S.Implies(S.And(i <= j, j < n), z3.Select(C, j) >= val))
            # strictly increasing categories (np.unique), instantiated at (i, w) and (w, i)
            P2.assume(S.Implies(S.And(0 <= i, i < w, w < n), z3.Select(C, i) < z3.Select(C, w)))
            P2.assume(S.Implies(S.And(0 <= w, w < i, i < n), z3.Select(C, w) < z3.Select(C, i)))
            return PObj('index', fields={'val': i})

        def minimum(I, a, b):
            av = a.fields['val'] if isinstance(a, PObj) else a
            bv = b.fields['val'] if isinstance(b, PObj) else b
            return PObj('index', fields={'val': S.If(av <= bv, av, bv)})

        def asarray(I, a, dtype=None):
            if dtype is None or not (isinstance(a, PObj) and 'val' in a.fields):
                return a
            same = isinstance(dtype, PObj) and isinstance(a.fields.get('dtype'), PObj) and dtype.fields.get('of') == a.fields['dtype'].fields.get('of')
            r = PObj('labels', fields={'val': a.fields['val'] if same else CASTL(a.fields['val']), 'shape': a.fields.get('shape'), 'dtype': dtype})
            r.methods.update(a.methods)
            return r

        def zeros(I, shape, dtype=None):
            return PObj('all-false', fields={'at_e': z3.BoolVal(False), 'shape': shape})
        return {'numpy.searchsorted': Builtin('np.searchsorted', searchsorted), 'numpy.minimum': Builtin('np.minimum', minimum), 'numpy.asarray': Builtin('np.asarray', asarray),
                'numpy.asanyarray': Builtin('np.asanyarray', asarray), 'numpy.array': Builtin('np.array', asarray),
                'numpy.zeros': Builtin('np.zeros', zeros), 'CategoricalComponent': PType('CategoricalComponent'),
                'isinstance': Builtin('isinstance', lambda I, v_, t: False), 'bool': PType('bool')}

    def ensures(self, cfg, st, result):
        if cfg['cats'] != 'some':
            ok = isinstance(result, PObj) and result.cls == 'all-false' and result.fields['shape'] == ('SHAPE',)
            return [('no-categories:nothing-contained-and-shape-of-the-labels', ok)]
        if not is_z3(result):
            return [('answer-is-a-comparison-of-labels', False)]
        n, C, v, w = st.n, st.C, st.v, st.w
        i = st.idx
        k = S.If(i <= n - 1, i, n - 1) if i is not None else None
        out = [('answer-is-a-comparison-of-labels', i is not None)]
        if i is None:
            return out
        # soundness: a positive answer names a category equal to the label (the index looked at is a valid index)
        out.append(('contained=>the-label-is-one-of-the-categories', S.Implies(result, S.And(0 <= k, k < n, z3.Select(C, k) == v))))
        # completeness: if some category (at the arbitrary witness index) equals the label, the answer is positive
        out.append(('the-label-is-one-of-the-categories=>contained', S.Implies(S.And(0 <= w, w < n, z3.Select(C, w) == v), result)))
        return out

    def native(self, cfg, val):
        import os
        import sys
        import numpy as np
        sys.path.insert(0, os.environ.get('GLUE_REPO', '/repo'))
        from glue.core.roi import CategoricalROI
        for sel, values in ((['M', 'F'], ['M', 'Male', 'F', 'Fem', '']), (['ab', 'cd'], ['ab', 'abc', 'cd', 'cde', 'a']), (['b'], ['a', 'b', 'c'])):
            for x in (np.array(values), np.array(values, dtype=object), np.array(values, dtype='U12')):
                got = np.asarray(CategoricalROI(sel).contains(x, None))
                want = np.isin(np.asarray(x).astype(str), sel)
                if got.shape != want.shape or not np.array_equal(got, want):
                    return (False, "CategoricalROI(%r).contains(%r [%s]) = %s, exact label membership is %s" % (sel, values, x.dtype, got.astype(int).tolist(), want.astype(int).tolist()))
        return None

    def native_call(self, cfg, val):
        return "CategoricalROI(['M', 'F']).contains(array(['M', 'Male', 'F', 'Fem', '']), None)"



class CategoricalUpdate(FnContract):
    """representation invariant used by CategoricalContains: the categories held by a region are always the output of np.unique
    (strictly increasing, distinct) - established by update_categories, the only writer besides reset()"""
    property_ids = ('C08', 'C09')
    target = ROI + ":CategoricalROI.update_categories"
    title = "the categories held are np.unique (sorted, distinct) of exactly the labels given"

    def inputs(self, cfg, P):
        given = PObj('labels', fields={'desc': 'given'})
        given.methods['__getitem__'] = lambda I, self_, key: self_
        roi = PObj('CategoricalROI', fields={'categories': None})
        ft = FunctionText(ROI, 'CategoricalROI._categorical_helper')
        roi.methods['_categorical_helper'] = lambda I, self_, indata: Interp(I.path, I.globals, Hooks(name=I.hooks.name), ft).run_function(ft, [self_, indata], {})
        return Inputs([roi, given], st=St(roi=roi, given=given))

    def globals_(self, cfg, st):
        return {'numpy.unique': Builtin('np.unique', lambda I, a, **k: PObj('sorted-labels', fields={'unique-of': a, 'kw': k})),
                'CategoricalComponent': PType('CategoricalComponent'), 'isinstance': Builtin('isinstance', lambda I, v_, t: False)}

    def ensures(self, cfg, st, result):
        c = st.roi.fields['categories']
        return [('categories-are-np.unique-of-the-given-labels', isinstance(c, PObj) and c.cls == 'sorted-labels' and c.fields['unique-of'] is st.given and not c.fields['kw'])]


CONTRACTS = [RectContains(), RectToPolygon(), RectMoveTo(), RectTranspose(), CircleContains(), AnnulusContains(), EllipseContains(),
             RangeContains(), RangeMoveTo(), _mv('CircularROI', ('radius',)), _mv('CircularAnnulusROI', ('inner_radius', 'outer_radius')),
             _mv('EllipticalROI', ('radius_x', 'radius_y', 'theta')), RotateBy(), Contains3d(), CategoricalContains(), CategoricalUpdate()]
