"""C20 - sidecar contracts for glue/utils/array.py: find_chunk_shape, iterate_chunks, combine_slices.

Top-level postconditions come from the property statement:
  * chunks: every element is visited exactly once, no chunk larger than the limit;
  * combine_slices: the result selects, within the view, precisely the positions of the elements chosen by both.
"""
import itertools
import z3

from pyvc.verify import FnContract, Inputs, St, callee
from pyvc.interp import LoopSpec
from pyvc.values import PSlice, OptInt, PList, SeqBox
from pyvc import spec as S

ARRAY = "glue/utils/array.py"


def real(name):
    import importlib
    return getattr(importlib.import_module('glue.utils.array'), name)


# =================================================================================================
class FindChunkShape(FnContract):
    property_ids = ('C20', 'C10')
    target = ARRAY + ":find_chunk_shape"
    title = "chunk shape fits in the array, holds at most n_max elements, is maximal along the last axis"
    budget_s = 30

    def configs(self, tier):
        dims = (1, 2, 3) if tier == 'quick' else (1, 2, 3, 4)
        return [dict(ndim=d, n_max='int') for d in dims] + [dict(ndim=2, n_max='None')]

    def inputs(self, cfg, P):
        d = cfg['ndim']
        shape = tuple(z3.Int('shape%d' % i) for i in range(d))
        syms = {'shape%d' % i: s for i, s in enumerate(shape)}
        if cfg['n_max'] == 'None':
            return Inputs([shape, None], st=St(shape=shape, n_max=None), symbols=syms)
        n_max = z3.Int('n_max')
        syms['n_max'] = n_max
        return Inputs([shape, n_max], st=St(shape=shape, n_max=n_max), symbols=syms)

    # used as callee
    def bind_call(self, I, args, kwargs):
        shape = tuple(I.iterate_concrete(args[0]))
        n_max = args[1] if len(args) > 1 else kwargs.get('n_max')
        return dict(ndim=len(shape), n_max='None' if n_max is None else 'int'), St(shape=shape, n_max=n_max)

    def fresh_result(self, cfg, st, P):
        return tuple(P.fresh_int('chunk') for _ in st.shape)

    def requires(self, cfg, st):
        r = [('extent>=1[%d]' % i, s >= 1) for i, s in enumerate(st.shape)]
        if st.n_max is not None:
            r.append(('n_max>=1', st.n_max >= 1))
        return r

    def ensures(self, cfg, st, result):
        if not isinstance(result, tuple):
            return [('returns-tuple', False)]
        if st.n_max is None:
            return [('len', len(result) == len(st.shape)),
                    ('whole-shape', S.And(*[r == s for r, s in zip(result, st.shape)]))]
        out = [('len', len(result) == len(st.shape))]
        if len(result) != len(st.shape):
            return out
        out.append(('1<=chunk<=extent', S.And(*[S.And(1 <= r, r <= s) for r, s in zip(result, st.shape)])))
        out.append(('size<=n_max', S.prod(result) <= st.n_max))
        out.append(('last-axis-maximal', result[-1] == S.Min(st.shape[-1], st.n_max)))
        return out

    def native(self, cfg, val):
        d = cfg['ndim']
        shape = tuple(val['shape%d' % i] for i in range(d))
        n_max = None if cfg['n_max'] == 'None' else val['n_max']
        st = St(shape=shape, n_max=n_max)
        if not all(bool(c) for _, c in self.requires(cfg, st)):
            return None
        res = real('find_chunk_shape')(shape, n_max)
        bad = [lbl for lbl, c in self.ensures(cfg, st, res) if not bool(c)]
        return (not bad, "find_chunk_shape(%r, %r) -> %r violates %s" % (shape, n_max, res, bad))

    def native_call(self, cfg, val):
        d = cfg['ndim']
        return "find_chunk_shape(%r, %r)" % (tuple(val['shape%d' % i] for i in range(d)),
                                             None if cfg['n_max'] == 'None' else val['n_max'])


FIND_CHUNK_SHAPE = FindChunkShape()


# =================================================================================================
def passed(e, start, c, k):
    """the block of element e lies before `start` in iteration order (axis 0 fastest) - linear."""
    if k < 0:
        return False
    return S.Or(e[k] < start[k], S.And(start[k] <= e[k], e[k] < start[k] + c[k], passed(e, start, c, k - 1)))


def chunk_item_post(slices, shape, chunk):
    """Per-yield postconditions of iterate_chunks; checked at every yield of the real generator (IterateChunks.on_yield) and
    assumed for an arbitrary item where a caller is verified against this contract (contracts.c10_stats)."""
    return [("inside-array", S.And(*[S.And(0 <= s.start, s.start < s.stop, s.stop <= n) for s, n in zip(slices, shape)])),
            ("within-chunk-shape", S.And(*[s.stop - s.start <= c for s, c in zip(slices, chunk)])),
            ("whole-axis-when-chunk>=extent", S.And(*[S.Or(c < n, S.And(s.start == 0, s.stop == n)) for s, n, c in zip(slices, shape, chunk)]))]


class IterateChunks(FnContract):
    property_ids = ('C20', 'C10')
    target = ARRAY + ":iterate_chunks"
    title = "every element lies in exactly one yielded chunk; each chunk is inside the array and within the limit"
    budget_s = 30

    def configs(self, tier):
        dims = (1, 2, 3) if tier == 'quick' else (1, 2, 3, 4)
        out = []
        for d in dims:
            out.append(dict(ndim=d, mode='chunk_shape'))
            out.append(dict(ndim=d, mode='n_max'))
            out.append(dict(ndim=d, mode='empty'))
        out += [dict(ndim=2, mode='neither'), dict(ndim=2, mode='both'), dict(ndim=2, mode='len-mismatch')]
        return out

    def inputs(self, cfg, P):
        d, mode = cfg['ndim'], cfg['mode']
        shape = tuple(z3.Int('shape%d' % i) for i in range(d))
        syms = {'shape%d' % i: s for i, s in enumerate(shape)}
        st = St(shape=shape, chunk=None, n_max=None, e=None, mode=mode)
        P.ghost.update(count=0, nyield=0, chunk=None)
        if mode in ('chunk_shape', 'empty', 'both'):
            st.chunk = tuple(z3.Int('chunk%d' % i) for i in range(d))
            syms.update({'chunk%d' % i: s for i, s in enumerate(st.chunk)})
        if mode == 'len-mismatch':
            st.chunk = tuple(z3.Int('chunk%d' % i) for i in range(d + 1))
        if mode in ('n_max', 'both'):
            st.n_max = z3.Int('n_max')
            syms['n_max'] = st.n_max
        if mode in ('chunk_shape', 'n_max'):
            st.e = tuple(z3.Int('e%d' % i) for i in range(d))
            syms.update({'e%d' % i: s for i, s in enumerate(st.e)})
        return Inputs([shape], dict(chunk_shape=st.chunk, n_max=st.n_max), st=st, symbols=syms)

    def requires(self, cfg, st):
        r = [('extent>=0[%d]' % i, s >= 0) for i, s in enumerate(st.shape)]
        if st.chunk is not None:
            r += [('chunk>=1[%d]' % i, c >= 1) for i, c in enumerate(st.chunk)]
        if st.n_max is not None:
            r.append(('n_max>=1', st.n_max >= 1))
        if st.e is not None:
            r += [('element-in-array[%d]' % i, S.And(0 <= e, e < s)) for i, (e, s) in enumerate(zip(st.e, st.shape))]
        if st.mode == 'empty':
            r.append(('some-extent-0', S.Or(*[s == 0 for s in st.shape])))
        if st.mode in ('neither', 'both', 'len-mismatch'):
            r.append(('non-empty', S.And(*[s >= 1 for s in st.shape])))
        return r

    def globals_(self, cfg, st):
        return {'find_chunk_shape': callee(FIND_CHUNK_SHAPE)}

    def on_yield(self, cfg, st):
        def hook(I, slices, env):
            P = I.path
            qn = I.hooks.name
            g = P.ghost
            g['nyield'] = g['nyield'] + 1
            ok = isinstance(slices, tuple) and len(slices) == len(st.shape) and \
                all(isinstance(s, PSlice) and s.step is None for s in slices)
            P.check(qn + "/yield:tuple-of-unit-step-slices", ok)
            if not ok:
                return None
            chunk = env.get('chunk_shape')
            chunk = tuple(I.iterate_concrete(chunk))
            for lbl, c in chunk_item_post(slices, st.shape, chunk):
                P.check(qn + "/yield:" + lbl, c)
            if st.n_max is not None:
                P.check(qn + "/yield:size<=n_max", S.prod([s.stop - s.start for s in slices]) <= st.n_max)
            if st.e is not None:
                inside = S.And(*[S.And(s.start <= e, e < s.stop) for s, e in zip(slices, st.e)])
                g['count'] = g['count'] + S.If(inside, 1, 0)
            return None
        return hook

    def loops(self, cfg, st):
        d = cfg['ndim']
        if st.mode not in ('chunk_shape', 'n_max'):
            return {}

        def inv(L):
            start = L.start_index.items
            shape = L.shape.items
            chunk = tuple(L.interp.iterate_concrete(L.chunk_shape))
            return [('0<=start<extent', S.And(*[S.And(0 <= a, a < n) for a, n in zip(start, shape)])),
                    ('shape-unchanged', S.And(*[a == b for a, b in zip(shape, st.shape)])),
                    ('start==0-when-chunk>=extent', S.And(*[S.Or(c < n, a == 0) for a, n, c in zip(start, shape, chunk)])),
                    ('count==passed', L.ghost['count'] == S.If(passed(st.e, start, chunk, d - 1), 1, 0))]

        def dec(L):
            return tuple(L.shape.items[i] - L.start_index.items[i] for i in reversed(range(d)))

        def on_iter(what, L):
            if what == 'havoc':
                L.ghost['count'] = L.interp.path.fresh_int('count')
                L.ghost['nyield'] = L.interp.path.fresh_int('nyield')
        return {0: LoopSpec(inv=inv, decreases=dec, on_iter=on_iter)}

    @staticmethod
    def _value_error_allowed(cfg, st):
        if cfg['mode'] in ('neither', 'both', 'len-mismatch'):
            return True
        if cfg['mode'] in ('chunk_shape', 'empty'):
            return S.Or(*[c > s for c, s in zip(st.chunk, st.shape)])
        return False

    raises = {'ValueError': lambda cfg, st: IterateChunks._value_error_allowed(cfg, st)}

    def finish(self, cfg, st, P, outcome):
        qn = "%s[%s]" % (self.qualname, self.cfg_name(cfg))
        if outcome[0] != 'return':
            return
        if st.mode in ('chunk_shape', 'n_max'):
            P.check(qn + "/ensures:every-element-exactly-once", P.ghost['count'] == 1)
        elif st.mode == 'empty':
            P.check(qn + "/ensures:empty-array-no-chunks", P.ghost['nyield'] == 0)
        else:
            P.check(qn + "/ensures:argument-error-raises", False)

    # -- native: run the real generator and count
    def native(self, cfg, val):
        d, mode = cfg['ndim'], cfg['mode']
        shape = tuple(val['shape%d' % i] for i in range(d))
        chunk = tuple(val['chunk%d' % i] for i in range(d)) if mode in ('chunk_shape', 'empty') else None
        n_max = val.get('n_max') if mode == 'n_max' else None
        if any(s < 0 for s in shape) or (chunk and any(c < 1 for c in chunk)) or (n_max is not None and n_max < 1):
            return None
        if chunk and any(c > s for c, s in zip(chunk, shape)) and all(s > 0 for s in shape):
            return None
        if mode not in ('chunk_shape', 'n_max', 'empty'):
            return None
        import numpy as np
        if int(np.prod(shape)) > 200000:
            return None
        counts = np.zeros(shape, dtype=int)
        k = 0
        for sl in real('iterate_chunks')(shape, chunk_shape=chunk, n_max=n_max):
            k += 1
            if k > 100000:
                return (False, "iterate_chunks%r does not terminate" % ((shape, chunk, n_max),))
            sub = counts[sl]
            if n_max is not None and sub.size > n_max:
                return (False, "iterate_chunks(%r, n_max=%r): chunk %r has %d elements" % (shape, n_max, sl, sub.size))
            if chunk is not None and any(a > c for a, c in zip(sub.shape, chunk)):
                return (False, "iterate_chunks(%r, chunk_shape=%r): chunk %r too large" % (shape, chunk, sl))
            if any(s.start < 0 or s.stop > n or s.start >= s.stop for s, n in zip(sl, shape)):
                return (False, "iterate_chunks(%r, %r, %r): chunk %r outside array" % (shape, chunk, n_max, sl))
            counts[sl] += 1
        if not (counts == 1).all():
            return (False, "iterate_chunks(%r, chunk_shape=%r, n_max=%r): visit counts min %d max %d"
                    % (shape, chunk, n_max, counts.min() if counts.size else 0, counts.max() if counts.size else 0))
        return (True, '')

    def native_call(self, cfg, val):
        d = cfg['ndim']
        return "list(iterate_chunks(%r, chunk_shape=%r, n_max=%r))" % (
            tuple(val.get('shape%d' % i) for i in range(d)),
            tuple(val['chunk%d' % i] for i in range(d)) if 'chunk0' in val else None, val.get('n_max'))


ITERATE_CHUNKS = IterateChunks()


# =================================================================================================
class CombineSlices(FnContract):
    property_ids = ('C20', 'C04')
    target = ARRAY + ":combine_slices"
    title = "result selects, within the view slice1, precisely the positions of the elements chosen by both"
    budget_s = 30

    def configs(self, tier):
        m = 6 if tier == 'quick' else 12
        out = [dict(step1=a, step2=b) for a in range(1, m + 1) for b in range(1, m + 1)]
        out += [dict(step1='None', step2='None'), dict(step1='None', step2=3), dict(step1=2, step2='None')]
        out += [dict(step1=-1, step2=1), dict(step1=2, step2=-3)]
        return out

    def _slice(self, nm, step, syms):
        a = OptInt(z3.Bool(nm + '_start_is_none'), z3.Int(nm + '_start'))
        b = OptInt(z3.Bool(nm + '_stop_is_none'), z3.Int(nm + '_stop'))
        syms.update({nm + '_start_is_none': a.is_none, nm + '_start': a.val,
                     nm + '_stop_is_none': b.is_none, nm + '_stop': b.val})
        return PSlice(a, b, None if step == 'None' else step)

    def inputs(self, cfg, P):
        syms = {}
        s1 = self._slice('s1', cfg['step1'], syms)
        s2 = self._slice('s2', cfg['step2'], syms)
        n = z3.Int('length')
        j = z3.Int('j')
        syms['length'] = n
        syms['j'] = j
        return Inputs([s1, s2, n], st=St(s1=s1, s2=s2, n=n, j=j), symbols=syms)

    def requires(self, cfg, st):
        return [('length>=0', st.n >= 0)]

    raises = {'ValueError': lambda cfg, st: (cfg['step1'] != 'None' and cfg['step1'] < 0) or
              (cfg['step2'] != 'None' and cfg['step2'] < 0)}

    @staticmethod
    def steps(cfg):
        return (1 if cfg['step1'] == 'None' else cfg['step1']), (1 if cfg['step2'] == 'None' else cfg['step2'])

    def loops(self, cfg, st):
        a, b = self.steps(cfg)
        if a < 0 or b < 0:
            return {}
        L_ = S.lcm(a, b)

        def first_match(beg, beg1):
            """smallest x in {beg, beg+b, ...} with (x - beg1) % a == 0 within one period, or None-flag"""
            has, fm = False, beg
            for t in reversed(range(L_ // b)):
                x = beg + t * b
                m = S.mod(x - beg1, a) == 0
                fm = S.If(m, x, fm)
                has = S.Or(m, has)
            return has, fm

        def inv(L):
            idxs = L.indices
            ln = z3.Length(idxs.expr)
            has, fm = first_match(L.beg, L.beg1)
            return [('0<=len<2', S.And(ln >= 0, ln < 2)),
                    ('none-before', S.Implies(ln == 0, S.Or(S.Not(has), L.it <= fm))),
                    ('first-found', S.Implies(ln == 1, S.And(has, idxs.expr[0] == S.floordiv(fm - L.beg1, a),
                                                             fm < L.it, L.it <= fm + L_, fm < L.end)))]

        def dec(L):
            return L.end - L.it + b
        return {0: LoopSpec(inv=inv, decreases=dec, seq=('indices',))}

    def ensures(self, cfg, st, result):
        if not isinstance(result, PSlice):
            return [('returns-slice', False)]
        a, b = self.steps(cfg)
        n = st.n
        beg1, end1, _ = S.slice_indices(st.s1, n)
        beg2, end2, _ = S.slice_indices(st.s2, n)
        n1 = S.range_len(beg1, end1, a)
        rs = 1 if result.step is None else result.step
        out = [('result-step>=1', rs >= 1)]
        j = st.j
        in_view = S.And(0 <= j, j < n1)
        chosen_by_2 = S.in_range(beg1 + j * a, beg2, end2, b)
        Lc = S.lcm(a, b) // a       # distance, within the view, between consecutive common elements
        # the result's step is either the true period, or irrelevant because at most one position is selected
        rb, re_, _ = S.slice_indices(PSlice(result.start, result.stop, 1), n1)
        if isinstance(rs, int):
            sel = S.in_range(j, rb, re_, rs)
            out.append(('exact-positions', S.Implies(in_view, S.Iff(sel, chosen_by_2))))
        else:
            single = re_ <= rb + 1
            out.append(('step-is-period-or-single', S.Or(rs == Lc, single)))
            sel = S.If(single, S.And(rb <= j, j < re_), S.in_range(j, rb, re_, Lc))
            out.append(('exact-positions', S.Implies(S.And(in_view, S.Or(rs == Lc, single)), S.Iff(sel, chosen_by_2))))
        return out

    def native(self, cfg, val):
        def mk(nm, step):
            return slice(None if val[nm + '_start_is_none'] else val[nm + '_start'],
                         None if val[nm + '_stop_is_none'] else val[nm + '_stop'],
                         None if step == 'None' else step)
        s1, s2, n = mk('s1', cfg['step1']), mk('s2', cfg['step2']), val['length']
        return native_combine(s1, s2, n)

    def native_call(self, cfg, val):
        def mk(nm, step):
            return slice(None if val[nm + '_start_is_none'] else val[nm + '_start'],
                         None if val[nm + '_stop_is_none'] else val[nm + '_stop'],
                         None if step == 'None' else step)
        return "combine_slices(%r, %r, %r)" % (mk('s1', cfg['step1']), mk('s2', cfg['step2']), val['length'])


def native_combine(s1, s2, n):
    """property-level oracle on the real function: positions within range(n)[s1] of elements also in range(n)[s2]"""
    if n < 0 or n > 100000:
        return None
    neg = (s1.step is not None and s1.step < 0) or (s2.step is not None and s2.step < 0)
    try:
        res = real('combine_slices')(s1, s2, n)
    except ValueError as e:
        if neg:
            return (True, '')
        return (False, "combine_slices(%r, %r, %d) raised ValueError(%s)" % (s1, s2, n, e))
    if neg:
        return (False, "combine_slices(%r, %r, %d) accepted a negative step" % (s1, s2, n))
    view = range(n)[s1]
    sel2 = set(range(n)[s2])
    expect = [k for k, x in enumerate(view) if x in sel2]
    got = list(range(len(view))[res])
    if got != expect:
        return (False, "combine_slices(%r, %r, %d) -> %r selects view positions %r, expected %r"
                % (s1, s2, n, res, got[:10], expect[:10]))
    return (True, '')


COMBINE_SLICES = CombineSlices()

CONTRACTS = [FIND_CHUNK_SHAPE, ITERATE_CHUNKS, COMBINE_SLICES]
