"""C03 - the removal half of "links registered exactly while their attributes exist".

LinkManager drops the links that mention an attribute in reaction to the DataRemoveComponentMessage naming it (contract on
LinkManager._component_removed, contracts/c03_links.py).  For that to carry the property, Data.remove_component must announce *every*
attribute it removes - also the derived attributes that go because they depend on the removed one.  That is the contract proved for
C17 on the real Data.remove_component / Data._removed_derived_that_depend_on (contracts/c17_data.py: RemoveComponent); it is
discharged here again as an obligation of C03.
"""
from contracts.c17_data import RemoveComponent


class RemoveComponentAnnouncesAll(RemoveComponent):
    property_ids = ('C03',)


CONTRACTS = [RemoveComponentAnnouncesAll()]
