"""C05 - sidecar contracts for cache invalidation: clear_cache, _clear_subset_state_caches, Data.update_components,
CompositeSubsetState.move_to (the memoize wrapper itself is in c01_subset.py).

The cache-soundness argument: the invariant CI of memoize.wrapper (every entry equals the function's current value) must be
re-established by every mutator before anyone can read the cache again.  For the mutators of the repository that do
invalidate, the obligations are event-order obligations over a ghost event log:
    every write of component values / every move of a child region   happens-before   the clearing of the caches
    the clearing                                                      happens-before   any notification (listeners may evaluate masks)
    an exceptional exit has written nothing.
Mutators that never invalidate (attribute setters of selections, direct ROI edits) are enumerated from the source by the
[E]/[B] part (bounded/c05_cache.py) - one obligation per mutator.
"""
import z3

from pyvc.verify import FnContract, Inputs, St
from pyvc.values import PObj, PList, Builtin, PyRaise, ExcVal, PType, Unsupported, MapBox, is_z3
from pyvc import spec as S

Key = z3.DeclareSort('Key')
Value = z3.DeclareSort('Value')


def memo_fn(name, closed=True):
    f = PObj('function', fields={'name': name})
    f.closed = closed
    f.fields['__memoize_cache'] = MapBox(z3.Const('memo_arr_' + name, z3.ArraySort(Key, Value)),
                                         z3.Const('memo_dom_' + name, z3.ArraySort(Key, z3.BoolSort())))
    return f


class ClearCache(FnContract):
    property_ids = ('C05',)
    target = "glue/core/decorators.py:clear_cache"
    title = "empties the cache of a memoised function (no entry survives); silently ignores functions that are not memoised"

    def configs(self, tier):
        return [dict(memoised=True), dict(memoised=False)]

    def inputs(self, cfg, P):
        if cfg['memoised']:
            f = memo_fn('f')
        else:
            f = PObj('function')
            f.closed = True
        return Inputs([f], st=St(f=f, k=z3.Const('any_key', Key)))

    def finish(self, cfg, st, P, outcome):
        qn = "clear_cache[%s]" % self.cfg_name(cfg)
        P.check(qn + "/never-raises", outcome[0] == 'return')
        if cfg['memoised']:
            m = st.f.fields['__memoize_cache']
            P.check(qn + "/ensures:no-entry-survives", z3.Not(z3.Select(m.dom, st.k)))


class ClearAll(FnContract):
    """finite-universe class tree; which classes share a to_mask function (inheritance) is part of the configuration"""
    property_ids = ('C05',)
    target = "glue/core/data.py:_clear_subset_state_caches"
    title = "the cache of the to_mask of EVERY class in the SubsetState subclass tree is cleared (nested states are cached per class)"

    TREES = {
        'single': {'SubsetState': []},
        'chain': {'SubsetState': ['A'], 'A': ['B'], 'B': []},
        'bushy': {'SubsetState': ['A', 'B', 'C'], 'A': ['A1', 'A2'], 'B': [], 'C': ['C1'], 'A1': [], 'A2': ['A21'], 'A21': [], 'C1': []},
    }

    def configs(self, tier):
        return [dict(tree=t) for t in self.TREES]

    def inputs(self, cfg, P):
        tree = self.TREES[cfg['tree']]
        cleared = []
        classes = {}
        for name in tree:
            c = PObj('type', fields={'name': name, 'to_mask': PObj('function', fields={'owner': name})})
            classes[name] = c
        for name, kids in tree.items():
            classes[name].methods['__subclasses__'] = (lambda I, self_, kids=kids: PList([classes[k] for k in kids]))
        st = St(classes=classes, cleared=cleared)
        return Inputs([], st=st)

    def globals_(self, cfg, st):
        def clear_cache(I, f):
            st.cleared.append(f)
        return {'SubsetState': st.classes['SubsetState'], 'clear_cache': Builtin('clear_cache', clear_cache)}

    def finish(self, cfg, st, P, outcome):
        qn = "_clear_subset_state_caches[%s]" % self.cfg_name(cfg)
        P.check(qn + "/never-raises", outcome[0] == 'return')
        for name, c in st.classes.items():
            P.check(qn + "/ensures:cleared:" + name, any(f is c.fields['to_mask'] for f in st.cleared))


class ClearAllInSubsetModule(ClearAll):
    """the same clearing walk, as defined next to the selection classes and used by CompositeSubsetState.move_to"""
    target = "glue/core/subset.py:_clear_mask_caches"

    def finish(self, cfg, st, P, outcome):
        qn = "_clear_mask_caches[%s]" % self.cfg_name(cfg)
        P.check(qn + "/never-raises", outcome[0] == 'return')
        for name, c in st.classes.items():
            P.check(qn + "/ensures:cleared:" + name, any(f is c.fields['to_mask'] for f in st.cleared))


class UpdateComponents(FnContract):
    property_ids = ('C05', 'C17')
    target = "glue/core/data.py:Data.update_components"
    title = ("all new arrays are checked before any value is replaced; every replacement happens before the mask caches are cleared; "
             "the caches are cleared before listeners are notified; a rejected update changes nothing")

    def configs(self, tier):
        return [dict(n=n, keys=k, hub=h) for n in (1, 2, 3) for k in ('cid', 'component') for h in (True, False)]

    def inputs(self, cfg, P):
        n = cfg['n']
        events = []
        shape = z3.Const('data_shape', z3.DeclareSort('ShapeV'))
        comps, keys, arrays, oks = [], [], [], []
        for i in range(n):
            c = PObj('Component', fields={'_data': z3.Const('old_values_%d' % i, z3.DeclareSort('ArrV')), 'i': i})
            c.methods['data'] = ('__property__', lambda I, self_: self_.fields['_data'])
            c.methods['_data.setter'] = (lambda I, self_, v, i=i: (events.append(('write', i)), self_.fields.__setitem__('_data', v))[1])
            comps.append(c)
            ok = z3.Bool('shape_ok_%d' % i)
            oks.append(ok)
            arr = PObj('ndarray', fields={'shape': z3.If(ok, shape, z3.Const('other_shape_%d' % i, shape.sort())), 'i': i})
            arrays.append(arr)
            keys.append(PObj('ComponentID', fields={'i': i}) if cfg['keys'] == 'cid' else c)
        mapping = {k: a for k, a in zip(keys, arrays)}
        hub = None
        if cfg['hub']:
            hub = PObj('Hub')
            hub.methods['broadcast'] = lambda I, self_, msg: events.append(('broadcast', msg))
        data = PObj('Data', fields={'shape': shape, 'hub': hub})
        data.methods['get_component'] = lambda I, self_, cid: comps[cid.fields['i']]
        st = St(events=events, comps=comps, arrays=arrays, oks=oks, data=data, keys=keys, n=n)
        return Inputs([data, mapping], st=st, symbols={})

    def requires(self, cfg, st):
        return [('other-shape-differs', z3.And(*[z3.Const('other_shape_%d' % i, st.data.fields['shape'].sort()) != st.data.fields['shape']
                                                 for i in range(st.n)]))]

    def globals_(self, cfg, st):
        def b_isinstance(I, v, t):
            return isinstance(v, PObj) and v.cls == t.name

        def asarray(I, a):
            return a

        def which(a, b):
            for x in (a, b):
                if isinstance(x, PObj) and x.cls == 'ndarray':
                    return x.fields['i']
            raise Unsupported("comparison of unknown arrays")

        # a new array may be the very buffer the component already holds (edited in place by the caller): comparing the two then says
        # 'equal' whatever happened to the values since the masks were computed
        def array_equal(I, a, b, **kw):
            i = which(a, b)
            return S.Or(z3.Bool('same_buffer_%d' % i), z3.Bool('values_equal_%d' % i))

        def shares(I, a, b, **kw):
            return z3.Bool('same_buffer_%d' % which(a, b))

        def msg(I, sender, components_changed=None):
            return PObj('NumericalDataChangedMessage', fields={'sender': sender, 'components_changed': components_changed})
        return {'isinstance': Builtin('isinstance', b_isinstance), 'ComponentID': PType('ComponentID'),
                'numpy.asarray': Builtin('np.asarray', asarray), 'numpy.array_equal': Builtin('np.array_equal', array_equal),
                'numpy.shares_memory': Builtin('np.shares_memory', shares), 'numpy.may_share_memory': Builtin('np.may_share_memory', shares),
                'numpy.allclose': Builtin('np.allclose', array_equal), 'numpy.array_equiv': Builtin('np.array_equiv', array_equal),
                '_clear_subset_state_caches': Builtin('_clear', lambda I: st.events.append(('clear',))),
                'NumericalDataChangedMessage': Builtin('NumericalDataChangedMessage', msg)}

    raises = {'ValueError': lambda cfg, st: S.Not(S.And(*st.oks))}

    def finish(self, cfg, st, P, outcome):
        qn = "Data.update_components[%s]" % self.cfg_name(cfg)
        ev = st.events
        kinds = [e[0] for e in ev]
        if outcome[0] == 'raise':
            P.check(qn + "/raises:rejected-update-changes-nothing", 'write' not in kinds and 'broadcast' not in kinds)
            return
        P.check(qn + "/ensures:all-arrays-had-the-right-shape", S.And(*st.oks))
        # Whether component i has to be touched at all: not when the new array is a different buffer holding equal values (then nothing
        # observable changes); the same buffer handed in again is already in place but the masks computed from its earlier contents are
        # not valid any more.  (The unchanged code replaces, clears and notifies unconditionally, which satisfies all of this.)
        same = [z3.Bool('same_buffer_%d' % i) for i in range(st.n)]
        equal = [z3.Bool('values_equal_%d' % i) for i in range(st.n)]
        writes = [e[1] for e in ev if e[0] == 'write']
        P.check(qn + "/ensures:no-component-replaced-twice", len(writes) == len(set(writes)))
        for i, (c, a) in enumerate(zip(st.comps, st.arrays)):
            P.check(qn + "/ensures:values-stored(%d)" % i, True if c.fields['_data'] is a else S.Or(same[i], equal[i]))
        changed = S.Or(*[S.Or(same[i], S.Not(equal[i])) for i in range(st.n)])
        cleared = 'clear' in kinds and max([i for i, k in enumerate(kinds) if k == 'write'] + [-1]) < max(i for i, k in enumerate(kinds) if k == 'clear')
        P.check(qn + "/ensures:caches-cleared-after-the-last-write", True if cleared else S.Not(changed))
        if 'write' in kinds:
            P.check(qn + "/ensures:no-write-without-clearing-the-caches", cleared)
        if cfg['hub']:
            notified = kinds.count('broadcast') == 1 and 'clear' in kinds and kinds.index('clear') < kinds.index('broadcast')
            P.check(qn + "/ensures:listeners-notified-once-after-the-caches-are-cleared", True if notified else (S.Not(changed) if 'broadcast' not in kinds else False))
            m = [e[1] for e in ev if e[0] == 'broadcast']
            if m:
                cc = m[0].fields['components_changed']
                items = cc.items if isinstance(cc, PList) else []
                named = [any(x is k for x in items) for k in st.keys]
                P.check(qn + "/ensures:message-names-the-dataset-and-the-changed-components",
                        S.And(m[0].fields['sender'] is st.data, all(any(x is k for k in st.keys) for x in items),
                              *[True if named[i] else S.And(S.Not(same[i]), equal[i]) for i in range(st.n)]))
        else:
            P.check(qn + "/ensures:no-hub-no-notification", 'broadcast' not in kinds)


class CompositeMoveTo(FnContract):
    property_ids = ('C05', 'C08')
    target = "glue/core/subset.py:CompositeSubsetState.move_to"
    title = "every child's region is moved to the requested position and the memoised masks of all selection classes (own and enclosing composites') are invalidated"

    def configs(self, tier):
        return [dict(arity=1), dict(arity=2, centers='none'), dict(arity=2, centers='first-only')]

    def inputs(self, cfg, P):
        events = []
        x, y = z3.Real('new_x'), z3.Real('new_y')

        def child(tag, center):
            c = PObj('SubsetState')
            c.methods['center'] = lambda I, self_: center
            c.methods['move_to'] = lambda I, self_, *a: events.append(('move', tag, a))
            return c
        s1 = child(1, (z3.Real('c1x'), z3.Real('c1y')) if cfg.get('centers') == 'first-only' else None)
        s2 = child(2, None) if cfg['arity'] == 2 else None
        me = PObj('AndState', fields={'state1': s1, 'state2': s2})
        me.fields['to_mask'] = PObj('function', fields={'name': 'to_mask'})
        me.methods['__bool__'] = lambda I, self_: True
        for c in (s1, s2):
            if c is not None:
                c.methods['__bool__'] = lambda I, self_: True
        st = St(events=events, me=me, x=x, y=y)
        return Inputs([me, x, y], st=st)

    def globals_(self, cfg, st):
        # _clear_mask_caches is under its own contract (ClearAllInSubsetModule): every selection class's to_mask cache is cleared
        return {'clear_cache': Builtin('clear_cache', lambda I, f: st.events.append(('clear', f))),
                '_clear_mask_caches': Builtin('_clear_mask_caches', lambda I: st.events.append(('clear-all',)))}

    def finish(self, cfg, st, P, outcome):
        qn = "CompositeSubsetState.move_to[%s]" % self.cfg_name(cfg)
        P.check(qn + "/never-raises", outcome[0] == 'return')
        ev = st.events
        kinds = [e[0] for e in ev]
        moved = [e[1] for e in ev if e[0] == 'move']
        P.check(qn + "/ensures:every-child-moved-once", sorted(moved) == list(range(1, cfg['arity'] + 1)))
        P.check(qn + "/ensures:children-moved-to-the-requested-position",
                all(len(e[2]) == 2 and e[2][0] is st.x and e[2][1] is st.y for e in ev if e[0] == 'move'))
        # nothing can evaluate a selection between the moves and the return, so clearing before, between or after the moves is the same;
        # but the masks of *enclosing* composites (InvertState and MultiOrState memoise separately) were computed from this one as well:
        # invalidating only the composite's own memo is not enough
        P.check(qn + "/ensures:memoised-masks-of-all-selection-classes-invalidated", any(e[0] == 'clear-all' for e in ev))



class StateSetAttr(FnContract):
    """every attribute of a selection that to_mask reads is an instance attribute: re-assigning one must invalidate the memoised masks"""
    property_ids = ('C05',)
    target = "glue/core/subset.py:SubsetState.__setattr__"
    title = ("the value is stored; when the attribute existed before, every memoised mask is invalidated - unless old and new value are immutable plain values that are honestly "
             "equal; a comparison that is not an honest boolean (an attribute identifier against a number builds a selection; the very object edited in place equals itself; "
             "arrays refuse to be a truth value) never excuses the invalidation; the first assignment of an attribute (construction) invalidates nothing")

    KINDS = ('new-attribute', 'number-other', 'number-equal', 'identifier-for-number', 'same-object-edited-in-place', 'array')

    def configs(self, tier):
        return [dict(kind=k) for k in self.KINDS]

    def inputs(self, cfg, P):
        kind = cfg['kind']
        st = St(cleared=[], kind=kind)
        eq_number = z3.Bool('numbers_equal')

        def val(tag):
            v = PObj('value', fields={'tag': tag})

            def eq(I, a, b):
                if kind in ('number-other', 'number-equal'):
                    return kind == 'number-equal'
                if kind == 'identifier-for-number':
                    return PObj('InequalitySubsetState', methods={'__bool__': lambda I2, s_: True})     # ComponentID.__eq__(number): a selection, truthy
                if kind == 'same-object-edited-in-place':
                    return True
                if kind == 'array':
                    raise PyRaise(ExcVal('ValueError', ('The truth value of an array with more than one element is ambiguous',)))
                return False
            v.methods['__eq__'] = eq
            v.methods['__ne__'] = lambda I, a, b: (kind == 'number-other') if kind in ('number-other', 'number-equal') else (
                PObj('InequalitySubsetState', methods={'__bool__': lambda I2, s_: True}) if kind == 'identifier-for-number' else
                (False if kind == 'same-object-edited-in-place' else eq(I, a, b)))
            return v
        old = val('old')
        new = old if kind == 'same-object-edited-in-place' else val('new')
        d = {} if kind == 'new-attribute' else {'lo': old}
        state = PObj('SubsetState', fields={'__dict__': d})
        st.state, st.old, st.new, st.d = state, old, new, d
        return Inputs([state, 'lo', new], st=st)

    def globals_(self, cfg, st):
        def obj_setattr(I, cls_, obj, name, value):
            obj.fields['__dict__'][name] = value
        obj = PObj('class-object', fields={'name': 'object'}, methods={'__setattr__': obj_setattr})
        return {'_clear_mask_caches': Builtin('_clear_mask_caches', lambda I: st.cleared.append(len(st.d) and st.d.get('lo'))),
                'object': obj, 'numpy.array_equal': Builtin('np.array_equal', lambda I, a, b: True if st.kind in ('array', 'same-object-edited-in-place', 'number-equal') else False),
                'numpy.any': Builtin('np.any', lambda I, a: bool(a) if isinstance(a, bool) else True), 'numpy.all': Builtin('np.all', lambda I, a: bool(a) if isinstance(a, bool) else True)}

    def finish(self, cfg, st, P, outcome):
        qn = "SubsetState.__setattr__[%s]" % self.cfg_name(cfg)
        P.check(qn + "/does-not-raise", outcome[0] == 'return')
        P.check(qn + "/ensures:value-stored", st.d.get('lo') is st.new)
        k = cfg['kind']
        if k == 'new-attribute':
            P.check(qn + "/ensures:construction-invalidates-nothing", not st.cleared)
        elif k == 'number-equal':
            pass        # clearing or not clearing are both fine
        else:
            # (before or after the value is stored makes no difference: nothing can evaluate a selection in between)
            P.check(qn + "/ensures:memoised-masks-invalidated", len(st.cleared) >= 1)



class UpdateValuesFromData(FnContract):
    """the refresh of a dataset from another one announces removed and added attributes on the way (listeners may evaluate - and thereby
    memoise - selections inside those notifications, on values that are about to be replaced): the invalidation has to come after the
    last change"""
    property_ids = ('C05', 'C17')
    target = "glue/core/data.py:Data.update_values_from_data"
    title = ("attributes missing from the new data are removed, common ones get the new values, new ones are added, shape, label and coordinates are taken over; the memoised "
             "masks are invalidated after the last of these changes and before listeners are told that the values changed (once, iff there is a hub); "
             "non-unique names on either side are refused with nothing changed")

    def configs(self, tier):
        return [dict(old=o, new=n, hub=h) for o, n in (('abc', 'abc'), ('abc', 'ab'), ('ab', 'abd'), ('abc', 'bde'), ('a', 'a'), ('aab', 'ab'), ('ab', 'abb'))
                for h in (True, False)]

    def inputs(self, cfg, P):
        ev = []

        def mk(labels, name):
            cids = [PObj('ComponentID', fields={'label': l}) for l in labels]
            comps = {c: PObj('Component', fields={'_data': ('values', name, c.fields['label']), 'owner': name, 'label': c.fields['label']}) for c in cids}
            d = PObj('Data', fields={'_cids': list(cids), '_comps': comps, '_shape': ('shape', name), '_label': ('label', name), '_coords': ('coords', name), 'name': name})
            d.methods['components'] = ('__property__', lambda I, s: PList(list(s.fields['_cids'])))

            def by_label(s, l):
                m = [c for c in s.fields['_cids'] if c.fields['label'] == l]
                return m[0] if len(m) == 1 else None
            d.methods['find_component_id'] = lambda I, s, l: by_label(s, l)
            d.methods['get_component'] = lambda I, s, l: s.fields['_comps'][by_label(s, l) if isinstance(l, str) else l]
            return d
        me, other = mk(cfg['old'], 'self'), mk(cfg['new'], 'other')
        for c, comp in me.fields['_comps'].items():
            comp.methods['_data.setter'] = (lambda I, s, v: (ev.append(('change', 'values', s.fields['label'])), s.fields.__setitem__('_data', v))[1])

        def remove(I, s, cid):
            s.fields['_cids'] = [c for c in s.fields['_cids'] if c is not cid]
            ev.append(('change', 'remove', cid.fields['label'] if cid is not None else None))

        def add(I, s, comp, label):
            cid = PObj('ComponentID', fields={'label': label})
            s.fields['_cids'].append(cid)
            s.fields['_comps'][cid] = comp
            ev.append(('change', 'add', label))
            return cid
        me.methods['remove_component'] = remove
        me.methods['add_component'] = add
        me.methods['_shape.setter'] = lambda I, s, v: (ev.append(('change', 'shape', None)), s.fields.__setitem__('_shape', v))[1]
        me.methods['label'] = ('__property__', lambda I, s: s.fields['_label'])
        me.methods['label.setter'] = lambda I, s, v: (ev.append(('change', 'label', None)), s.fields.__setitem__('_label', v))[1]
        me.methods['coords'] = ('__property__', lambda I, s: s.fields['_coords'])
        me.methods['coords.setter'] = lambda I, s, v: (ev.append(('change', 'coords', None)), s.fields.__setitem__('_coords', v))[1]
        other.methods['label'] = ('__property__', lambda I, s: s.fields['_label'])
        other.methods['coords'] = ('__property__', lambda I, s: s.fields['_coords'])
        hub = None
        if cfg['hub']:
            hub = PObj('Hub')
            hub.methods['broadcast'] = lambda I, s, m: ev.append(('notify', m))
        me.fields['hub'] = hub
        st = St(me=me, other=other, ev=ev, cids0=list(me.fields['_cids']), data0={c: comp.fields['_data'] for c, comp in me.fields['_comps'].items()})
        return Inputs([me, other], st=st)

    def globals_(self, cfg, st):
        return {'_clear_subset_state_caches': Builtin('_clear', lambda I: st.ev.append(('clear',))),
                'NumericalDataChangedMessage': Builtin('NumericalDataChangedMessage', lambda I, sender, **k: PObj('NumericalDataChangedMessage', fields={'sender': sender}))}

    raises = {'ValueError': lambda cfg, st: len(set(cfg['old'])) != len(cfg['old']) or len(set(cfg['new'])) != len(cfg['new'])}

    def finish(self, cfg, st, P, outcome):
        qn = "Data.update_values_from_data[%s]" % self.cfg_name(cfg)
        ev = st.ev
        kinds = [e[0] for e in ev]
        me = st.me
        if outcome[0] == 'raise':
            P.check(qn + "/raises:refused-update-changes-nothing", not ev and me.fields['_cids'] == st.cids0)
            return
        old, new = cfg['old'], cfg['new']
        labels = [c.fields['label'] for c in me.fields['_cids']]
        P.check(qn + "/ensures:attributes-are-those-of-the-new-data(kept-ones-first-in-their-old-order)", labels == [l for l in old if l in new] + [l for l in new if l not in old])
        kept = [c for c in st.cids0 if c.fields['label'] in new]
        P.check(qn + "/ensures:identifiers-of-common-attributes-preserved", all(any(c is k for c in me.fields['_cids']) for k in kept))
        P.check(qn + "/ensures:common-attributes-hold-the-new-values", all(me.fields['_comps'][k].fields['_data'] == ('values', 'other', k.fields['label']) for k in kept))
        P.check(qn + "/ensures:shape-label-coordinates-taken-over", me.fields['_shape'] == ('shape', 'other') and me.fields['_label'] == ('label', 'other') and me.fields['_coords'] == ('coords', 'other'))
        changes = [i for i, k in enumerate(kinds) if k == 'change']
        clears = [i for i, k in enumerate(kinds) if k == 'clear']
        P.check(qn + "/ensures:memoised-masks-invalidated-after-the-last-change", bool(clears) and (not changes or clears[-1] > changes[-1]))
        notes = [i for i, k in enumerate(kinds) if k == 'notify']
        if cfg['hub']:
            P.check(qn + "/ensures:listeners-told-once-after-the-invalidation", len(notes) == 1 and bool(clears) and notes[0] > clears[-1] and (not changes or notes[0] > changes[-1])
                    and ev[notes[0]][1].cls == 'NumericalDataChangedMessage' and ev[notes[0]][1].fields['sender'] is me)
        else:
            P.check(qn + "/ensures:no-hub-no-notification", not notes)


CONTRACTS = [ClearCache(), ClearAll(), ClearAllInSubsetModule(), UpdateComponents(), CompositeMoveTo(), StateSetAttr(), UpdateValuesFromData()]
