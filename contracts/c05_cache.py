"""C05 - sidecar contracts for cache invalidation: clear_cache, _clear_subset_state_caches, Data.update_components,
CompositeSubsetState.move_to (the memoize wrapper itself is in c01_subset.py).

The cache-soundness argument: the invariant CI of memoize.wrapper (every entry equals the function's current value) must be
re-established by every mutator before anyone can read the cache again.  For the mutators of the repository that do
invalidate, the obligations are event-order obligations over a ghost event log:
    every write of component values / every move of a child region   happens-before   the clearing of the caches
    the clearing                                                      happens-before   any notification (listeners may evaluate masks)
    an exceptional exit has written nothing.
Mutators that never invalidate (attribute setters of selections, direct ROI edits) are enumerated from the source by the
[E]/[B] part (bounded/c05_cache.py) - one obligation per mutator.
"""
import z3

from pyvc.verify import FnContract, Inputs, St
from pyvc.values import PObj, PList, Builtin, PyRaise, ExcVal, PType, Unsupported, MapBox, is_z3
from pyvc import spec as S

Key = z3.DeclareSort('Key')
Value = z3.DeclareSort('Value')


def memo_fn(name, closed=True):
    f = PObj('function', fields={'name': name})
    f.closed = closed
    f.fields['__memoize_cache'] = MapBox(z3.Const('memo_arr_' + name, z3.ArraySort(Key, Value)),
                                         z3.Const('memo_dom_' + name, z3.ArraySort(Key, z3.BoolSort())))
    return f


class ClearCache(FnContract):
    property_ids = ('C05',)
    target = "glue/core/decorators.py:clear_cache"
    title = "empties the cache of a memoised function (no entry survives); silently ignores functions that are not memoised"

    def configs(self, tier):
        return [dict(memoised=True), dict(memoised=False)]

    def inputs(self, cfg, P):
        if cfg['memoised']:
            f = memo_fn('f')
        else:
            f = PObj('function')
            f.closed = True
        return Inputs([f], st=St(f=f, k=z3.Const('any_key', Key)))

    def finish(self, cfg, st, P, outcome):
        qn = "clear_cache[%s]" % self.cfg_name(cfg)
        P.check(qn + "/never-raises", outcome[0] == 'return')
        if cfg['memoised']:
            m = st.f.fields['__memoize_cache']
            P.check(qn + "/ensures:no-entry-survives", z3.Not(z3.Select(m.dom, st.k)))


class ClearAll(FnContract):
    """finite-universe class tree; which classes share a to_mask function (inheritance) is part of the configuration"""
    property_ids = ('C05',)
    target = "glue/core/data.py:_clear_subset_state_caches"
    title = "the cache of the to_mask of EVERY class in the SubsetState subclass tree is cleared (nested states are cached per class)"

    TREES = {
        'single': {'SubsetState': []},
        'chain': {'SubsetState': ['A'], 'A': ['B'], 'B': []},
        'bushy': {'SubsetState': ['A', 'B', 'C'], 'A': ['A1', 'A2'], 'B': [], 'C': ['C1'], 'A1': [], 'A2': ['A21'], 'A21': [], 'C1': []},
    }

    def configs(self, tier):
        return [dict(tree=t) for t in self.TREES]

    def inputs(self, cfg, P):
        tree = self.TREES[cfg['tree']]
        cleared = []
        classes = {}
        for name in tree:
            c = PObj('type', fields={'name': name, 'to_mask': PObj('function', fields={'owner': name})})
            classes[name] = c
        for name, kids in tree.items():
            classes[name].methods['__subclasses__'] = (lambda I, self_, kids=kids: PList([classes[k] for k in kids]))
        st = St(classes=classes, cleared=cleared)
        return Inputs([], st=st)

    def globals_(self, cfg, st):
        def clear_cache(I, f):
            st.cleared.append(f)
        return {'SubsetState': st.classes['SubsetState'], 'clear_cache': Builtin('clear_cache', clear_cache)}

    def finish(self, cfg, st, P, outcome):
        qn = "_clear_subset_state_caches[%s]" % self.cfg_name(cfg)
        P.check(qn + "/never-raises", outcome[0] == 'return')
        for name, c in st.classes.items():
            P.check(qn + "/ensures:cleared:" + name, any(f is c.fields['to_mask'] for f in st.cleared))


class ClearAllInSubsetModule(ClearAll):
    """the same clearing walk, as defined next to the selection classes and used by CompositeSubsetState.move_to"""
    target = "glue/core/subset.py:_clear_mask_caches"

    def finish(self, cfg, st, P, outcome):
        qn = "_clear_mask_caches[%s]" % self.cfg_name(cfg)
        P.check(qn + "/never-raises", outcome[0] == 'return')
        for name, c in st.classes.items():
            P.check(qn + "/ensures:cleared:" + name, any(f is c.fields['to_mask'] for f in st.cleared))


class UpdateComponents(FnContract):
    property_ids = ('C05', 'C17')
    target = "glue/core/data.py:Data.update_components"
    title = ("all new arrays are checked before any value is replaced; every replacement happens before the mask caches are cleared; "
             "the caches are cleared before listeners are notified; a rejected update changes nothing")

    def configs(self, tier):
        return [dict(n=n, keys=k, hub=h) for n in (1, 2, 3) for k in ('cid', 'component') for h in (True, False)]

    def inputs(self, cfg, P):
        n = cfg['n']
        events = []
        shape = z3.Const('data_shape', z3.DeclareSort('ShapeV'))
        comps, keys, arrays, oks = [], [], [], []
        for i in range(n):
            c = PObj('Component', fields={'_data': z3.Const('old_values_%d' % i, z3.DeclareSort('ArrV')), 'i': i})
            c.methods['data'] = ('__property__', lambda I, self_: self_.fields['_data'])
            c.methods['_data.setter'] = (lambda I, self_, v, i=i: (events.append(('write', i)), self_.fields.__setitem__('_data', v))[1])
            comps.append(c)
            ok = z3.Bool('shape_ok_%d' % i)
            oks.append(ok)
            arr = PObj('ndarray', fields={'shape': z3.If(ok, shape, z3.Const('other_shape_%d' % i, shape.sort())), 'i': i})
            arrays.append(arr)
            keys.append(PObj('ComponentID', fields={'i': i}) if cfg['keys'] == 'cid' else c)
        mapping = {k: a for k, a in zip(keys, arrays)}
        hub = None
        if cfg['hub']:
            hub = PObj('Hub')
            hub.methods['broadcast'] = lambda I, self_, msg: events.append(('broadcast', msg))
        data = PObj('Data', fields={'shape': shape, 'hub': hub})
        data.methods['get_component'] = lambda I, self_, cid: comps[cid.fields['i']]
        st = St(events=events, comps=comps, arrays=arrays, oks=oks, data=data, keys=keys, n=n)
        return Inputs([data, mapping], st=st, symbols={})

    def requires(self, cfg, st):
        return [('other-shape-differs', z3.And(*[z3.Const('other_shape_%d' % i, st.data.fields['shape'].sort()) != st.data.fields['shape']
                                                 for i in range(st.n)]))]

    def globals_(self, cfg, st):
        def b_isinstance(I, v, t):
            return isinstance(v, PObj) and v.cls == t.name

        def asarray(I, a):
            return a

        def which(a, b):
            for x in (a, b):
                if isinstance(x, PObj) and x.cls == 'ndarray':
                    return x.fields['i']
            raise Unsupported("comparison of unknown arrays")

        # a new array may be the very buffer the component already holds (edited in place by the caller): comparing the two then says
        # 'equal' whatever happened to the values since the masks were computed
        def array_equal(I, a, b, **kw):
            i = which(a, b)
            return S.Or(z3.Bool('same_buffer_%d' % i), z3.Bool('values_equal_%d' % i))

        def shares(I, a, b, **kw):
            return z3.Bool('same_buffer_%d' % which(a, b))

        def msg(I, sender, components_changed=None):
            return PObj('NumericalDataChangedMessage', fields={'sender': sender, 'components_changed': components_changed})
        return {'isinstance': Builtin('isinstance', b_isinstance), 'ComponentID': PType('ComponentID'),
                'numpy.asarray': Builtin('np.asarray', asarray), 'numpy.array_equal': Builtin('np.array_equal', array_equal),
                'numpy.shares_memory': Builtin('np.shares_memory', shares), 'numpy.may_share_memory': Builtin('np.may_share_memory', shares),
                'numpy.allclose': Builtin('np.allclose', array_equal), 'numpy.array_equiv': Builtin('np.array_equiv', array_equal),
                '_clear_subset_state_caches': Builtin('_clear', lambda I: st.events.append(('clear',))),
                'NumericalDataChangedMessage': Builtin('NumericalDataChangedMessage', msg)}

    raises = {'ValueError': lambda cfg, st: S.Not(S.And(*st.oks))}

    def finish(self, cfg, st, P, outcome):
        qn = "Data.update_components[%s]" % self.cfg_name(cfg)
        ev = st.events
        kinds = [e[0] for e in ev]
        if outcome[0] == 'raise':
            P.check(qn + "/raises:rejected-update-changes-nothing", 'write' not in kinds and 'broadcast' not in kinds)
            return
        P.check(qn + "/ensures:all-arrays-had-the-right-shape", S.And(*st.oks))
        # Whether component i has to be touched at all: not when the new array is a different buffer holding equal values (then nothing
        # observable changes); the same buffer handed in again is already in place but the masks computed from its earlier contents are
        # not valid any more.  (The unchanged code replaces, clears and notifies unconditionally, which satisfies all of this.)
        same = [z3.Bool('same_buffer_%d' % i) for i in range(st.n)]
        equal = [z3.Bool('values_equal_%d' % i) for i in range(st.n)]
        writes = [e[1] for e in ev if e[0] == 'write']
        P.check(qn + "/ensures:no-component-replaced-twice", len(writes) == len(set(writes)))
        for i, (c, a) in enumerate(zip(st.comps, st.arrays)):
            P.check(qn + "/ensures:values-stored(%d)" % i, True if c.fields['_data'] is a else S.Or(same[i], equal[i]))
        changed = S.Or(*[S.Or(same[i], S.Not(equal[i])) for i in range(st.n)])
        cleared = 'clear' in kinds and max([i for i, k in enumerate(kinds) if k == 'write'] + [-1]) < max(i for i, k in enumerate(kinds) if k == 'clear')
        P.check(qn + "/ensures:caches-cleared-after-the-last-write", True if cleared else S.Not(changed))
        if 'write' in kinds:
            P.check(qn + "/ensures:no-write-without-clearing-the-caches", cleared)
        if cfg['hub']:
            notified = kinds.count('broadcast') == 1 and 'clear' in kinds and kinds.index('clear') < kinds.index('broadcast')
            P.check(qn + "/ensures:listeners-notified-once-after-the-caches-are-cleared", True if notified else (S.Not(changed) if 'broadcast' not in kinds else False))
            m = [e[1] for e in ev if e[0] == 'broadcast']
            if m:
                cc = m[0].fields['components_changed']
                items = cc.items if isinstance(cc, PList) else []
                named = [any(x is k for x in items) for k in st.keys]
                P.check(qn + "/ensures:message-names-the-dataset-and-the-changed-components",
                        S.And(m[0].fields['sender'] is st.data, all(any(x is k for k in st.keys) for x in items),
                              *[True if named[i] else S.And(S.Not(same[i]), equal[i]) for i in range(st.n)]))
        else:
            P.check(qn + "/ensures:no-hub-no-notification", 'broadcast' not in kinds)


class CompositeMoveTo(FnContract):
    property_ids = ('C05', 'C08')
    target = "glue/core/subset.py:CompositeSubsetState.move_to"
    title = "every child's region is moved to the requested position and the memoised masks of all selection classes (own and enclosing composites') are invalidated"

    def configs(self, tier):
        return [dict(arity=1), dict(arity=2, centers='none'), dict(arity=2, centers='first-only')]

    def inputs(self, cfg, P):
        events = []
        x, y = z3.Real('new_x'), z3.Real('new_y')

        def child(tag, center):
            c = PObj('SubsetState')
            c.methods['center'] = lambda I, self_: center
            c.methods['move_to'] = lambda I, self_, *a: events.append(('move', tag, a))
            return c
        s1 = child(1, (z3.Real('c1x'), z3.Real('c1y')) if cfg.get('centers') == 'first-only' else None)
        s2 = child(2, None) if cfg['arity'] == 2 else None
        me = PObj('AndState', fields={'state1': s1, 'state2': s2})
        me.fields['to_mask'] = PObj('function', fields={'name': 'to_mask'})
        me.methods['__bool__'] = lambda I, self_: True
        for c in (s1, s2):
            if c is not None:
                c.methods['__bool__'] = lambda I, self_: True
        st = St(events=events, me=me, x=x, y=y)
        return Inputs([me, x, y], st=st)

    def globals_(self, cfg, st):
        # _clear_mask_caches is under its own contract (ClearAllInSubsetModule): every selection class's to_mask cache is cleared
        return {'clear_cache': Builtin('clear_cache', lambda I, f: st.events.append(('clear', f))),
                '_clear_mask_caches': Builtin('_clear_mask_caches', lambda I: st.events.append(('clear-all',)))}

    def finish(self, cfg, st, P, outcome):
        qn = "CompositeSubsetState.move_to[%s]" % self.cfg_name(cfg)
        P.check(qn + "/never-raises", outcome[0] == 'return')
        ev = st.events
        kinds = [e[0] for e in ev]
        moved = [e[1] for e in ev if e[0] == 'move']
        P.check(qn + "/ensures:every-child-moved-once", sorted(moved) == list(range(1, cfg['arity'] + 1)))
        P.check(qn + "/ensures:children-moved-to-the-requested-position",
                all(len(e[2]) == 2 and e[2][0] is st.x and e[2][1] is st.y for e in ev if e[0] == 'move'))
        # nothing can evaluate a selection between the moves and the return, so clearing before, between or after the moves is the same;
        # but the masks of *enclosing* composites (InvertState and MultiOrState memoise separately) were computed from this one as well:
        # invalidating only the composite's own memo is not enough
        P.check(qn + "/ensures:memoised-masks-of-all-selection-classes-invalidated", any(e[0] == 'clear-all' for e in ev))


CONTRACTS = [ClearCache(), ClearAll(), ClearAllInSubsetModule(), UpdateComponents(), CompositeMoveTo()]
