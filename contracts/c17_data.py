"""C17 / C14 - sidecar contracts for identifier bookkeeping of Data (glue/core/data.py):
find_component_id, update_id, reorder_components, remove_component + _removed_derived_that_depend_on.

Finite-universe expansion: a handful of component slots; which labels match, which derived attribute reads which
attribute (the dependency relation), and where the old identifier sits are symbolic / enumerated.
"""
import itertools
import z3

from pyvc.verify import FnContract, Inputs, St
from pyvc.interp import Interp, Hooks
from pyvc.values import PObj, PList, Builtin, PyRaise, ExcVal, PType, Unsupported
from pyvc.extract import FunctionText
from pyvc import spec as S

DATA = "glue/core/data.py"


def _isinstance(I, v, t):
    ts = t if isinstance(t, tuple) else (t,)
    return any(isinstance(v, PObj) and (v.cls == getattr(x, 'name', None) or getattr(x, 'name', None) in v.fields.get('__bases__', ())) for x in ts)


class FindComponentID(FnContract):
    property_ids = ('C17',)
    target = DATA + ":Data.find_component_id"
    title = ("lookup by name returns the unique match of the first category (main > derived > coordinate > linked) that has a match, "
             "and nothing when that category has several or no category has any")

    def configs(self, tier):
        sizes = [(2, 1, 1, 1), (1, 2, 2, 0), (0, 0, 2, 2), (2, 2, 0, 1)]
        return [dict(sizes=''.join(map(str, s)), by=b) for s in sizes for b in ('label', 'id')]

    def inputs(self, cfg, P):
        cats = []
        match = []
        target = PObj('ComponentID', fields={'label': 'TARGET'})
        for ci, n in enumerate(int(c) for c in cfg['sizes']):
            row, mrow = [], []
            for j in range(n):
                m = z3.Bool('match_%d_%d' % (ci, j))
                c = PObj('ComponentID', fields={'ci': ci, 'j': j})
                c.methods['label'] = ('__property__', lambda I, self_, m=m: _Lab(m))
                row.append(c)
                mrow.append(m)
            cats.append(row)
            match.append(mrow)
        d = PObj('Data', fields={'_externally_derivable_components': PObj('dict', methods={'__iter__': lambda I, s: PList(list(cats[3]))})})
        d.methods['main_components'] = ('__property__', lambda I, s: PList(list(cats[0])))
        d.methods['derived_components'] = ('__property__', lambda I, s: PList(list(cats[1])))
        d.methods['coordinate_components'] = ('__property__', lambda I, s: PList(list(cats[2])))
        label = 'the-name' if cfg['by'] == 'label' else target
        st = St(cats=cats, match=match, target=target, by=cfg['by'])
        return Inputs([d, label], st=st)

    def globals_(self, cfg, st):
        def b_isinstance(I, v, t):
            return isinstance(v, PObj) and v.cls == 'ComponentID'

        def b_list(I, v):
            return PList(I.iterate_concrete(v))
        return {'isinstance': Builtin('isinstance', b_isinstance), 'ComponentID': PType('ComponentID'), 'list': Builtin('list', b_list)}

    def ensures(self, cfg, st, result):
        if st.by == 'id':
            # identity lookup: the target object is in no category here
            return [('unknown-identifier=>nothing', result is None)]
        out = []
        exp_cases = []
        none_before = True
        for ci, (row, mrow) in enumerate(zip(st.cats, st.match)):
            cnt = sum([S.If(m, 1, 0) for m in mrow]) if mrow else 0
            for j, c in enumerate(row):
                exp_cases.append((S.And(none_before, cnt == 1, mrow[j]), c))
            none_before = S.And(none_before, cnt == 0)
        if result is None:
            out.append(('nothing-only-when-no-unique-first-match', S.Not(S.Or(*[c for c, _ in exp_cases])) if exp_cases else True))
        else:
            out.append(('the-unique-match-of-the-first-matching-category', S.Or(*[cnd for cnd, obj in exp_cases if obj is result]) if
                        any(obj is result for _, obj in exp_cases) else False))
        return out


class _Lab:
    """a label whose equality with the looked-up name is a symbolic Bool"""

    def __init__(self, m):
        self.m = m


_orig_equal = Interp.equal


def _equal(self, a, b):
    if isinstance(a, _Lab) and isinstance(b, str):
        return a.m
    if isinstance(b, _Lab) and isinstance(a, str):
        return b.m
    return _orig_equal(self, a, b)


Interp.equal = _equal


def _ordered_dict(I, pairs=()):
    d = {}
    for k, v in I.iterate_concrete(pairs):
        d[k] = v
    return d


class UpdateID(FnContract):
    property_ids = ('C17', 'C14')
    target = DATA + ":Data.update_id"
    title = ("the new identifier takes the old one's place (same position, same component), pixel/world lists follow, derived attributes reading the old "
             "identifier read the new one, one ComponentReplacedMessage iff something changed, nothing when new is old")

    def configs(self, tier):
        return [dict(n=n, pos=p, hub=h) for n in (1, 3) for p in list(range(n)) + ['absent', 'pixel', 'same'] for h in (True, False)]

    def inputs(self, cfg, P):
        n = cfg['n']
        keys = [PObj('ComponentID', fields={'k': i, 'parent': 'owner'}) for i in range(n)]
        comps = []
        replaced = []
        for i in range(n):
            link = PObj('ComponentLink', methods={'replace_ids': (lambda I, s, o, nw, i=i: replaced.append((i, o, nw)))})
            c = PObj('DerivedComponent' if i == n - 1 and n > 1 else 'Component', fields={'link': link, 'i': i})
            comps.append(c)
        old = keys[cfg['pos']] if isinstance(cfg['pos'], int) else PObj('ComponentID', fields={'k': 'old', 'parent': 'owner'})
        new = old if cfg['pos'] == 'same' else PObj('ComponentID', fields={'k': 'new', 'parent': None})
        pix = PList([PObj('PixelComponentID', fields={'k': 'p0'})])
        if cfg['pos'] == 'pixel':
            pix.items[0] = old
        events = []
        hub = None
        if cfg['hub']:
            hub = PObj('Hub', methods={'broadcast': lambda I, s, m: events.append(m), '__bool__': lambda I, s: True})
        d = PObj('Data', fields={'_components': dict(zip(keys, comps)), '_pixel_component_ids': pix, '_world_component_ids': PList([]), 'hub': hub})
        st = St(d=d, keys=keys, comps=comps, old=old, new=new, events=events, replaced=replaced, pix0=list(pix.items))
        return Inputs([d, old, new], st=st)

    def globals_(self, cfg, st):
        def msg(I, sender, o, n):
            return PObj('ComponentReplacedMessage', fields={'sender': sender, 'old': o, 'new': n})
        return {'OrderedDict': Builtin('OrderedDict', _ordered_dict), 'ComponentReplacedMessage': Builtin('ComponentReplacedMessage', msg),
                'isinstance': Builtin('isinstance', _isinstance), 'DerivedComponent': PType('DerivedComponent')}

    def finish(self, cfg, st, P, outcome):
        qn = "Data.update_id[%s]" % self.cfg_name(cfg)
        P.check(qn + "/does-not-raise", outcome[0] == 'return')
        comps = st.d.fields['_components']
        ok_dict = isinstance(comps, dict)
        P.check(qn + "/ensures:components-still-a-mapping", ok_dict)
        if not ok_dict:
            return
        keys = list(comps.keys())
        pos = cfg['pos']
        if pos == 'same':
            P.check(qn + "/ensures:same-identifier=>nothing-happens", keys == st.keys and not st.events and not st.replaced)
            return
        exp = list(st.keys)
        if isinstance(pos, int):
            exp[pos] = st.new
        P.check(qn + "/ensures:order-kept-with-new-in-old's-place", len(keys) == len(exp) and all(a is b for a, b in zip(keys, exp)))
        P.check(qn + "/ensures:components-keep-their-values", all(comps[k] is c for k, c in zip(keys, st.comps)) if len(keys) == len(st.comps) else False)
        P.check(qn + "/ensures:new-identifier-adopted-by-the-dataset", st.new.fields['parent'] is st.d)
        pix = st.d.fields['_pixel_component_ids'].items
        P.check(qn + "/ensures:pixel-list-follows", (pix[0] is st.new) if pos == 'pixel' else (pix[0] is st.pix0[0]))
        changed = isinstance(pos, int) or pos == 'pixel'
        if cfg['hub']:
            P.check(qn + "/ensures:one-replaced-message-iff-changed",
                    len(st.events) == (1 if changed else 0) and all(e.cls == 'ComponentReplacedMessage' and e.fields['sender'] is st.d and
                                                                    e.fields['old'] is st.old and e.fields['new'] is st.new for e in st.events))
        if isinstance(pos, int) and cfg['n'] > 1:
            P.check(qn + "/ensures:derived-attributes-re-pointed-to-the-new-identifier",
                    any(i == cfg['n'] - 1 and o is st.old and nw is st.new for i, o, nw in st.replaced))
        P.check(qn + "/frame:stored-components-are-not-re-pointed-unless-derived", all(i == cfg['n'] - 1 and cfg['n'] > 1 for i, o, nw in st.replaced))


class ReorderComponents(FnContract):
    property_ids = ('C17',)
    target = DATA + ":Data.reorder_components"
    title = "same set of identifiers (by identity) in the requested order, components unchanged; one message iff the order changed; ValueError for any other list"

    PERMS = {'same': (0, 1, 2), 'rev': (2, 1, 0), 'rot': (1, 2, 0), 'short': (0, 1), 'dup': (0, 0, 1), 'foreign': (0, 1, 'x')}

    def configs(self, tier):
        return [dict(order=o, hub=h) for o in self.PERMS for h in (True, False)]

    def inputs(self, cfg, P):
        keys = [PObj('ComponentID', fields={'k': i}) for i in range(3)]
        comps = [PObj('Component', fields={'i': i}) for i in range(3)]
        events = []
        hub = PObj('Hub', methods={'broadcast': lambda I, s, m: events.append(m), '__bool__': lambda I, s: True}) if cfg['hub'] else None
        d = PObj('Data', fields={'_components': dict(zip(keys, comps)), 'hub': hub})
        d.methods['components'] = ('__property__', lambda I, s: PList(list(s.fields['_components'].keys())))
        foreign = PObj('ComponentID', fields={'k': 'x'})
        arg = PList([keys[i] if isinstance(i, int) else foreign for i in self.PERMS[cfg['order']]])
        return Inputs([d, arg], st=St(d=d, keys=keys, comps=comps, events=events, arg=list(arg.items)))

    def globals_(self, cfg, st):
        def b_id(I, o):
            return id(o)

        def b_set(I, it):
            return tuple(sorted(set(I.iterate_concrete(it))))

        def msg(I, sender, ids):
            return PObj('DataReorderComponentMessage', fields={'sender': sender, 'ids': ids})
        return {'OrderedDict': Builtin('OrderedDict', _ordered_dict), 'id': Builtin('id', b_id), 'set': Builtin('set', b_set),
                'DataReorderComponentMessage': Builtin('DataReorderComponentMessage', msg)}

    raises = {'ValueError': lambda cfg, st: cfg['order'] in ('short', 'dup', 'foreign')}

    def finish(self, cfg, st, P, outcome):
        qn = "Data.reorder_components[%s]" % self.cfg_name(cfg)
        comps = st.d.fields['_components']
        keys = list(comps.keys())
        if outcome[0] == 'raise':
            P.check(qn + "/raises:nothing-changed", all(a is b for a, b in zip(keys, st.keys)) and not st.events)
            return
        P.check(qn + "/ensures:only-a-permutation-is-accepted", cfg['order'] in ('same', 'rev', 'rot'))
        P.check(qn + "/ensures:requested-order", len(keys) == len(st.arg) and all(a is b for a, b in zip(keys, st.arg)))
        P.check(qn + "/ensures:components-unchanged", all(comps[k] is st.comps[k.fields['k']] for k in keys))
        if cfg['hub']:
            P.check(qn + "/ensures:one-message-iff-order-changed", len(st.events) == (0 if cfg['order'] == 'same' else 1))


class RemoveComponent(FnContract):
    """dependency closure: removing an attribute removes exactly the derived attributes that depend on it, directly or transitively"""
    property_ids = ('C14', 'C17')
    target = DATA + ":Data.remove_component"
    title = ("removes the attribute and every derived attribute that depends on it directly or transitively, and nothing else; "
             "one remove message per removed attribute; an unknown identifier changes nothing")

    def configs(self, tier):
        return [dict(k=k, hub=h, present=p) for k in (0, 1, 2, 3) for h in (True, False) for p in (True,)] + [dict(k=2, hub=True, present=False)]

    def inputs(self, cfg, P):
        k = cfg['k']
        base = [PObj('ComponentID', fields={'name': 'x'}), PObj('ComponentID', fields={'name': 'y'})]
        derived = [PObj('ComponentID', fields={'name': 'd%d' % i}) for i in range(k)]
        everything = base + derived
        # dep[i][j]: derived i reads attribute j (j over base + derived); arbitrary relation
        dep = [[z3.Bool('d%d_reads_%s' % (i, c.fields['name'])) for c in everything] for i in range(k)]
        comps = {}
        for c in base:
            comps[c] = PObj('Component')
        for i, c in enumerate(derived):
            link = PObj('ComponentLink')
            link.methods['get_from_ids'] = (lambda I, s, i=i: _SymMembers(everything, dep[i]))
            # ComponentLink.__contains__ is "one of the inputs, or the target"; the target of the link stored under an attribute may be any
            # attribute (one expression object can be registered under two names), so it is an arbitrary relation too - what an
            # attribute *depends on* are the inputs only
            tgt = [z3.Bool('link_of_d%d_targets_%s' % (i, c2.fields['name'])) for c2 in everything]
            link.methods['__contains__'] = (lambda I, s, c, i=i, tgt=tgt: S.Or(next((f for u, f in zip(everything, dep[i]) if u is c), False),
                                                                              next((f for u, f in zip(everything, tgt) if u is c), False)))
            # the target the link object itself names: usually the identifier it is registered under, but one expression object may be
            # registered under two names, registered under a name of its own with an anonymous target, or target a stored attribute -
            # decided by branching (own identifier, any other attribute, or an identifier outside the dataset)
            def get_to_id(I, s, i=i):
                cands = [derived[i]] + [u for u in everything if u is not derived[i]]
                for j, u in enumerate(cands):
                    if I.path.branch(z3.Bool('link_object_of_d%d_names_candidate_%d_as_target' % (i, j))):
                        return u
                return PObj('ComponentID', fields={'name': 'outside'})
            link.methods['get_to_id'] = get_to_id
            comps[c] = PObj('DerivedComponent', fields={'link': link})
        events = []
        hub = PObj('Hub', methods={'broadcast': lambda I, s, m: events.append(m), '__bool__': lambda I, s: True}) if cfg['hub'] else None
        d = PObj('Data', fields={'_components': comps, 'hub': hub})
        d.methods['derived_components'] = ('__property__', lambda I, s: PList([c for c in derived if c in s.fields['_components']]))
        d.methods['get_component'] = lambda I, s, cid: s.fields['_components'][cid]
        d.methods['derived_links'] = ('__property__', lambda I, s: PList([s.fields['_components'][c].fields['link'] for c in derived if c in s.fields['_components']]))
        ft_rc = FunctionText(DATA, 'Data.remove_component')
        ft_rd = FunctionText(DATA, 'Data._removed_derived_that_depend_on')

        def mk(ft):
            def m(I, self_, *a):
                sub = Interp(I.path, I.globals, Hooks(name=I.hooks.name), ft)
                return sub.run_function(ft, [self_] + list(a), {})
            return m
        d.methods['remove_component'] = mk(ft_rc)
        d.methods['_removed_derived_that_depend_on'] = mk(ft_rd)
        target = base[0] if cfg['present'] else PObj('ComponentID', fields={'name': 'ghost'})
        st = St(d=d, base=base, derived=derived, everything=everything, dep=dep, events=events, target=target)
        return Inputs([d, target], st=st)

    def globals_(self, cfg, st):
        def msg(kind):
            return Builtin(kind, lambda I, sender, cid=None: PObj(kind, fields={'sender': sender, 'cid': cid}))
        return {'DataRemoveComponentMessage': msg('DataRemoveComponentMessage'), 'ComponentsChangedMessage': msg('ComponentsChangedMessage')}

    def finish(self, cfg, st, P, outcome):
        qn = "Data.remove_component[%s]" % self.cfg_name(cfg)
        P.check(qn + "/does-not-raise", outcome[0] == 'return')
        left = st.d.fields['_components']
        if not cfg['present']:
            P.check(qn + "/ensures:unknown-identifier-changes-nothing", len(left) == 2 + cfg['k'] and not st.events)
            return
        k = cfg['k']
        # transitive dependents of x: least fixed point, k rounds suffice
        idx = {id(c): j for j, c in enumerate(st.everything)}
        gone = [j == 0 for j in range(len(st.everything))]           # x is attribute 0
        for _ in range(k + 1):
            new = list(gone)
            for i in range(k):
                new[2 + i] = S.Or(gone[2 + i], *[S.And(st.dep[i][j], gone[j]) for j in range(len(st.everything))])
            gone = new
        for j, c in enumerate(st.everything):
            present = c in left
            P.check(qn + "/ensures:removed-iff-it-is-the-attribute-or-depends-on-it(%s)" % c.fields['name'], S.Iff(not present, gone[j]))
        if cfg['hub']:
            removed_msgs = [e.fields['cid'] for e in st.events if e.cls == 'DataRemoveComponentMessage']
            P.check(qn + "/ensures:one-remove-message-per-removed-attribute",
                    len(removed_msgs) == len(set(map(id, removed_msgs))) == (2 + k - len(left)) and all(c not in left for c in removed_msgs))
            # listeners that only follow ComponentsChangedMessage must hear of the change after the last removal (once is enough; the
            # unchanged code announces it after every removal)
            kinds = [e.cls for e in st.events]
            P.check(qn + "/ensures:components-changed-announced-after-the-last-removal",
                    (not removed_msgs) or ('ComponentsChangedMessage' in kinds and
                                           max(i for i, k in enumerate(kinds) if k == 'ComponentsChangedMessage') > max(i for i, k in enumerate(kinds) if k == 'DataRemoveComponentMessage')))
        else:
            P.check(qn + "/ensures:no-hub-no-message", not st.events)



class AddComponent(FnContract):
    """registration and announcement of a new attribute"""
    property_ids = ('C17',)
    target = DATA + ":Data.add_component"
    title = ("an incompatible component is refused with nothing changed; otherwise the component is stored under the given identifier, or under a new identifier "
             "made from the given name (also when the name is already in use), every other attribute is untouched, and the addition of an identifier that was "
             "not present is announced (add message naming it, then components-changed) iff there is a hub; re-assigning a present identifier is silent")

    def configs(self, tier):
        return [dict(label=l, hub=h, compatible=c) for l in ('name-fresh', 'name-in-use', 'id-new', 'id-present') for h in (True, False) for c in (True, False)]

    def inputs(self, cfg, P):
        events = []
        hub = PObj('Hub', methods={'broadcast': lambda I, s, m: events.append(m), '__bool__': lambda I, s: True}) if cfg['hub'] else None
        old = [PObj('ComponentID', fields={'label': 'x', 'parent': 'DATA'}), PObj('ComponentID', fields={'label': 'y', 'parent': 'DATA'})]
        comps = {c: PObj('Component', fields={'__bases__': ('Component',), 'tag': 'old-%s' % c.fields['label']}) for c in old}
        d = PObj('Data', fields={'_components': comps, 'hub': hub, '_shape': PObj('shape', fields={'desc': 'shape'})})
        d.methods['_check_can_add'] = lambda I, s, c: cfg['compatible']
        d.methods['shape'] = ('__property__', lambda I, s: s.fields['_shape'])
        d.methods['_create_pixel_and_world_components'] = lambda I, s, **k: events.append('created-coordinates')
        ids = PObj('ComponentIDList')
        ids.methods['__contains__'] = lambda I, s, x: (any(k.fields['label'] == x for k in d.fields['_components']) if isinstance(x, str) else any(k is x for k in d.fields['_components']))
        d.methods['component_ids'] = lambda I, s: ids
        d.methods['find_component_id'] = lambda I, s, x: next((k for k in d.fields['_components'] if k.fields['label'] == x), None)
        comp = PObj('Component', fields={'__bases__': ('Component',), 'tag': 'new', 'shape': d.fields['_shape'], 'ndim': 1})
        label = {'name-fresh': 'z', 'name-in-use': 'x', 'id-new': PObj('ComponentID', fields={'label': 'w', 'parent': None}), 'id-present': old[1]}[cfg['label']]
        st = St(d=d, old=old, comps0=dict(comps), comp=comp, label=label, events=events, made=[])
        return Inputs([d, comp, label], st=st)

    def globals_(self, cfg, st):
        def b_isinstance(I, v, t):
            ts = t if isinstance(t, tuple) else (t,)

            def nm(x):
                return x.fields.get('name') if isinstance(x, PObj) else getattr(x, 'name', None)
            return any(isinstance(v, PObj) and (v.cls == nm(x) or nm(x) in v.fields.get('__bases__', ())) for x in ts)

        def mk_cid(I, label, parent=None):
            c = PObj('ComponentID', fields={'label': label, 'parent': parent})
            st.made.append(c)
            return c

        def msg(kind):
            return Builtin(kind, lambda I, sender, cid=None: PObj(kind, fields={'sender': sender, 'cid': cid}))
        g = {'isinstance': Builtin('isinstance', b_isinstance), 'ComponentLink': PType('ComponentLink'), 'Component': PType('Component'),
             'DerivedComponent': PType('DerivedComponent'), 'ComponentID': PType('ComponentID'),
             'DataAddComponentMessage': msg('DataAddComponentMessage'), 'ComponentsChangedMessage': msg('ComponentsChangedMessage')}
        # ComponentID is both a class (isinstance) and a constructor
        g['ComponentID'] = PObj('class', fields={'name': 'ComponentID'}, methods={'__call__': lambda I, self_, *a, **k: mk_cid(I, *a, **k)})
        return g

    raises = {'ValueError': lambda cfg, st: not cfg['compatible']}

    def finish(self, cfg, st, P, outcome):
        qn = "Data.add_component[%s]" % self.cfg_name(cfg)
        comps = st.d.fields['_components']
        kinds = [e.cls if isinstance(e, PObj) else e for e in st.events]
        if outcome[0] == 'raise':
            P.check(qn + "/raises:refused-component-changes-nothing", len(comps) == 2 and all(comps[k] is v for k, v in st.comps0.items()) and not kinds)
            return
        P.check(qn + "/ensures:compatible", cfg['compatible'])
        cid = outcome[1]
        ok = isinstance(cid, PObj) and cid.cls == 'ComponentID'
        P.check(qn + "/ensures:returns-an-identifier", ok)
        if not ok:
            return
        P.check(qn + "/ensures:component-stored-under-the-returned-identifier", any(k is cid for k in comps) and comps[cid] is st.comp)
        was_present = any(cid is k for k in st.comps0)
        if cfg['label'] in ('name-fresh', 'name-in-use'):
            P.check(qn + "/ensures:a-name-makes-a-new-identifier-with-that-name-owned-by-the-dataset",
                    (not was_present) and cid.fields['label'] == st.label and cid.fields['parent'] is st.d)
        else:
            P.check(qn + "/ensures:a-given-identifier-is-used-as-is", cid is st.label and (cid.fields['parent'] is st.d or cfg['label'] == 'id-present'))
        P.check(qn + "/ensures:number-of-attributes", len(comps) == (2 if was_present else 3))
        P.check(qn + "/frame:other-attributes-untouched", all(any(k is k0 for k in comps) and (comps[k0] is v or k0 is cid) for k0, v in st.comps0.items()))
        if cfg['hub'] and not was_present:
            ms = [e for e in st.events if isinstance(e, PObj)]
            P.check(qn + "/ensures:addition-announced(add-message-naming-it-then-components-changed)",
                    [m.cls for m in ms] == ['DataAddComponentMessage', 'ComponentsChangedMessage'] and ms[0].fields['cid'] is cid and all(m.fields['sender'] is st.d for m in ms))
        else:
            P.check(qn + "/ensures:nothing-announced", not [e for e in st.events if isinstance(e, PObj)])



class UpdateWorldComponents(FnContract):
    """replacement of the world-coordinate attributes when a dataset gets (other) coordinates"""
    property_ids = ('C17', 'C15')
    target = DATA + ":Data._update_world_components"
    title = ("every previous world attribute is removed (through remove_component, hence announced) and leaves the world list; with coordinates exactly one new world attribute per "
             "axis is added, in axis order, and the coordinate links are rebuilt afterwards; without coordinates the world list ends empty; all of it inside one delay block of the hub")

    def configs(self, tier):
        return [dict(old=o, ndim=n, coords=c) for o in (0, 1, 2, 3) for n in (1, 2, 3) for c in (True, False)]

    def inputs(self, cfg, P):
        ev = []
        old = [PObj('ComponentID', fields={'name': 'old-world-%d' % i}) for i in range(cfg['old'])]
        hub = PObj('Hub')
        hub.methods['delay_callbacks'] = lambda I, s: ('__cm__', lambda: ev.append(('delay', 'open')), lambda exc: ev.append(('delay', 'close')))
        d = PObj('Data', fields={'_world_component_ids': PList(list(old)), 'hub': hub, 'coords': PObj('coords') if cfg['coords'] else None,
                                 '_pixel_component_ids': PList([])})
        d.methods['remove_component'] = lambda I, s, cid: ev.append(('remove', cid))

        def add(I, s, comp, label):
            cid = PObj('ComponentID', fields={'name': label})
            ev.append(('add', comp, cid))
            return cid
        d.methods['add_component'] = add
        d.methods['_set_up_coordinate_component_links'] = lambda I, s, n: ev.append(('links', n, list(s.fields['_world_component_ids'].items)))
        st = St(d=d, ev=ev, old=old)
        return Inputs([d, cfg['ndim']], st=st)

    def globals_(self, cfg, st):
        return {'CoordinateComponent': Builtin('CoordinateComponent', lambda I, data, axis, world=False: PObj('CoordinateComponent', fields={'data': data, 'axis': axis, 'world': world})),
                'axis_label': Builtin('axis_label', lambda I, coords, i: ('label-of-axis', i)),
                'settings': PObj('settings', fields={'AUTO_COMPUTE_COORDS_LINKS': True})}

    def finish(self, cfg, st, P, outcome):
        qn = "Data._update_world_components[%s]" % self.cfg_name(cfg)
        P.check(qn + "/does-not-raise", outcome[0] == 'return')
        ev = st.ev
        now = st.d.fields['_world_component_ids']
        items = now.items if isinstance(now, PList) else None
        P.check(qn + "/ensures:world-list-is-a-list", items is not None)
        if items is None:
            return
        removed = [e[1] for e in ev if e[0] == 'remove']
        P.check(qn + "/ensures:every-previous-world-attribute-removed-exactly-once", len(removed) == len(st.old) and all(any(r is o for r in removed) for o in st.old))
        P.check(qn + "/ensures:no-previous-world-attribute-left-in-the-world-list", not any(x is o for x in items for o in st.old))
        adds = [e for e in ev if e[0] == 'add']
        if cfg['coords']:
            ok = len(adds) == cfg['ndim'] and all(a[1].cls == 'CoordinateComponent' and a[1].fields['axis'] == i and a[1].fields['world'] is True and a[1].fields['data'] is st.d
                                                    and a[2].fields['name'] == ('label-of-axis', i) for i, a in enumerate(adds))
            P.check(qn + "/ensures:one-new-world-attribute-per-axis-in-axis-order", ok)
            P.check(qn + "/ensures:world-list-is-exactly-the-new-attributes-in-axis-order", len(items) == len(adds) and all(x is a[2] for x, a in zip(items, adds)))
            links = [e for e in ev if e[0] == 'links']
            P.check(qn + "/ensures:coordinate-links-rebuilt-once-from-the-complete-new-list",
                    len(links) == 1 and links[0][1] == cfg['ndim'] and len(links[0][2]) == len(adds) and all(x is a[2] for x, a in zip(links[0][2], adds)))
        else:
            P.check(qn + "/ensures:no-coordinates-no-world-attributes", not adds and not items and not [e for e in ev if e[0] == 'links'])
        kinds = [e[0] for e in ev]
        P.check(qn + "/ensures:all-changes-inside-one-delay-block", kinds.count('delay') == 2 and ev[0] == ('delay', 'open') and ev[-1] == ('delay', 'close'))


class _SymMembers(PObj):
    """a list of identifiers with symbolic membership (result of link.get_from_ids())"""

    def __init__(self, universe, flags):
        PObj.__init__(self, 'id-list')
        self.universe, self.flags = universe, flags
        self.methods['__contains__'] = lambda I, s, c: next((f for u, f in zip(universe, flags) if u is c), False)
        # iteration decides the membership of each candidate on the current path (a flag already decided has one feasible side)
        self.methods['__iter__'] = lambda I, s: PList([u for u, f in zip(universe, flags) if I.path.branch(f)])


CONTRACTS = [FindComponentID(), UpdateID(), ReorderComponents(), RemoveComponent(), AddComponent(), UpdateWorldComponents()]
