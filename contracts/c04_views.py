"""C04 - sidecar contracts for the two pieces of view handling that are integer/slice arithmetic:

  SliceSubsetState.to_mask    for a view made of slices and integers (possibly shorter than ndim), Ellipsis or None:
                              the mask, at an ARBITRARY position of the view, is True  <=>  the element of the full array that
                              this position denotes lies in every slice of the selection.  All extents, slice bounds and the
                              position are symbolic; rank (1, 2) and the slice steps (1..3) are structure configurations.
                              combine_slices is used through its C20 contract (modular), not its body.
  IndexedData._to_original_view   the view on the parent has the fixed indices in their places and the entries of the given view,
                              in order, in the free dimensions (missing entries = whole axis), for None / Ellipsis / bare / short / full views.
Everything else on the C04 path is numpy indexing code: bounded stand-in.
"""
import itertools
import z3

from pyvc.verify import FnContract, Inputs, St
from pyvc.values import PObj, PList, PSlice, OptInt, Builtin, PyRaise, ExcVal, PType, Unsupported, is_z3
from pyvc import spec as S
from contracts.c20_array import COMBINE_SLICES

SUB = "glue/core/subset.py"
DD = "glue/core/data_derived.py"


def sym_slice(nm, step):
    return PSlice(OptInt(z3.Bool(nm + '_start_none'), z3.Int(nm + '_start')), OptInt(z3.Bool(nm + '_stop_none'), z3.Int(nm + '_stop')), step)


class SliceToMask(FnContract):
    property_ids = ('C04',)
    target = SUB + ":SliceSubsetState.to_mask"
    title = "mask(view)[j] is True iff the element that position j of the view denotes lies in every slice of the selection (slices/integers/short tuples/Ellipsis/None)"
    budget_s = 60

    VIEWS = {1: ['none', 'ellipsis', 's', 'i', 'bare-s', 'bare-i'], 2: ['none', 'ss', 'si', 'is', 's-', 'i-', 'ii']}

    def configs(self, tier):
        steps = (1, 2, 3) if tier == 'quick' else (1, 2, 3, 4)
        out = []
        for nd in (1, 2):
            for vk in self.VIEWS[nd]:
                if nd == 1:
                    for a in steps:
                        for b in (steps if 's' in vk else (1,)):
                            out.append(dict(ndim=1, view=vk, sel_steps=str(a), view_steps=str(b)))
                else:
                    for a, b in ((1, 1), (2, 1), (1, 3), (2, 2)):
                        for c in ((1, 2) if 's' in vk else (1,)):
                            out.append(dict(ndim=2, view=vk, sel_steps='%d%d' % (a, b), view_steps='%d%d' % (c, 1)))
        return out

    def inputs(self, cfg, P):
        nd = cfg['ndim']
        shape = tuple(z3.Int('n%d' % i) for i in range(nd))
        sel = [sym_slice('sel%d' % i, int(cfg['sel_steps'][i])) for i in range(nd)]
        vk = cfg['view']
        ventries = []
        vsteps = [int(c) for c in cfg['view_steps'].ljust(nd, '1')]
        kinds = {'none': None, 'ellipsis': Ellipsis}.get(vk, vk)
        if kinds is None or kinds is Ellipsis:
            view = kinds
            per_axis = ['-'] * nd
        else:
            chars = vk.replace('bare-', '')
            per_axis = list(chars.ljust(nd, '-'))
            for i, ch in enumerate(chars):
                if ch == 's':
                    ventries.append(sym_slice('view%d' % i, vsteps[i]))
                elif ch == 'i':
                    ventries.append(z3.Int('vint%d' % i))
            ventries = [e for e, ch in zip(ventries, chars) if ch != '-']
            view = ventries[0] if vk.startswith('bare-') else tuple(ventries)
        data = PObj('Data', fields={'shape': shape, 'ndim': nd})
        me = PObj('SliceSubsetState', fields={'_reference_data': data, '_slices': PList(sel)})
        me.methods['reference_data'] = ('__property__', lambda I, s_: s_.fields['_reference_data'])
        me.methods['slices'] = ('__property__', lambda I, s_: s_.fields['_slices'])
        j = tuple(z3.Int('j%d' % i) for i in range(nd))
        st = St(shape=shape, sel=sel, per_axis=per_axis, ventries=ventries, view=view, j=j, marks=[], nd=nd, vsteps=vsteps)
        return Inputs([me, data], {'view': view}, st=st)

    def requires(self, cfg, st):
        r = [('extent>=1', n >= 1) for n in st.shape]
        # integers in the view are valid indices (numpy would raise IndexError otherwise)
        k = 0
        for i, ch in enumerate(st.per_axis):
            if ch == 'i':
                v = [e for e in st.ventries if is_z3(e) and e.sort() == z3.IntSort()][0] if False else None
        ints = [e for e in st.ventries if is_z3(e)]
        axes = [i for i, ch in enumerate(st.per_axis) if ch == 'i']
        for e, i in zip(ints, axes):
            r.append(('valid-index', z3.And(e >= -st.shape[i], e < st.shape[i])))
        return r

    def globals_(self, cfg, st):
        def view_shape(I, shape, view):
            # contract of glue.utils.array.view_shape (C20): shape of zeros(shape)[view]
            out = []
            if view is Ellipsis:
                return tuple(shape)
            items = list(view)
            for i, n in enumerate(shape):
                if i < len(items):
                    if isinstance(items[i], PSlice):
                        out.append(S.view_len(items[i], n))
                    else:
                        continue
                else:
                    out.append(n)
            return tuple(out)

        def isscalar(I, v):
            return is_z3(v) or isinstance(v, int)

        def zeros(I, shape, dtype=None):
            m = PObj('mask', fields={'shape': tuple(shape), 'true_where': None})

            def setitem(I2, s_, idx, val):
                s_.fields['true_where'] = tuple(idx)
            m.methods['__setitem__'] = setitem
            return m

        def broadcast_to(I, val, shape):
            return PObj('mask', fields={'shape': tuple(shape), 'true_where': 'nowhere'})

        def b_isinstance(I, v, t):
            ts = t if isinstance(t, tuple) else (t,)
            for x in ts:
                nm = getattr(x, 'name', None)
                if nm == 'slice' and isinstance(v, PSlice):
                    return True
                if nm in ('tuple',) and isinstance(v, tuple):
                    return True
                if nm == 'list' and isinstance(v, PList):
                    return True
                if nm == 'ndarray':
                    return False
            return False

        def combine(I, s1, s2, n):
            # modular: the C20 contract of combine_slices at position j of this axis is instantiated in `finish`
            r = PSlice(I.path.fresh_int('cs_start'), I.path.fresh_int('cs_stop'), I.path.fresh_int('cs_step'))
            st.marks.append((s1, s2, n, r))
            return r
        return {'view_shape': Builtin('view_shape', view_shape), 'numpy.isscalar': Builtin('np.isscalar', isscalar), 'numpy.zeros': Builtin('np.zeros', zeros),
                'numpy.broadcast_to': Builtin('np.broadcast_to', broadcast_to), 'numpy.ndarray': PType('ndarray'), 'isinstance': Builtin('isinstance', b_isinstance),
                'combine_slices': Builtin('combine_slices', combine), 'slice': PType('slice'), 'tuple': PType('tuple'), 'list': PType('list')}

    def finish(self, cfg, st, P, outcome):
        qn = "SliceSubsetState.to_mask[%s]" % self.cfg_name(cfg)
        if outcome[0] != 'return':
            P.check(qn + "/does-not-raise", False)
            return
        r = outcome[1]
        ok = isinstance(r, PObj) and r.cls == 'mask'
        P.check(qn + "/ensures:returns-a-mask", ok)
        if not ok:
            return
        nd = st.nd
        # which view axis does each data axis map to, and the original position denoted by view position j
        out_axes = []       # per data axis: ('drop', index) | ('keep', jvar, slice-or-None)
        jv = list(st.j)
        jk = 0
        ents = list(st.ventries)
        ek = 0
        conds = []          # j within the view's shape
        orig = []
        for i in range(nd):
            ch = st.per_axis[i]
            n = st.shape[i]
            if ch == 'i':
                e = ents[ek]
                ek += 1
                orig.append(z3.If(e < 0, e + n, e))
            elif ch == 's':
                e = ents[ek]
                ek += 1
                beg, end, step = S.slice_indices(e, n)
                ln = S.range_len(beg, end, step)
                conds.append(z3.And(jv[jk] >= 0, jv[jk] < ln))
                orig.append(beg + jv[jk] * step)
                jk += 1
            else:
                conds.append(z3.And(jv[jk] >= 0, jv[jk] < n))
                orig.append(jv[jk])
                jk += 1
        n_out = jk
        P.check(qn + "/ensures:shape-of-the-view", len(r.fields['shape']) == n_out)
        in_sel = z3.And(*[S.in_range(orig[i], *S.slice_indices(st.sel[i], st.shape[i])) for i in range(nd)])
        # the mask the code built, at position j
        tw = r.fields['true_where']
        if tw == 'nowhere' or tw is None:
            got = z3.BoolVal(False)
        else:
            # true_where: one slice per remaining axis, applied to an array of the view's shape
            if len(tw) != n_out:
                P.check(qn + "/ensures:one-slice-per-view-axis", False)
                return
            parts = []
            for k, sl in enumerate(tw):
                ln = r.fields['shape'][k]
                parts.append(S.in_range(jv[k], *S.slice_indices(sl, ln)))
            got = z3.And(*parts) if parts else z3.BoolVal(True)
        # instantiate the C20 contract of combine_slices for each call at the position of that axis
        assume = []
        for (s1, s2, n, res) in st.marks:
            ax = [i for i in range(nd) if st.shape[i] is n][0]
            kk = sum(1 for i in range(ax) if st.per_axis[i] != 'i')
            a = 1 if s1.step is None else s1.step
            b = 1 if s2.step is None else s2.step
            cst = St(s1=s1, s2=s2, n=n, j=jv[kk])
            for lbl, c in COMBINE_SLICES.ensures(dict(step1=a, step2=b), cst, res):
                assume.append(c)
        pre = z3.And(*(conds + assume)) if (conds or assume) else z3.BoolVal(True)
        P.check(qn + "/ensures:mask-at-j<=>element-in-every-slice", z3.Implies(pre, got == in_sel))


class ToOriginalView(FnContract):
    property_ids = ('C04',)
    target = DD + ":IndexedData._to_original_view"
    title = "fixed indices stay in place; the free dimensions receive the entries of the view in order, missing entries mean the whole axis"

    def configs(self, tier):
        out = []
        for idx in ('N1', '1N', 'N1N', '1NN', 'NN1', '1N1'):
            free = idx.count('N')
            for vk in ['none', 'ellipsis', 'bare'] + ['t%d' % k for k in range(0, free + 1)]:
                out.append(dict(indices=idx, view=vk))
        return out

    def inputs(self, cfg, P):
        idx = [None if c == 'N' else z3.Int('index%d' % i) for i, c in enumerate(cfg['indices'])]
        free = cfg['indices'].count('N')
        vk = cfg['view']
        entries = [PObj('view-entry', fields={'k': k}) for k in range(free)]
        if vk == 'none':
            view = None
        elif vk == 'ellipsis':
            view = Ellipsis
        elif vk == 'bare':
            view = entries[0]
        else:
            view = tuple(entries[:int(vk[1:])])
        me = PObj('IndexedData', fields={'_indices': tuple(idx), 'ndim': free})
        me.methods['indices'] = ('__property__', lambda I, s_: s_.fields['_indices'])
        me.fields['_original_data'] = PObj('Data', fields={'ndim': len(idx)})
        return Inputs([me, view], st=St(idx=idx, entries=entries, view=view, free=free, vk=vk))

    def globals_(self, cfg, st):
        def b_isinstance(I, v, t):
            ts = t if isinstance(t, tuple) else (t,)
            return any((getattr(x, 'name', None) == 'tuple' and isinstance(v, tuple)) or (getattr(x, 'name', None) == 'list' and isinstance(v, PList)) for x in ts)

        def b_list(I, v=()):
            return PList(I.iterate_concrete(v))
        return {'isinstance': Builtin('isinstance', b_isinstance), 'tuple': _T('tuple'), 'list': _T('list')}

    def ensures(self, cfg, st, result):
        if not isinstance(result, tuple) or len(result) != len(st.idx):
            return [('one-entry-per-parent-dimension', False)]
        given = [] if st.vk in ('none', 'ellipsis') else ([st.entries[0]] if st.vk == 'bare' else list(st.view))
        k = 0
        ok = True
        for i, ix in enumerate(st.idx):
            if ix is not None:
                ok = ok and result[i] is ix
            else:
                if k < len(given):
                    ok = ok and result[i] is given[k]
                else:
                    ok = ok and isinstance(result[i], PSlice) and result[i].start is None and result[i].stop is None and result[i].step is None
                k += 1
        return [('indices-in-place-view-entries-in-order-rest-whole-axis', ok)]


class _T(PType):
    pass


from pyvc.interp import Interp as _I
_prev = _I.call


def _call(self, fv, args, kwargs):
    if isinstance(fv, _T):
        from pyvc.builtins import BUILTINS
        return self.call(BUILTINS[fv.name], args, kwargs)
    return _prev(self, fv, args, kwargs)


_I.call = _call


class IndexedIndices(FnContract):
    """IndexedData answers histograms through a slice selection on the parent that is rebuilt whenever the indices are assigned"""
    property_ids = ('C04', 'C05')
    target = DD + ":IndexedData.indices.setter"
    title = ("a tuple of the wrong length, or one that moves the kept (None) positions, is refused with nothing changed; otherwise the indices are stored, the slice selection used for "
             "histograms and the pixel-attribute table are rebuilt from the NEW indices - whichever position changed - and listeners are told iff some index differs")

    def configs(self, tier):
        out = []
        for pattern in ((None, 0, None), (None, None, 0), (0, None, 1), (None, 1, 2), (2, 1, None)):
            ints = [i for i, x in enumerate(pattern) if x is not None]
            for k in range(2 ** len(ints)):
                out.append(dict(old=pattern, changed=tuple(ints[j] for j in range(len(ints)) if (k >> j) & 1), hub=True, fresh=False))
        out += [dict(old=(None, 0, None), changed=(1,), hub=False, fresh=False), dict(old=(None, 0, None), changed=(), hub=True, fresh=True),
                dict(old=(None, 0, None), changed='too-long', hub=True, fresh=False), dict(old=(None, 0, None), changed='none-moved', hub=True, fresh=False)]
        return out

    def inputs(self, cfg, P):
        old = cfg['old']
        if cfg['changed'] == 'too-long':
            new = old + (0,)
        elif cfg['changed'] == 'none-moved':
            new = (0, None, None)
        else:
            new = tuple((x + 1 if i in cfg['changed'] else x) for i, x in enumerate(old))
        ev = []
        px = [PObj('PixelComponentID', fields={'axis': i}) for i in range(3)]
        orig = PObj('Data', fields={'ndim': 3, 'pixel_component_ids': PList(list(px)), 'world_component_ids': PList([])})
        hub = PObj('Hub', methods={'broadcast': lambda I, s, m: ev.append(m)}) if cfg['hub'] else None
        me = PObj('IndexedData', fields={'_original_data': orig, 'hub': hub, '_cid_to_original_cid': {}})
        me.methods['ndim'] = ('__property__', lambda I, s_: sum(1 for x in s_.fields.get('_indices', ()) if x is None))
        if not cfg['fresh']:
            me.fields['_indices'] = old
            me.fields['_indices_subset_state'] = 'OLD-SELECTION'
            me.fields['_original_pixel_cids'] = 'OLD-TABLE'
        st = St(me=me, orig=orig, px=px, new=new, ev=ev)
        return Inputs([me, new], st=st)

    def globals_(self, cfg, st):
        def b_type(I, v):
            return PType('NoneType' if v is None else type(v).__name__)

        def b_hasattr(I, o, name):
            return name in o.fields or name in o.methods
        return {'SliceSubsetState': Builtin('SliceSubsetState', lambda I, data, slices: PObj('SliceSubsetState', fields={'data': data, 'slices': slices})),
                'NumericalDataChangedMessage': Builtin('NumericalDataChangedMessage', lambda I, sender: PObj('NumericalDataChangedMessage', fields={'sender': sender})),
                'type': Builtin('type', b_type), 'hasattr': Builtin('hasattr', b_hasattr)}

    raises = {'ValueError': lambda cfg, st: cfg['changed'] == 'too-long', 'TypeError': lambda cfg, st: cfg['changed'] == 'none-moved'}

    def finish(self, cfg, st, P, outcome):
        qn = "IndexedData.indices.setter[%s]" % self.cfg_name(cfg)
        f = st.me.fields
        if outcome[0] == 'raise':
            P.check(qn + "/raises:refused-indices-change-nothing", f.get('_indices') == cfg['old'] and f.get('_indices_subset_state') == 'OLD-SELECTION' and not st.ev)
            return
        new = st.new
        P.check(qn + "/ensures:indices-stored", f.get('_indices') == new)
        if (not cfg['fresh']) and new == cfg['old'] and f.get('_indices_subset_state') == 'OLD-SELECTION' and f.get('_original_pixel_cids') == 'OLD-TABLE':
            # the same indices assigned again: keeping what was built for them is as good as rebuilding it
            P.check(qn + "/ensures:nothing-announced", not st.ev)
            return
        sel = f.get('_indices_subset_state')
        ok = isinstance(sel, PObj) and sel.cls == 'SliceSubsetState' and sel.fields['data'] is st.orig
        P.check(qn + "/ensures:slice-selection-rebuilt-on-the-parent", ok)
        if ok:
            sl = sel.fields['slices']
            items = sl.items if isinstance(sl, PList) else list(sl)
            want_ok = len(items) == 3 and all((isinstance(a, PSlice) and a.start is None and a.stop is None and a.step is None) if b is None else (a == b) for a, b in zip(items, new))
            P.check(qn + "/ensures:slice-selection-is-the-NEW-indices(whole-axis-where-kept)", want_ok)
        tab = f.get('_original_pixel_cids')
        titems = tab.items if isinstance(tab, PList) else (tab if isinstance(tab, list) else None)
        P.check(qn + "/ensures:pixel-attributes-of-the-kept-axes-in-order", titems is not None and len(titems) == sum(1 for x in new if x is None)
                and all(a is st.px[i] for a, i in zip(titems, [i for i, x in enumerate(new) if x is None])))
        differs = (not cfg['fresh']) and new != cfg['old']
        if differs and cfg['hub']:
            P.check(qn + "/ensures:listeners-told-that-the-values-changed", len(st.ev) == 1 and st.ev[0].cls == 'NumericalDataChangedMessage' and st.ev[0].fields['sender'] is st.me)
        else:
            P.check(qn + "/ensures:nothing-announced", not st.ev)


CONTRACTS = [SliceToMask(), ToOriginalView(), IndexedIndices()]
