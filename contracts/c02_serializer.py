"""C02 - sidecar contracts for the naming registry of the session serializer (glue/core/state.py).

  GlueSerializer._disambiguate(name)   the returned name is not registered, never starts with 'st__' (names with that prefix are read back
                                       as string literals), and is the requested name itself when that is free and admissible
  GlueSerializer._label(obj)           '__main__' for the main object, else a free admissible name (through _disambiguate's contract)
  GlueSerializer.id(obj)               strings become 'st__' + s and change nothing; literals are returned as they are; an object seen before
                                       gets the name it already has and nothing changes; a new object gets a name that was free, is recorded in
                                       both directions (name -> object, id(object) -> name) and every other entry is unchanged;
                                       the registry stays a bijection (hand-instantiated at an arbitrary other name / object)
  GlueSerializer._dispatch, GlueUnSerializer._dispatch, GlueSerializer.do: contracts.c12_state (shared with C12)
Names are z3 strings ('%s_%i' formatting = concatenation with str.from_int); an object is represented by its identity (an integer), so id() is injective by construction.
Termination of the numbering loop (for i in count(0)) is not proved (partial correctness).
"""
import z3

from pyvc.verify import FnContract, Inputs, St, callee
from pyvc.values import PObj, PList, Builtin, PType, MapBox, Unsupported, is_z3
from pyvc.interp import LoopSpec
from pyvc import spec as S

STATE = "glue/core/state.py"
Obj = z3.IntSort()          # an object is represented by its identity, so id() is injective by construction


def OID(x):
    return x
STR = z3.StringSort()
PREFIX = z3.StringVal('st__')


def admissible(name):
    """names that need no escaping: not starting with st__ and not 'st_' (which numbering would turn into st__<i>)"""
    return z3.And(z3.Not(z3.PrefixOf(PREFIX, name)), name != z3.StringVal('st_'))


def fresh_registry(tag=''):
    objs = MapBox(z3.Const('objs_arr' + tag, z3.ArraySort(STR, Obj)), z3.Const('objs_dom' + tag, z3.ArraySort(STR, z3.BoolSort())))
    names = MapBox(z3.Const('names_arr' + tag, z3.ArraySort(z3.IntSort(), STR)), z3.Const('names_dom' + tag, z3.ArraySort(z3.IntSort(), z3.BoolSort())))
    return objs, names


class Disambiguate(FnContract):
    property_ids = ('C02',)
    target = STATE + ":GlueSerializer._disambiguate"
    title = "the returned name is not registered and does not start with st__; it is the requested name when that is free and admissible"

    def inputs(self, cfg, P):
        objs, names = fresh_registry()
        name = z3.String('name')
        ser = PObj('GlueSerializer', fields={'_objs': objs, '_names': names})
        st = St(objs=objs, names=names, name=name, ser=ser, dom0=objs.dom, arr0=objs.arr)
        return Inputs([ser, name], st=st, symbols=dict(name=name))

    def loops(self, cfg, st):
        return {0: LoopSpec(inv=lambda L: [('registry-untouched', S.And(L.self.fields['_objs'].dom == st.dom0, L.self.fields['_objs'].arr == st.arr0))])}

    def ensures(self, cfg, st, result):
        if not (is_z3(result) and result.sort() == STR):
            return [('returns-a-name', False)]
        return [('not-registered', z3.Not(z3.Select(st.dom0, result))),
                ('never-read-back-as-a-string-literal', z3.Not(z3.PrefixOf(PREFIX, result))),
                ('the-name-itself-when-free', z3.Implies(z3.And(admissible(st.name), z3.Not(z3.Select(st.dom0, st.name))), result == st.name)),
                ('registry-unchanged', S.And(st.objs.dom == st.dom0, st.objs.arr == st.arr0))]


    def native(self, cfg, val):
        """the real method on the model's name against registries in which that name and its first numbered variants are taken"""
        name = val.get('name')
        if not isinstance(name, str):
            return None
        import os
        import sys
        sys.path.insert(0, os.environ.get('GLUE_REPO', '/repo'))
        from glue.core.state import GlueSerializer
        for k in range(0, 4):
            taken = [name] + ["%s_%i" % (name, i) for i in range(k)]
            for reg in (taken, taken + ['_' + name], []):
                s = GlueSerializer.__new__(GlueSerializer)
                s._objs = dict.fromkeys(reg)
                try:
                    r = s._disambiguate(name)
                except Exception as e:
                    return (False, "_disambiguate(%r) with registered names %r raised %s: %s" % (name, reg, type(e).__name__, e))
                if r in reg or r.startswith('st__'):
                    return (False, "_disambiguate(%r) with registered names %r returns %r (%s)" % (name, reg, r, 'already registered' if r in reg else 'read back as the string literal %r' % r[4:]))
        return None

    def native_call(self, cfg, val):
        return "GlueSerializer._disambiguate(%r)" % (val.get('name'),)


DISAMBIGUATE = Disambiguate()


def disambiguate_model(st):
    """modular use of the contract above: a fresh name satisfying its postconditions"""
    def model(I, self_, name):
        if isinstance(name, str):
            name = z3.StringVal(name)
        r = I.path.fresh('disambiguated', STR)
        dom = self_.fields['_objs'].dom
        I.path.assume(z3.Not(z3.Select(dom, r)))
        I.path.assume(z3.Not(z3.PrefixOf(PREFIX, r)))
        I.path.assume(z3.Implies(z3.And(admissible(name), z3.Not(z3.Select(dom, name))), r == name))
        return r
    return model


class Label(FnContract):
    property_ids = ('C02',)
    target = STATE + ":GlueSerializer._label"
    title = "'__main__' for the main object; any other object gets a name that is free and not readable as a string literal"

    def configs(self, tier):
        return [dict(obj='main'), dict(obj='labelled'), dict(obj='unlabelled')]

    def inputs(self, cfg, P):
        objs, names = fresh_registry()
        o = PObj('object', fields={'ref': z3.Const('obj', Obj)})
        if cfg['obj'] == 'labelled':
            o.fields['label'] = z3.String('label')
        o.fields['__type__'] = PObj('type', fields={'__name__': z3.String('type_name')})
        main = o if cfg['obj'] == 'main' else PObj('object', fields={'ref': z3.Const('main', Obj)})
        ser = PObj('GlueSerializer', fields={'_objs': objs, '_names': names, '_main': main})
        st = St(objs=objs, names=names, ser=ser, obj=o, dom0=objs.dom)
        ser.methods['_disambiguate'] = disambiguate_model(st)
        return Inputs([ser, o], st=st)

    def requires(self, cfg, st):
        # the main object is the first object ever registered (GlueSerializer.__init__ calls id(obj) on the empty registry),
        # so '__main__' is free whenever _label is asked about it
        if cfg['obj'] == 'main':
            return [('main-object-is-registered-first', z3.Not(z3.Select(st.dom0, z3.StringVal('__main__'))))]
        return []

    def globals_(self, cfg, st):
        return {'hasattr': Builtin('hasattr', lambda I, o, n: n in o.fields), 'type': Builtin('type', lambda I, o: o.fields['__type__'])}

    def ensures(self, cfg, st, result):
        if cfg['obj'] == 'main':
            return [('main-object-is-__main__', (result == '__main__') if isinstance(result, str) else ((result == z3.StringVal('__main__')) if is_z3(result) and result.sort() == STR else False))]
        if not (is_z3(result) and result.sort() == STR):
            return [('returns-a-name', False)]
        base = st.obj.fields['label'] if cfg['obj'] == 'labelled' else st.obj.fields['__type__'].fields['__name__']
        return [('free', z3.Not(z3.Select(st.dom0, result))), ('not-a-string-literal-tag', z3.Not(z3.PrefixOf(PREFIX, result))),
                ('label-or-type-name-when-free', z3.Implies(z3.And(admissible(base), z3.Not(z3.Select(st.dom0, base))), result == base))]


class SerializerId(FnContract):
    property_ids = ('C02',)
    target = STATE + ":GlueSerializer.id"
    title = ("a new object gets a free name recorded in both directions, a known object its existing name, strings and literals change nothing; "
             "the name <-> object registry stays a bijection")

    def configs(self, tier):
        return [dict(obj='new'), dict(obj='string'), dict(obj='literal')]

    def inputs(self, cfg, P):
        objs, names = fresh_registry()
        ref = z3.Const('obj', Obj)
        other = z3.Const('other', Obj)           # arbitrary other object / name for the hand-instantiated invariant
        m = z3.String('m')
        if cfg['obj'] == 'string':
            o = z3.String('text')
        elif cfg['obj'] == 'literal':
            o = z3.Int('number')
        else:
            o = ref
        ser = PObj('GlueSerializer', fields={'_objs': objs, '_names': names})
        st = St(objs=objs, names=names, ser=ser, obj=o, ref=ref, other=other, m=m, od0=objs.dom, oa0=objs.arr, nd0=names.dom, na0=names.arr, label_result=None)

        def label(I, self_, obj):
            # contract of _label for a non-main object (the main object is registered by __init__ on an empty registry)
            r = disambiguate_model(st)(I, self_, z3.String('requested'))
            st.label_result = r
            return r
        ser.methods['_label'] = label
        return Inputs([ser, o], st=st)

    @staticmethod
    def wf(od, oa, nd, na, m, other):
        """registry well-formedness instantiated at name m and object `other`"""
        return [z3.Implies(z3.Select(od, m), z3.And(z3.Select(nd, OID(z3.Select(oa, m))), z3.Select(na, OID(z3.Select(oa, m))) == m)),
                z3.Implies(z3.Select(nd, OID(other)), z3.And(z3.Select(od, z3.Select(na, OID(other))), z3.Select(oa, z3.Select(na, OID(other))) == other))]

    def requires(self, cfg, st):
        r = []
        # the invariant before the call, at every instantiation the proof needs: m, other, and the object itself
        for lbl, (mm, oo) in (('m/other', (st.m, st.other)), ('at-obj', (z3.Select(st.na0, OID(st.ref)), st.ref))):
            for i, c in enumerate(self.wf(st.od0, st.oa0, st.nd0, st.na0, mm, oo)):
                r.append(('registry-bijective-before[%s,%d]' % (lbl, i), c))
        return r

    def globals_(self, cfg, st):
        def b_isinstance(I, v, t):
            nm = getattr(t, 'name', None)
            if nm == 'str':
                return is_z3(v) and v.sort() == STR
            raise Unsupported("isinstance %r" % (t,))

        def b_type(I, v):
            if v is st.ref:
                return PType('SomeClass')
            if is_z3(v) and v.sort() == z3.IntSort():
                return PType('int')
            return PType('str')

        def b_id(I, v):
            return OID(v)
        return {'isinstance': Builtin('isinstance', b_isinstance), 'type': Builtin('type', b_type), 'id': Builtin('id', b_id),
                'str': PType('str'), 'literals': (PType('NoneType'), PType('float'), PType('int'), PType('bytes'), PType('bool')),
                'builtin_iterables': (PType('tuple'), PType('list'), PType('set'))}

    def ensures(self, cfg, st, result):
        od, oa, nd, na = st.objs.dom, st.objs.arr, st.names.dom, st.names.arr
        same = S.And(od == st.od0, oa == st.oa0, nd == st.nd0, na == st.na0)
        if cfg['obj'] == 'string':
            ok = is_z3(result) and result.sort() == STR
            return [('string-tagged', result == z3.Concat(PREFIX, st.obj) if ok else False), ('registry-unchanged', same)]
        if cfg['obj'] == 'literal':
            return [('literal-returned-as-is', result is st.obj), ('registry-unchanged', same)]
        if not (is_z3(result) and result.sort() == STR):
            return [('returns-a-name', False)]
        oid = OID(st.ref)
        known = z3.Select(st.nd0, oid)
        out = [('known-object:same-name-nothing-changes', z3.Implies(known, z3.And(result == z3.Select(st.na0, oid), same))),
               ('new-object:name-was-free', z3.Implies(z3.Not(known), z3.Not(z3.Select(st.od0, result)))),
               ('new-object:recorded-both-ways', z3.Implies(z3.Not(known), z3.And(z3.Select(od, result), z3.Select(oa, result) == st.ref, z3.Select(nd, oid), z3.Select(na, oid) == result))),
               ('new-object:other-names-unchanged', z3.Implies(z3.And(z3.Not(known), st.m != result), z3.And(z3.Select(od, st.m) == z3.Select(st.od0, st.m), z3.Select(oa, st.m) == z3.Select(st.oa0, st.m)))),
               ('new-object:other-objects-unchanged', z3.Implies(z3.And(z3.Not(known), st.other != st.ref),
                                                                 z3.And(z3.Select(nd, OID(st.other)) == z3.Select(st.nd0, OID(st.other)), z3.Select(na, OID(st.other)) == z3.Select(st.na0, OID(st.other))))),
               ('object-names-never-look-like-string-literals', z3.Implies(z3.Not(known), z3.Not(z3.PrefixOf(PREFIX, result))))]
        for i, c in enumerate(self.wf(od, oa, nd, na, st.m, st.other)):
            out.append(('registry-bijective-after[%d]' % i, c))
        return out


CONTRACTS = [DISAMBIGUATE, Label(), SerializerId()]
