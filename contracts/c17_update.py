"""C17 - a rejected Data.update_components changes nothing (all arrays are validated before any value is replaced) and an accepted one is
announced after the caches were cleared: the contract of contracts/c05_cache.py (UpdateComponents), discharged as an obligation of C17."""
from contracts.c05_cache import UpdateComponents

CONTRACTS = [UpdateComponents()]
