"""C15 - sidecar contracts for the broadcasting shortcuts around the coordinate object (glue/core/coordinate_helpers.py,
glue/core/component_link.py).  Arrays are represented point-wise: their value at an arbitrary element e and at their first element.

  pixel2world_single_axis(wcs, *pixel, world_axis=k)    for n = 1..3 inputs of one common shape and every k: the transformation is
        called with n arguments in the given order, and the
        value returned at e is component k of the transformation at the *given* pixel values at e - provided the coordinate object's
        correlation matrix is sound (world k does not depend on pixel j when matrix[k, j] is False; instantiated at the two points
        the proof needs).  Shape of the result = shape of the first input.  Empty input: zeros of that shape.
  world2pixel_single_axis(wcs, *world, pixel_axis=k)    same for the inverse; which inputs may be dropped comes from
        _connected_axes (assumed of the coordinate object: the inverse for pixel k does not depend on a world axis outside the returned
        set; _connected_axes itself is under the contract ConnectedAxes below - least closed set of axes - and is also evaluated for all
        boolean matrices up to 3x3 (4x4 thorough) in the bounded layer)
  CoordinateComponentLink.using(*args)                  for ndim = 1..3, every index and every subset `from_needed`: the helper is called
        with ndim arguments in reversed (x, y, z) order, argument i being the supplied value when i is in from_needed and the default
        world coordinate default[ndim-1-i] broadcast to the shape of the first argument otherwise, and with axis ndim-1-index
numpy facts used (trusted): unbroadcast(a) re-broadcast to a's shape equals a; broadcast_arrays / broadcast_to / ravel / reshape preserve
the value at corresponding elements; a.flat[0] is the first element.
"""
import itertools

import z3

from pyvc.verify import FnContract, Inputs, St
from pyvc.interp import LoopSpec
from pyvc.values import PObj, PList, PSlice, Builtin, PType, Unsupported, is_z3
from pyvc import spec as S

CH = "glue/core/coordinate_helpers.py"
CL = "glue/core/component_link.py"


def arr(at_e, at_0, shape, kind='array', ndim=None):
    a = PObj('ndarray', fields={'at_e': at_e, 'at_0': at_0, 'shape': shape, 'kind': kind, 'ndim': ndim if ndim is not None else z3.Int('ndim_of_inputs')})
    flat = PObj('flatiter')
    flat.methods['__getitem__'] = lambda I, self_, i: PObj('scalar', fields={'value': a.fields['at_0']}) if i == 0 else _unsupported("flat[%r]" % (i,))
    a.fields['flat'] = flat
    a.methods['ravel'] = lambda I, self_: arr(self_.fields['at_e'], self_.fields['at_0'], ('raveled', self_.fields['shape']), 'raveled')
    a.methods['reshape'] = lambda I, self_, shp: arr(self_.fields['at_e'], self_.fields['at_0'], shp, 'reshaped')
    return a


def _unsupported(msg):
    raise Unsupported(msg)


def value_at_e(x):
    """value at element e of an argument of the transformation: an array, or a scalar (constant everywhere)"""
    if isinstance(x, PObj) and x.cls == 'ndarray':
        return x.fields['at_e']
    if isinstance(x, PObj) and x.cls == 'scalar':
        return x.fields['value']
    raise Unsupported("argument %r" % (x,))


class SingleAxis(FnContract):
    """shared by pixel2world_single_axis and world2pixel_single_axis"""
    property_ids = ('C15',)
    forward = True

    def configs(self, tier):
        out = []
        for n in (1, 2, 3):
            for k in range(n):
                out.append(dict(n=n, axis=k, empty=False))
        out.append(dict(n=2, axis=0, empty=True))
        out.append(dict(n=2, axis=None, empty=False))
        return out

    def inputs(self, cfg, P):
        n, k = cfg['n'], cfg['axis']
        shape = PObj('shape-of-the-inputs')
        pe = [z3.Real('in%d_at_e' % j) for j in range(n)]
        p0 = [z3.Real('in%d_first' % j) for j in range(n)]
        ndim = z3.Int('ndim_of_inputs')
        arrays = [arr(pe[j], p0[j], shape, ndim=ndim) for j in range(n)]
        dep = [z3.Bool('needed%d' % j) for j in range(n)]
        F = z3.Function('T_component', *([z3.RealSort()] * n + [z3.RealSort()]))     # component `axis` of the transformation
        st = St(n=n, k=k, shape=shape, pe=pe, p0=p0, arrays=arrays, dep=dep, F=F, calls=[], size=z3.Int('size'), ndim=ndim)
        wcs = PObj('coords')
        matrix = PObj('axis_correlation_matrix')

        def m_getitem(I, self_, idx):
            if self.forward:
                ok = isinstance(idx, tuple) and len(idx) == 2 and idx[0] == k and isinstance(idx[1], PSlice) and idx[1].start is None and idx[1].stop is None
                I.path.check(I.hooks.name + "/correlation-matrix:row-of-the-requested-world-axis", ok)
                return PList(list(dep))
            # the inverse must not decide from one row or column of the matrix (a pixel axis can depend on a world axis only indirectly):
            # the needed world axes come from _connected_axes
            I.path.check(I.hooks.name + "/inverse-does-not-index-the-correlation-matrix-directly", False)
            return PList([z3.Bool('column_entry%d' % j) for j in range(n)])
        matrix.methods['__getitem__'] = m_getitem
        wcs.fields['axis_correlation_matrix'] = matrix

        def transform(I, self_, *args):
            st.calls.append(args)
            vals = [value_at_e(a) for a in args]
            if len(args) != n:
                raise Unsupported("transformation called with %d arguments" % len(args))
            shp = args[0].fields['shape'] if isinstance(args[0], PObj) and args[0].cls == 'ndarray' else 'scalar'
            if n == 1:
                return arr(F(*vals), None, shp, 'transformed')
            # component k is F; the other components are unrelated values
            return tuple(arr(F(*vals) if i == k else I.path.fresh('other_component', z3.RealSort()), None, shp, 'transformed') for i in range(n))
        wcs.methods['pixel_to_world_values' if self.forward else 'world_to_pixel_values'] = transform
        kw = {('world_axis' if self.forward else 'pixel_axis'): k}
        return Inputs([wcs] + arrays, kw, st=st)

    def requires(self, cfg, st):
        r = [('ndim>=1', st.ndim >= 1)]
        if cfg['empty']:
            r.append(('empty-input', st.size == 0))
        else:
            r.append(('non-empty-input', st.size > 0))
        # soundness of the correlation information, instantiated at the point the shortcut evaluates and the true point
        q = [z3.If(d, e, f) for d, e, f in zip(st.dep, st.pe, st.p0)]
        r.append(('the-transformation-does-not-depend-on-inputs-marked-not-needed', st.F(*q) == st.F(*st.pe)))
        return r

    def globals_(self, cfg, st):
        def np_size(I, a):
            return st.size

        def np_shape(I, a):
            return a.fields['shape']

        def np_zeros(I, shp, dtype=None):
            return PObj('zeros', fields={'shape': shp})

        def unbroadcast(I, a):
            return arr(a.fields['at_e'], a.fields['at_0'], ('unbroadcast', a.fields['shape']), 'unbroadcast', ndim=a.fields['ndim'])

        def broadcast_arrays(I, *xs):
            # common shape: the broadcast of the argument shapes; the value at the element corresponding to e is unchanged
            out = []
            for x in xs:
                if isinstance(x, PObj) and x.cls == 'scalar':
                    out.append(arr(x.fields['value'], x.fields['value'], 'common', 'broadcast-scalar', ndim=st.ndim))
                else:
                    out.append(arr(x.fields['at_e'], x.fields['at_0'], 'common', 'broadcast', ndim=st.ndim))
            return PList(out)

        def broadcast_to(I, a, shp):
            return arr(a.fields['at_e'], None, shp, 'broadcast_to')

        def connected(I, matrix, pixel=(), world=()):
            # contract of _connected_axes for the requested axis (evaluated exhaustively in the bounded layer)
            sel = pixel if not self.forward else world
            sel = sel.items if isinstance(sel, PList) else list(sel)
            I.path.check(I.hooks.name + "/connected-axes:asked-for-the-requested-axis", sel == [st.k])
            return (PList([z3.Bool('pixel_connected%d' % j) for j in range(st.n)]), PList(list(st.dep)))
        return {'numpy.size': Builtin('np.size', np_size), 'numpy.shape': Builtin('np.shape', np_shape), 'numpy.zeros': Builtin('np.zeros', np_zeros),
                'unbroadcast': Builtin('unbroadcast', unbroadcast), 'numpy.broadcast_arrays': Builtin('np.broadcast_arrays', broadcast_arrays),
                'numpy.broadcast_to': Builtin('np.broadcast_to', broadcast_to), '_connected_axes': Builtin('_connected_axes', connected), 'float': PType('float')}

    raises = {'ValueError': lambda cfg, st: cfg['axis'] is None}

    def ensures(self, cfg, st, result):
        if cfg['empty']:
            return [('zeros-of-the-input-shape', isinstance(result, PObj) and result.cls == 'zeros' and result.fields['shape'] is st.shape),
                    ('transformation-not-called', len(st.calls) == 0)]
        ok = isinstance(result, PObj) and result.cls == 'ndarray'
        if not ok:
            return [('returns-an-array', False)]
        # how often the transformation is called, and with which stand-ins for the inputs it does not depend on, is not part of the
        # property: only the value and the shape are
        return [('shape-of-the-first-input', result.fields['shape'] is st.shape),
                ('transformation-always-called-with-every-axis', len(st.calls) >= 1 and all(len(c) == st.n for c in st.calls)),
                ('value-is-the-requested-component-at-the-given-inputs', result.fields['at_e'] == st.F(*st.pe))]


class PixelToWorldSingle(SingleAxis):
    target = CH + ":pixel2world_single_axis"
    title = "the shortcut (first element for inputs the world axis does not depend on) returns the requested world component at the given pixel values, in the input shape"
    forward = True


class WorldToPixelSingle(SingleAxis):
    target = CH + ":world2pixel_single_axis"
    title = "the shortcut returns the requested pixel component of the inverse at the given world values, in the input shape"
    forward = False


class LinkUsing(FnContract):
    property_ids = ('C15',)
    target = CL + ":CoordinateComponentLink.using"
    title = "arguments are placed by from_needed, missing axes get the broadcast default world coordinate, order reversed to (x, y, z), axis = ndim-1-index"

    def configs(self, tier):
        out = []
        for nd in (1, 2, 3):
            for index in range(nd):
                for r in range(1, nd + 1):
                    for needed in itertools.combinations(range(nd), r):
                        for p2w in (True, False):
                            out.append(dict(ndim=nd, index=index, needed=','.join(map(str, needed)), pixel2world=p2w))
        return out

    def inputs(self, cfg, P):
        nd = cfg['ndim']
        needed = tuple(int(x) for x in cfg['needed'].split(','))
        shape0 = PObj('shape-of-first-argument')
        args = [PObj('ndarray', fields={'tag': 'arg%d' % j, 'shape': shape0 if j == 0 else PObj('shape%d' % j)}) for j in range(len(needed))]
        coords = PObj('coords')
        link = PObj('CoordinateComponentLink', fields={'coords': coords, 'ndim': nd, 'from_needed': needed, 'index': cfg['index'], 'pixel2world': cfg['pixel2world']})
        st = St(nd=nd, needed=needed, args=args, coords=coords, calls=[], shape0=shape0, defaults=None)
        return Inputs([link] + args, st=st)

    def globals_(self, cfg, st):
        def default_world(I, c):
            d = PObj('default-world-coordinates')
            d.methods['__getitem__'] = lambda I2, self_, i: ('default', i)
            st.defaults = d
            I.path.check(I.hooks.name + "/defaults-of-this-coordinate-object", c is st.coords)
            return d

        def broadcast_to(I, v, shp):
            return PObj('broadcast', fields={'value': v, 'shape': shp})

        def helper(name):
            def call(I, c, *a, **kw):
                st.calls.append((name, c, a, kw))
                return PObj('result')
            return Builtin(name, call)
        return {'default_world_coords': Builtin('default_world_coords', default_world), 'numpy.broadcast_to': Builtin('np.broadcast_to', broadcast_to),
                'pixel2world_single_axis': helper('pixel2world_single_axis'), 'world2pixel_single_axis': helper('world2pixel_single_axis')}

    def ensures(self, cfg, st, result):
        nd = st.nd
        if len(st.calls) != 1:
            return [('helper-called-once', False)]
        name, c, a, kw = st.calls[0]
        want = 'pixel2world_single_axis' if cfg['pixel2world'] else 'world2pixel_single_axis'
        out = [('direction', name == want), ('on-the-link\'s-coordinate-object', c is st.coords), ('all-axes-passed', len(a) == nd),
               ('axis-is-ndim-1-index', kw == {('world_axis' if cfg['pixel2world'] else 'pixel_axis'): nd - 1 - cfg['index']})]
        if len(a) == nd:
            for pos in range(nd):
                i = nd - 1 - pos               # numpy-order axis passed at position pos of the (x, y, z) call
                v = a[pos]
                if i in st.needed:
                    out.append(('axis-%d-is-the-supplied-argument' % i, v is st.args[st.needed.index(i)]))
                else:
                    ok = isinstance(v, PObj) and v.cls == 'broadcast' and v.fields['value'] == ('default', nd - 1 - i) and v.fields['shape'] is st.shape0
                    out.append(('axis-%d-is-the-broadcast-default' % i, ok))
        return out


CONTRACTS = [PixelToWorldSingle(), WorldToPixelSingle(), LinkUsing()]


# =================================================================================================
COMP = "glue/core/component.py"


class CalculateWorld(FnContract):
    """CoordinateComponent._calculate for views made of integers and slices: per-axis pixel positions, the single-axis conversion on the
    dependent axes only, removal of the integer axes and broadcasting to the shape of the view."""
    property_ids = ('C15', 'C04')
    target = COMP + ":CoordinateComponent._calculate"
    title = ("for a view of integers and slices (any steps, negative bounds, short tuples) the value at output position q is the world coordinate of the pixel "
             "the view selects there (slice start + step * q, integers counted from the end when negative), and the shape is the shape of the view")
    budget_s = 60

    # per data axis: 's' unit slice, 'p' step 2, 'r' step -1, 'i' integer, 'a' absent
    def configs(self, tier):
        views = ['s', 'p', 'r', 'i', 'ss', 'si', 'is', 'sa', 'pr', 'ii', 'sss', 'sis', 'iss', 'ssa', 'saa', 'rip', 'iis']
        out = []
        for v in views:
            for w in range(len(v)):
                if tier == 'quick' and len(v) == 3 and w == 1:
                    continue
                out.append(dict(view=v, world=w))
        out.append(dict(view='bare-slice', world=0))
        out.append(dict(view='bare-int', world=0))
        return out

    def inputs(self, cfg, P):
        v = cfg['view']
        bare = v.startswith('bare')
        if bare:
            v = 's' if v == 'bare-slice' else 'i'
        d = len(v)
        shape = tuple(z3.Int('n%d' % i) for i in range(d))
        entries, q = [], []
        for i, c in enumerate(v):
            if c in 'spr':
                entries.append(PSlice(z3.Int('start%d' % i), z3.Int('stop%d' % i), {'s': None, 'p': 2, 'r': -1}[c]))
            elif c == 'i':
                entries.append(z3.Int('index%d' % i))
            else:
                break
        view = entries[0] if bare else tuple(entries)
        # arbitrary output position: one coordinate per axis that survives (slices and absent axes)
        qs = {i: z3.Int('q%d' % i) for i, c in enumerate(v) if c != 'i'}
        dep = [z3.Bool('dependent%d' % i) for i in range(d)]
        Wd = z3.Function('world_component', *([z3.IntSort()] * d + [z3.RealSort()]))

        def W(*vals):
            # soundness of dependent_axes (C15, evaluated exhaustively) built into the model: the world axis is a function of the pixel axes
            # inside the returned set only, so whatever stands in for the other axes does not matter
            return Wd(*[z3.If(dp, z3.ToInt(x) if (is_z3(x) and x.sort() == z3.RealSort()) else x, 0) for dp, x in zip(dep, vals)])
        coords = PObj('coords')
        data = PObj('Data', fields={'ndim': d, 'shape': shape, 'coords': coords})
        comp = PObj('CoordinateComponent', fields={'world': True, '_data': data, 'axis': cfg['world']})
        st = St(v=v, d=d, shape=shape, entries=entries, view=view, qs=qs, dep=dep, W=W, coords=coords, data=data, calls=[], bare=bare)
        return Inputs([comp], dict(view=view), st=st)

    def _true_pixels(self, st):
        """the pixel the view selects at output position q, per data axis, and the length of the view along the surviving axes"""
        pix, lens = [], {}
        for i, c in enumerate(st.v):
            n = st.shape[i]
            if c in 'spr':
                e = st.entries[i]
                b, en, stp = S.slice_indices(e, n)
                lens[i] = S.range_len(b, en, stp)
                pix.append(b + stp * st.qs[i])
            elif c == 'i':
                k = st.entries[i]
                pix.append(z3.If(k < 0, k + n, k))
            else:
                lens[i] = n
                pix.append(st.qs[i])
        return pix, lens

    def requires(self, cfg, st):
        pix, lens = self._true_pixels(st)
        r = [('extents>=1', S.And(*[n >= 1 for n in st.shape]))]
        for i, c in enumerate(st.v):
            if c == 'i':
                r.append(('index-%d-valid' % i, S.And(-st.shape[i] <= st.entries[i], st.entries[i] < st.shape[i])))
            else:
                r.append(('output-position-%d-inside-the-view' % i, S.And(0 <= st.qs[i], st.qs[i] < lens[i])))
        return r

    def globals_(self, cfg, st):
        d = st.d

        class Seq(PObj):
            """np.arange(n) and what indexing it gives: start + step * position, `length` elements"""

        def seq(start, step, length):
            s_ = Seq('index-sequence', fields={'start': start, 'step': step, 'length': length})

            def getitem(I, self_, key):
                if isinstance(key, PSlice):
                    b, en, stp = S.slice_indices(key, self_.fields['length'])
                    return seq(self_.fields['start'] + self_.fields['step'] * b, self_.fields['step'] * stp, S.range_len(b, en, stp))
                if is_z3(key) or isinstance(key, int):
                    n = self_.fields['length']
                    if not I.path.branch(S.And(-n <= key, key < n)):
                        from pyvc.values import PyRaise, ExcVal
                        raise PyRaise(ExcVal('IndexError'))
                    k = z3.If(key < 0, key + n, key) if is_z3(key) else (key + n if key < 0 else key)
                    return self_.fields['start'] + self_.fields['step'] * k          # a scalar
                raise Unsupported("indexing a pixel sequence with %r" % (key,))
            s_.methods['__getitem__'] = getitem
            s_.methods['__len__'] = lambda I, self_: self_.fields['length']
            return s_

        def arange(I, n):
            return seq(0, 1, n)

        def isscalar(I, x):
            return is_z3(x) or isinstance(x, int)

        def b_isinstance(I, x, t):
            ts = t if isinstance(t, tuple) else (t,)
            for y in ts:
                nm = getattr(y, 'name', None)
                if nm == 'slice' and isinstance(x, PSlice):
                    return True
                if nm in ('tuple',) and isinstance(x, tuple):
                    return True
                if nm in ('list',) and isinstance(x, PList):
                    return True
                if nm == 'ndarray':
                    return False
            return False

        def dep_axes(I, coords, axis):
            I.path.check(I.hooks.name + "/dependent_axes:asked-for-this-world-axis", coords is st.coords and axis == cfg['world'])
            o = PObj('dependent-axes')
            o.methods['__contains__'] = lambda I2, s, i: st.dep[i]
            return o

        def meshgrid(I, *seqs, **kw):
            I.path.check(I.hooks.name + "/meshgrid:ij-indexing-one-input-per-axis", kw.get('indexing') == 'ij' and len(seqs) == d)
            # grid i at output position q has the value of input i at its own position (integers / constants: the value itself)
            return PList([PObj('grid', fields={'axis': i, 'of': s_}) for i, s_ in enumerate(seqs)])

        def value_of(g):
            s_ = g.fields['of']
            i = g.fields['axis']
            if isinstance(s_, Seq):
                return s_.fields['start'] + s_.fields['step'] * st.qs[i], s_.fields['length']
            return s_, None                      # scalar: size-1 axis

        def p2w(I, coords, *grids, **kw):
            st.calls.append((coords, grids, kw))
            gs = grids[::-1]                      # back to numpy order
            vals, lens = [], []
            for g in gs:
                v_, l_ = value_of(g)
                vals.append(v_)
                lens.append(l_)
            return PObj('world-array', fields={'value': st.W(*vals), 'lens': lens, 'sliced': None})

        def w_getitem(I, self_, key):
            return PObj('world-array', fields={'value': self_.fields['value'], 'lens': self_.fields['lens'], 'sliced': key})

        def broadcast_to(I, a, shp):
            return PObj('result', fields={'of': a, 'shape': shp})
        g = {'numpy.arange': Builtin('np.arange', arange), 'numpy.isscalar': Builtin('np.isscalar', isscalar), 'isinstance': Builtin('isinstance', b_isinstance),
             'dependent_axes': Builtin('dependent_axes', dep_axes), 'numpy.meshgrid': Builtin('np.meshgrid', meshgrid),
             'pixel2world_single_axis': Builtin('pixel2world_single_axis', p2w), 'numpy.broadcast_to': Builtin('np.broadcast_to', broadcast_to),
             'numpy.ndarray': PType('ndarray'), 'slice': PType('slice'), 'tuple': PType('tuple'), 'list': PType('list')}
        st.w_getitem = w_getitem
        return g

    def ensures(self, cfg, st, result):
        pix, lens = self._true_pixels(st)
        ok = isinstance(result, PObj) and result.cls == 'result' and isinstance(result.fields['of'], PObj) and result.fields['of'].cls == 'world-array'
        if not ok:
            return [('returns-the-broadcast-world-array', False)]
        wa = result.fields['of']
        out = [('single-axis-conversion-called-once-in-xyz-order-for-this-world-axis',
                len(st.calls) == 1 and st.calls[0][0] is st.coords and st.calls[0][2] == {'world_axis': st.d - 1 - cfg['world']}),
               ('value-at-q-is-the-world-coordinate-of-the-selected-pixel', wa.fields['value'] == st.W(*pix))]
        # shape: one entry per surviving axis = length of the view there
        shp = result.fields['shape']
        items = list(shp) if isinstance(shp, tuple) else (shp.items if isinstance(shp, PList) else None)
        surv = [i for i, c in enumerate(st.v) if c != 'i']
        out.append(('shape-is-the-shape-of-the-view', items is not None and len(items) == len(surv) and S.And(*[x == lens[i] for x, i in zip(items, surv)])))
        # the integer axes are removed by indexing position 0 of their size-1 axis, all other axes are kept whole
        key = wa.fields['sliced']
        okk = isinstance(key, tuple) and len(key) == st.d and all((k == 0 and not isinstance(k, PSlice)) if c == 'i' else (isinstance(k, PSlice) and k.start is None and k.stop is None and k.step is None)
                                                                 for k, c in zip(key, st.v))
        out.append(('integer-axes-dropped-others-kept', okk))
        return out


from pyvc.interp import Interp as _I15
_prev_getitem15 = _I15.getitem


def _getitem15(self, obj, idx):
    if isinstance(obj, PObj) and obj.cls == 'world-array' and 'sliced' in obj.fields:
        return PObj('world-array', fields={'value': obj.fields['value'], 'lens': obj.fields['lens'], 'sliced': idx})
    return _prev_getitem15(self, obj, idx)


_I15.getitem = _getitem15

CONTRACTS.append(CalculateWorld())


# =================================================================================================
# _connected_axes / dependent_axes: the fixpoint that decides which axes may be dropped (the broadcasting shortcuts rest on it).
# The boolean matrix entries are symbolic; the matrix size is the configuration (every size up to 4 x 4, 6 x 6 thorough).  The while
# loop is under an inductive contract (no unrolling): the current sets contain the seeds and are contained in EVERY closed pair of sets
# that contains the seeds (the pair (Pc, Wc) is arbitrary: free constants of the VC); on return the pair is itself closed, hence the
# least closed pair = the axes connected to the seeds.  Variant: number of axes not yet marked.
# numpy facts used (trusted): zeros(n, bool) is all False; a[list] = True sets those entries; m[:, p].any(axis=1)[w] = exists j. p[j] and
# m[w, j]; m[w, :].any(axis=0)[j] = exists i. w[i] and m[i, j]; | and == are element-wise; np.all is the conjunction; np.nonzero(v)[0] are
# the indices of the True entries in increasing order; m[::-1, ::-1][i, j] = m[nw-1-i, np-1-j].

def _B(x):
    return x if is_z3(x) else z3.BoolVal(bool(x))


def bvec(items):
    v = PObj('boolvec', fields={'items': [_B(x) for x in items]})

    def items_of(o):
        if isinstance(o, PObj) and o.cls == 'boolvec':
            return o.fields['items']
        raise Unsupported("boolean vector combined with %r" % (o,))

    def setitem(I, self_, idx, val):
        idx = idx.items if isinstance(idx, PList) else list(idx)
        for i in idx:
            if not isinstance(i, int) or isinstance(i, bool):
                raise Unsupported("boolean vector indexed by %r" % (i,))
            if not -len(self_.fields['items']) <= i < len(self_.fields['items']):
                I.raise_exc('IndexError', "index out of bounds")
            self_.fields['items'][i] = _B(val)
    v.methods['__or__'] = lambda I, a, b: bvec([z3.Or(x, y) for x, y in zip(a.fields['items'], items_of(b))])
    v.methods['__eq__'] = lambda I, a, b: bvec([x == y for x, y in zip(a.fields['items'], items_of(b))])
    v.methods['__setitem__'] = setitem
    return v


def bmat(rows):
    m = PObj('boolmat', fields={'rows': [[_B(x) for x in r] for r in rows], 'shape': (len(rows), len(rows[0]) if rows else 0)})

    def whole(s):
        return isinstance(s, PSlice) and s.start is None and s.stop is None and s.step is None

    def rev(s):
        return isinstance(s, PSlice) and s.start is None and s.stop is None and s.step == -1

    def getitem(I, self_, idx):
        rows_ = self_.fields['rows']
        if isinstance(idx, tuple) and len(idx) == 2:
            a, b = idx
            if whole(a) and isinstance(b, PObj) and b.cls == 'boolvec':        # columns where b holds
                sel = PObj('selected-columns')
                sel.methods['any'] = lambda I2, s_, axis=None: (bvec([z3.Or(*[z3.And(p, x) for p, x in zip(b.fields['items'], r)]) for r in rows_])
                                                               if axis == 1 else _unsupported("any(axis=%r) of selected columns" % (axis,)))
                return sel
            if whole(b) and isinstance(a, PObj) and a.cls == 'boolvec':        # rows where a holds
                sel = PObj('selected-rows')
                ncol = self_.fields['shape'][1]
                sel.methods['any'] = lambda I2, s_, axis=None: (bvec([z3.Or(*[z3.And(w, r[j]) for w, r in zip(a.fields['items'], rows_)]) for j in range(ncol)])
                                                               if axis == 0 else _unsupported("any(axis=%r) of selected rows" % (axis,)))
                return sel
            if (rev(a) or whole(a)) and (rev(b) or whole(b)):
                rs = list(reversed(rows_)) if rev(a) else list(rows_)
                return bmat([list(reversed(r)) if rev(b) else list(r) for r in rs])
        raise Unsupported("boolean matrix indexed by %r" % (idx,))
    m.methods['__getitem__'] = getitem
    return m


def closed(rows, P, W):
    """(P, W) is closed under the correlation matrix: an axis related to a marked axis is marked"""
    cl = []
    for i, r in enumerate(rows):
        for j, x in enumerate(r):
            cl.append(z3.Implies(x, P[j] == W[i]))
    return z3.And(*cl) if cl else z3.BoolVal(True)


class ConnectedAxes(FnContract):
    property_ids = ('C15',)
    target = CH + ":_connected_axes"
    title = ("the returned pixel and world axes are exactly the axes connected - directly or through other axes - to the given ones in the correlation "
             "matrix: they contain the given axes, are closed under the matrix, and lie inside every closed set containing the given axes; the search terminates")

    def configs(self, tier):
        out = []
        mx = 6 if tier == 'thorough' else 4
        for nw in range(1, mx + 1):
            for npx in range(1, mx + 1):
                for a in range(max(nw, npx)):
                    # the three ways the callers ask: from a pixel axis, from a world axis, from both (dependent_axes)
                    for seeds in ('pixel', 'world', 'both'):
                        if seeds == 'pixel' and a >= npx or seeds == 'world' and a >= nw:
                            continue
                        out.append(dict(nw=nw, np=npx, axis=a, seeds=seeds))
        return out

    def inputs(self, cfg, P):
        nw, npx, a = cfg['nw'], cfg['np'], cfg['axis']
        rows = [[z3.Bool('m_%d_%d' % (i, j)) for j in range(npx)] for i in range(nw)]
        pix = [a] if cfg['seeds'] in ('pixel', 'both') and a < npx else []
        wor = [a] if cfg['seeds'] in ('world', 'both') and a < nw else []
        Pc = [z3.Bool('anyclosed_pixel%d' % j) for j in range(npx)]
        Wc = [z3.Bool('anyclosed_world%d' % i) for i in range(nw)]
        st = St(rows=rows, pix=pix, wor=wor, Pc=Pc, Wc=Wc, nw=nw, np=npx)
        return Inputs([bmat(rows)], {'pixel': PList(list(pix)), 'world': PList(list(wor))}, st=st)

    def requires(self, cfg, st):
        # (Pc, Wc): an arbitrary closed pair of sets containing the given axes
        return [('arbitrary-closed-superset', z3.And(closed(st.rows, st.Pc, st.Wc), *([st.Pc[j] for j in st.pix] + [st.Wc[i] for i in st.wor])))]

    def globals_(self, cfg, st):
        def asarray(I, m, dtype=None):
            return m

        def zeros(I, n, dtype=None):
            if not isinstance(n, int):
                raise Unsupported("zeros(%r)" % (n,))
            return bvec([False] * n)

        def np_all(I, v):
            return z3.And(*v.fields['items']) if v.fields['items'] else True
        return {'numpy.asarray': Builtin('np.asarray', asarray), 'numpy.zeros': Builtin('np.zeros', zeros), 'numpy.all': Builtin('np.all', np_all), 'bool': PType('bool')}

    def loops(self, cfg, st):
        def inside(L):
            Pd, Wd = L.pixel_dep.fields['items'], L.world_dep.fields['items']
            return Pd, Wd

        def inv(L):
            Pd, Wd = inside(L)
            return [('contains-the-given-axes', z3.And(*([Pd[j] for j in st.pix] + [Wd[i] for i in st.wor] + [z3.BoolVal(True)]))),
                    ('inside-every-closed-superset', z3.And(*([z3.Implies(x, c) for x, c in zip(Pd, st.Pc)] + [z3.Implies(x, c) for x, c in zip(Wd, st.Wc)])))]

        def unmarked(L):
            Pd, Wd = inside(L)
            return z3.Sum(*[z3.If(x, 0, 1) for x in Pd + Wd]) if len(Pd + Wd) > 1 else z3.If((Pd + Wd)[0], 0, 1)

        def on_iter(what, L):
            if what == 'havoc':
                I = L.interp
                L._env['pixel_dep'] = bvec([I.path.fresh('pixel_dep%d' % j, z3.BoolSort()) for j in range(st.np)])
                L._env['world_dep'] = bvec([I.path.fresh('world_dep%d' % i, z3.BoolSort()) for i in range(st.nw)])
        return {0: LoopSpec(inv, decreases=unmarked, on_iter=on_iter)}

    def ensures(self, cfg, st, result):
        ok = isinstance(result, tuple) and len(result) == 2 and all(isinstance(x, PObj) and x.cls == 'boolvec' for x in result)
        if not ok:
            return [('returns-pixel-and-world-marks', False)]
        Pd, Wd = result[0].fields['items'], result[1].fields['items']
        return [('one-mark-per-axis', len(Pd) == st.np and len(Wd) == st.nw),
                ('contains-the-given-axes', z3.And(*([Pd[j] for j in st.pix] + [Wd[i] for i in st.wor] + [z3.BoolVal(True)]))),
                ('closed:related-axes-are-marked-together', closed(st.rows, Pd, Wd)),
                ('least:inside-every-closed-superset', z3.And(*([z3.Implies(x, c) for x, c in zip(Pd, st.Pc)] + [z3.Implies(x, c) for x, c in zip(Wd, st.Wc)])))]

    def _native_args(self, cfg, val):
        import numpy as np
        nw, npx, a = cfg['nw'], cfg['np'], cfg['axis']
        m = np.array([[bool(val.get('m_%d_%d' % (i, j), False)) for j in range(npx)] for i in range(nw)], dtype=bool).reshape(nw, npx)
        pix = [a] if cfg['seeds'] in ('pixel', 'both') and a < npx else []
        wor = [a] if cfg['seeds'] in ('world', 'both') and a < nw else []
        return m, pix, wor

    def native(self, cfg, val):
        import numpy as np
        from glue.core.coordinate_helpers import _connected_axes
        m, pix, wor = self._native_args(cfg, val)
        nw, npx = m.shape
        pd, wd = _connected_axes(m, pixel=pix, world=wor)
        # oracle: plain graph search
        P, W = set(pix), set(wor)
        while True:
            W2 = W | {i for i in range(nw) for j in P if m[i, j]}
            P2 = P | {j for j in range(npx) for i in W2 if m[i, j]}
            if (P2, W2) == (P, W):
                break
            P, W = P2, W2
        got = (set(int(x) for x in np.nonzero(pd)[0]), set(int(x) for x in np.nonzero(wd)[0]))
        return (got == (P, W), "%s marks pixel axes %s and world axes %s; connected to the given axes are %s and %s"
                % (self.native_call(cfg, val), sorted(got[0]), sorted(got[1]), sorted(P), sorted(W)))

    def native_call(self, cfg, val):
        m, pix, wor = self._native_args(cfg, val)
        return "_connected_axes(%r, pixel=%r, world=%r)" % (m.astype(int).tolist(), pix, wor)


CONTRACTS.append(ConnectedAxes())


# =================================================================================================
def _members(o, n):
    m = list(o.fields['member'])
    return m + [z3.BoolVal(False)] * (n - len(m))


def _idx(cls, member, **kw):
    o = PObj(cls, fields=dict(member=list(member), **kw))
    if cls == 'index-set':
        def union(I, a, b):
            if not (isinstance(b, PObj) and b.cls == 'index-set'):
                raise Unsupported("set | %r" % (b,))
            n = max(len(a.fields['member']), len(b.fields['member']))
            return _idx('index-set', [z3.Or(x, y) for x, y in zip(_members(a, n), _members(b, n))])
        o.methods['__or__'] = union
    return o


class DependentAxes(FnContract):
    """dependent_axes(wcs, axis): the matrix is turned into numpy order on both sides, the search starts from the pixel axis AND the world
    axis with that index (when they exist), and the answer is the increasing tuple of every axis marked on either side.  _connected_axes is
    used through its contract (ConnectedAxes): the marks it returns are the least closed pair for the matrix and the axes it was given."""
    property_ids = ('C15',)
    target = CH + ":dependent_axes"
    title = ("for a coordinate object with a correlation matrix the result is the increasing tuple of the axes (numpy order) connected to the pixel axis or the world axis "
             "with the given index: the matrix is reversed on both sides, both axes are starting points, marks of both sides are united; legacy coordinates answer (axis,)")

    def configs(self, tier):
        out = [dict(nw=1, np=1, axis=0, legacy=True), dict(nw=3, np=3, axis=2, legacy=True)]
        mx = 6 if tier == 'thorough' else 4
        for nw in range(1, mx + 1):
            for npx in range(1, mx + 1):
                for a in range(max(nw, npx)):
                    out.append(dict(nw=nw, np=npx, axis=a, legacy=False))
        return out

    def inputs(self, cfg, P):
        nw, npx = cfg['nw'], cfg['np']
        rows = [[z3.Bool('m_%d_%d' % (i, j)) for j in range(npx)] for i in range(nw)]          # coordinate order, as the coordinate object gives it
        wcs = PObj('LegacyCoordinates' if cfg['legacy'] else 'coords')
        wcs.fields['axis_correlation_matrix'] = bmat(rows)
        st = St(rows=rows, nw=nw, np=npx, axis=cfg['axis'], calls=[])
        return Inputs([wcs, cfg['axis']], st=st)

    def globals_(self, cfg, st):
        def connected(I, matrix, pixel=(), world=()):
            pix = pixel.items if isinstance(pixel, PList) else list(pixel)
            wor = world.items if isinstance(world, PList) else list(world)
            if not (isinstance(matrix, PObj) and matrix.cls == 'boolmat'):
                raise Unsupported("_connected_axes(%r)" % (matrix,))
            mrows = matrix.fields['rows']
            nw_, np_ = matrix.fields['shape']
            Pd = [I.path.fresh('pixel_marked%d' % j, z3.BoolSort()) for j in range(np_)]
            Wd = [I.path.fresh('world_marked%d' % i, z3.BoolSort()) for i in range(nw_)]
            # postcondition of ConnectedAxes (the 'least' clause is about every closed superset and is not needed by this caller)
            I.path.assume(z3.And(closed(mrows, Pd, Wd), *([Pd[j] for j in pix] + [Wd[i] for i in wor])))
            st.calls.append((mrows, pix, wor, Pd, Wd))
            return (bvec(Pd), bvec(Wd))

        def nonzero(I, v):
            if not (isinstance(v, PObj) and v.cls == 'boolvec'):
                raise Unsupported("np.nonzero(%r)" % (v,))
            return (_idx('index-array', v.fields['items'], increasing=True),)

        def set_(I, v=()):
            if isinstance(v, PObj) and v.cls in ('index-array', 'index-set'):
                return _idx('index-set', v.fields['member'])
            from pyvc.builtins import b_set
            return b_set(I, v)

        def sorted_(I, v):
            if isinstance(v, PObj) and v.cls in ('index-array', 'index-set'):
                return _idx('index-list', v.fields['member'], increasing=True)
            raise Unsupported("sorted(%r)" % (v,))

        def tuple_(I, v=()):
            if isinstance(v, PObj) and v.cls in ('index-array', 'index-list'):
                return _idx('index-tuple', v.fields['member'], increasing=bool(v.fields.get('increasing')))
            if isinstance(v, PObj) and v.cls == 'index-set':
                # CPython iterates a set of small non-negative integers (below the table size 8, no deletions) in increasing order: a body
                # that omits sorted() still satisfies the property here, so it must not raise an alarm
                return _idx('index-tuple', v.fields['member'], increasing=len(v.fields['member']) <= 8)
            from pyvc.builtins import BUILTINS
            return I.call(BUILTINS['tuple'], [v], {})
        return {'_connected_axes': Builtin('_connected_axes', connected), 'numpy.nonzero': Builtin('np.nonzero', nonzero), 'set': Builtin('set', set_),
                'sorted': Builtin('sorted', sorted_), 'tuple': Builtin('tuple', tuple_), 'LegacyCoordinates': PType('LegacyCoordinates')}

    def ensures(self, cfg, st, result):
        a = st.axis
        if cfg['legacy']:
            return [('legacy-coordinates:only-the-axis-itself', isinstance(result, tuple) and len(result) == 1 and result[0] == a),
                    ('no-search', len(st.calls) == 0)]
        if len(st.calls) != 1:
            return [('connected-axes-searched-once', False)]
        mrows, pix, wor, Pd, Wd = st.calls[0]
        nw, npx = st.nw, st.np
        want = [[st.rows[nw - 1 - i][npx - 1 - j] for j in range(npx)] for i in range(nw)]
        same = len(mrows) == nw and all(len(r) == npx for r in mrows) and all(z3.eq(mrows[i][j], want[i][j]) for i in range(nw) for j in range(npx))
        out = [('matrix-in-numpy-order-on-both-sides', same),
               ('starts-from-the-pixel-axis-when-there-is-one', pix == ([a] if a < npx else [])),
               ('starts-from-the-world-axis-when-there-is-one', wor == ([a] if a < nw else []))]
        ok = isinstance(result, PObj) and result.cls == 'index-tuple'
        out.append(('returns-a-tuple-of-axes', ok))
        if ok:
            n = max(nw, npx)
            mem = _members(result, n)
            P_, W_ = Pd + [z3.BoolVal(False)] * (n - npx), Wd + [z3.BoolVal(False)] * (n - nw)
            out.append(('increasing-order', bool(result.fields.get('increasing'))))
            out.append(('no-axis-beyond-the-matrix', len(result.fields['member']) <= n))
            out.append(('exactly-the-axes-marked-on-either-side', z3.And(*[mem[k] == z3.Or(P_[k], W_[k]) for k in range(n)])))
        return out

    def _native_args(self, cfg, val):
        import numpy as np
        nw, npx = cfg['nw'], cfg['np']
        return np.array([[bool(val.get('m_%d_%d' % (i, j), False)) for j in range(npx)] for i in range(nw)], dtype=bool).reshape(nw, npx)

    def native(self, cfg, val):
        import numpy as np
        from glue.core.coordinate_helpers import dependent_axes
        if cfg['legacy']:
            return None
        m = self._native_args(cfg, val)

        class C:
            axis_correlation_matrix = m
        nw, npx = m.shape
        a = cfg['axis']
        r = m[::-1, ::-1]
        P, W = ({a} if a < npx else set()), ({a} if a < nw else set())
        while True:
            W2 = W | {i for i in range(nw) for j in P if r[i, j]}
            P2 = P | {j for j in range(npx) for i in W2 if r[i, j]}
            if (P2, W2) == (P, W):
                break
            P, W = P2, W2
        exp = tuple(sorted(P | W))
        got = tuple(int(x) for x in dependent_axes(C(), a))
        return (got == exp, "%s = %r; the axes connected to axis %d are %r" % (self.native_call(cfg, val), got, a, exp))

    def native_call(self, cfg, val):
        return "dependent_axes(coords with axis_correlation_matrix=%r, %d)" % (self._native_args(cfg, val).astype(int).tolist(), cfg['axis'])


CONTRACTS.append(DependentAxes())


# =================================================================================================
from pyvc.values import BoundMethod as _BoundMethod

DATA = "glue/core/data.py"


class CoordinateLinkInit(FnContract):
    """CoordinateComponentLink.__init__: the link's inputs are exactly the identifiers at the positions dependent_axes returns, in that order
    (using() places the arguments back by the same tuple, see LinkUsing), and everything using() reads later is stored."""
    property_ids = ('C15',)
    target = CL + ":CoordinateComponentLink.__init__"
    title = ("dependent_axes is asked for this coordinate object and index; the link's inputs are the identifiers at exactly those positions, in that order; target, "
             "coordinate object, index, direction, rank and the needed positions are stored for using()")

    def configs(self, tier):
        out = []
        for nd in (1, 2, 3):
            for index in range(nd):
                for r in range(1, nd + 1):
                    for needed in itertools.combinations(range(nd), r):
                        for p2w in (True, False, None):
                            out.append(dict(ndim=nd, index=index, needed=','.join(map(str, needed)), pixel2world=str(p2w)))
        return out

    def inputs(self, cfg, P):
        nd = cfg['ndim']
        ids = [PObj('ComponentID', fields={'label': 'from%d' % i}) for i in range(nd)]
        comp_from = PList(list(ids))
        comp_to = PObj('ComponentID', fields={'label': 'to'})
        coords = PObj('coords')
        link = PObj('CoordinateComponentLink')
        link.methods['using'] = lambda I, s, *a: _unsupported("using() is not called by the constructor")
        needed = tuple(int(x) for x in cfg['needed'].split(','))
        st = St(nd=nd, ids=ids, comp_from=comp_from, comp_to=comp_to, coords=coords, link=link, needed=needed, asked=[], supers=[])
        kw = {} if cfg['pixel2world'] == 'None' else {'pixel2world': cfg['pixel2world'] == 'True'}
        return Inputs([link, comp_from, comp_to, coords, cfg['index']], kw, st=st)

    def globals_(self, cfg, st):
        def dep_axes(I, coords, index):
            st.asked.append((coords, index))
            return st.needed

        def super_(I, *a):
            proxy = PObj('super')
            proxy.methods['__init__'] = lambda I2, s, *args, **kw: st.supers.append((args, kw))
            return proxy
        return {'dependent_axes': Builtin('dependent_axes', dep_axes), 'super': Builtin('super', super_), 'CoordinateComponentLink': PType('CoordinateComponentLink')}

    def ensures(self, cfg, st, result):
        f = st.link.fields
        want_dir = cfg['pixel2world'] != 'False'
        out = [('dependent-axes-asked-once-for-this-object-and-index', len(st.asked) == 1 and st.asked[0][0] is st.coords and st.asked[0][1] == cfg['index']),
               ('base-constructor-called-once', len(st.supers) == 1)]
        if len(st.supers) == 1:
            args, kw = st.supers[0]
            ok = len(args) == 3 and not kw
            out.append(('base-constructor-gets-inputs-target-function', ok))
            if ok:
                got = args[0].items if isinstance(args[0], PList) else (list(args[0]) if isinstance(args[0], (list, tuple)) else None)
                out.append(('inputs-are-the-identifiers-at-the-needed-positions-in-order',
                            got is not None and len(got) == len(st.needed) and all(g is st.ids[i] for g, i in zip(got, st.needed))))
                out.append(('target-is-the-given-identifier', args[1] is st.comp_to))
                out.append(('function-is-the-link\'s-own-using', isinstance(args[2], _BoundMethod) and args[2].obj is st.link and args[2].name == 'using'))
        out += [('stores-the-coordinate-object', f.get('coords') is st.coords), ('stores-the-index', f.get('index') == cfg['index']),
                ('stores-the-direction', f.get('pixel2world') is want_dir), ('stores-the-rank', f.get('ndim') == st.nd),
                ('stores-the-needed-positions', f.get('from_needed') == st.needed)]
        return out


class SetUpCoordinateLinks(FnContract):
    property_ids = ('C15',)
    target = DATA + ":Data._set_up_coordinate_component_links"
    title = ("for every axis i one pixel->world link (all pixel identifiers -> world identifier i, index i) and one world->pixel link (all world identifiers -> pixel identifier i, "
             "index i, pixel2world=False), both on the dataset's coordinate object, in that order; the list is stored and returned; without coordinates nothing is created")

    def configs(self, tier):
        return [dict(ndim=n, coords=c) for n in (0, 1, 2, 3, 4) for c in (True, False)]

    def inputs(self, cfg, P):
        n = cfg['ndim']
        pix = PList([PObj('ComponentID', fields={'label': 'pixel%d' % i}) for i in range(n)])
        wor = PList([PObj('ComponentID', fields={'label': 'world%d' % i}) for i in range(n)])
        coords = PObj('coords') if cfg['coords'] else None
        before = PObj('earlier-links')
        d = PObj('Data', fields={'coords': coords, '_pixel_component_ids': pix, '_world_component_ids': wor, '_coordinate_links': before})
        st = St(d=d, pix=pix, wor=wor, coords=coords, before=before, made=[], n=n)
        return Inputs([d, n], st=st)

    def globals_(self, cfg, st):
        def mk(I, comp_from, comp_to, coords, index, pixel2world=True):
            link = PObj('CoordinateComponentLink', fields={'comp_from': comp_from, 'comp_to': comp_to, 'coords': coords, 'index': index, 'pixel2world': pixel2world})
            st.made.append(link)
            return link
        return {'CoordinateComponentLink': Builtin('CoordinateComponentLink', mk)}

    def ensures(self, cfg, st, result):
        if not cfg['coords']:
            return [('no-coordinates:returns-nothing', result is None), ('no-coordinates:no-link-created', len(st.made) == 0),
                    ('no-coordinates:stored-links-untouched', st.d.fields.get('_coordinate_links') is st.before)]
        ok = isinstance(result, PList) and len(result.items) == 2 * st.n
        out = [('two-links-per-axis', ok), ('stored-on-the-dataset', st.d.fields.get('_coordinate_links') is result),
               ('nothing-else-created', len(st.made) == 2 * st.n)]
        if ok:
            for i in range(st.n):
                a, b = result.items[2 * i], result.items[2 * i + 1]
                fa, fb = a.fields, b.fields
                out.append(('axis-%d:pixel-to-world-link' % i, fa['comp_from'] is st.pix and fa['comp_to'] is st.wor.items[i] and fa['coords'] is st.coords
                            and fa['index'] == i and fa['pixel2world'] is True))
                out.append(('axis-%d:world-to-pixel-link' % i, fb['comp_from'] is st.wor and fb['comp_to'] is st.pix.items[i] and fb['coords'] is st.coords
                            and fb['index'] == i and fb['pixel2world'] is False))
        return out


CONTRACTS.append(CoordinateLinkInit())
CONTRACTS.append(SetUpCoordinateLinks())
