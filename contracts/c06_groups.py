"""C06 - sidecar contracts for subset-group bookkeeping, executed on a FINITE-UNIVERSE abstract heap.

Universe: datasets D0..D2 (any subset of them member of the collection), 0..2 live subset groups, the hub replaced by its
C07 contract (synchronous delivery to the handlers subscribed for the message class; a delay block queues and flushes at exit).
Every membership configuration of the universe is enumerated ([E]); the real function text is executed by the symbolic
executor against callee contracts, and the well-formedness predicate WF is evaluated on the resulting heap:

  WF:  no duplicates in _data / _subset_groups / d._subsets ;  every member dataset has exactly one subset per live group and
       no grouped subset of any other group ;  every group lists exactly those subsets ;  every live group is subscribed to the
       collection's add/delete messages ;  a removed dataset carries no subset of a live group ;  a removed group has no subset
       attached to a member dataset and is no longer subscribed.

These obligations are decided by evaluation on the abstract heap (back end "evaluation"), exhaustively over the stated universe.
"""
import itertools
import z3

from pyvc.verify import FnContract, Inputs, St
from pyvc.interp import Interp, Hooks
from pyvc.values import PObj, PList, Builtin, PyRaise, ExcVal, PType, Unsupported, PLambda, BoundMethod
from pyvc.extract import FunctionText

SG = "glue/core/subset_group.py"
DCF = "glue/core/data_collection.py"

INLINE = {
    ('SubsetGroup', '_add_data'): (SG, 'SubsetGroup._add_data'),
    ('SubsetGroup', '_remove_data'): (SG, 'SubsetGroup._remove_data'),
    ('SubsetGroup', 'register_to_hub'): (SG, 'SubsetGroup.register_to_hub'),
    ('SubsetGroup', 'register'): (SG, 'SubsetGroup.register'),
    ('DataCollection', 'append'): (DCF, 'DataCollection.append'),
    ('DataCollection', 'remove'): (DCF, 'DataCollection.remove'),
    ('DataCollection', 'extend'): (DCF, 'DataCollection.extend'),
    ('HubListener', 'unregister'): ('glue/core/hub.py', 'HubListener.unregister'),
}


class Heap:
    """abstract heap + the callee contracts used at call sites"""

    def __init__(self, members, ngroups, delay_open=False):
        self.log = []
        self.globals = {}
        self.hub = self.make_hub()
        self.datas = [self.make_data(i) for i in range(3)]
        self.dc = self.make_dc()
        self.groups = []
        self.removed_groups = []
        self.removed_data = []
        for i in members:
            self.dc.fields['_data'].items.append(self.datas[i])
        for j in range(ngroups):
            g = self.make_group('G%d' % j)
            self.dc.fields['_subset_groups'].items.append(g)
            self.groups.append(g)
            self.subscribe_group(g)
            for d in self.dc.fields['_data'].items:
                s = self.make_subset(d, g)
                d.fields['_subsets'].items.append(s)
                g.fields['subsets'].items.append(s)
        self.globals.update(self.make_globals())

    # ---- objects
    def real(self, cls, name, obj):
        rel, qual = INLINE[(cls, name)]
        ft = FunctionText(rel, qual)

        def m(I, self_, *a, **k):
            sub = Interp(I.path, self.globals, Hooks(name=I.hooks.name), ft)
            return sub.run_function(ft, [self_] + list(a), k)
        return m

    def make_hub(self):
        hub = PObj('Hub', fields={'subs': [], 'paused': 0, 'queue': []})

        def subscribe(I, self_, listener, mclass, handler=None, filter=None, priority=10):
            self_.fields['subs'] = [x for x in self_.fields['subs'] if not (x[0] is listener and x[1] == mclass)] + [(listener, mclass, handler)]

        def unsubscribe_all(I, self_, listener):
            self_.fields['subs'] = [x for x in self_.fields['subs'] if x[0] is not listener]

        def deliver(I, msg):
            for listener, mclass, handler in list(self_subs()):
                if mclass.name == msg.cls:
                    I.call(handler, [msg], {})

        def self_subs():
            return hub.fields['subs']

        def broadcast(I, self_, msg):
            self.log.append(('broadcast', msg.cls))
            if self_.fields['paused'] > 0:
                self_.fields['queue'].append(msg)
            else:
                deliver(I, msg)

        def delay_callbacks(I, self_):
            def enter():
                self_.fields['paused'] += 1

            def exit_(exc):
                self_.fields['paused'] -= 1
                if self_.fields['paused'] == 0:
                    q, self_.fields['queue'] = self_.fields['queue'], []
                    for m in q:
                        broadcast(I, self_, m)
            return ('__cm__', enter, exit_)
        hub.methods.update({'subscribe': subscribe, 'unsubscribe_all': unsubscribe_all, 'broadcast': broadcast,
                            'delay_callbacks': delay_callbacks, '__bool__': lambda I, s: True})
        return hub

    def is_subscribed(self, g, mname):
        return any(l is g and c.name == mname for l, c, h in self.hub.fields['subs'])

    def subscribe_group(self, g):
        # what SubsetGroup.register_to_hub establishes (that function is verified separately below)
        def add(I, msg, g=g):
            return I.call(BoundMethod(g, '_add_data'), [msg.fields['data']], {})

        def rem(I, msg, g=g):
            return I.call(BoundMethod(g, '_remove_data'), [msg.fields['data']], {})
        self.hub.fields['subs'] += [(g, PType('DataCollectionAddMessage'), Builtin('add', add)),
                                    (g, PType('DataCollectionDeleteMessage'), Builtin('rem', rem))]

    def make_data(self, i):
        d = PObj('Data', fields={'label': 'D%d' % i, '_subsets': PList([]), 'hub': None})
        d.fields['__bases__'] = ('BaseCartesianData', 'BaseData', 'Data')
        d.methods['subsets'] = ('__property__', lambda I, self_: tuple(self_.fields['_subsets'].items))

        def add_subset(I, self_, s):
            # contract of BaseData.add_subset (verified separately): idempotent attach
            if any(x is s for x in self_.fields['_subsets'].items):
                return None
            self_.fields['_subsets'].items.append(s)
            s.fields['data'] = self_
            self.log.append(('add_subset', self_.fields['label']))
            return None
        d.methods.update({'add_subset': add_subset, 'register_to_hub': lambda I, self_, hub: self_.fields.__setitem__('hub', hub),
                          '__bool__': lambda I, s: True})
        return d

    def make_subset(self, d, g):
        s = PObj('GroupedSubset', fields={'data': d, 'group': g})
        s.methods['label'] = ('__property__', lambda I, self_: self_.fields['group'].fields['label'])

        def delete(I, self_):
            # contract of Subset.delete (verified separately): detach from its dataset
            dd = self_.fields['data']
            if dd is not None:
                dd.fields['_subsets'].items[:] = [x for x in dd.fields['_subsets'].items if x is not self_]
            self.log.append(('delete',))
            return None

        def register(I, self_):
            return I.call(BoundMethod(self_.fields['data'], 'add_subset'), [self_], {})
        s.methods.update({'delete': delete, 'register': register})
        return s

    def make_group(self, label):
        # groups may legally share a label (and a grouped subset shows its group's label): every group of the heap carries the SAME
        # label, the worst case for anything keyed by label instead of identity; 'name' tells them apart in messages
        g = PObj('SubsetGroup', fields={'label': 'shared-label', 'name': label, 'subsets': PList([])})
        for nm in ('_add_data', '_remove_data', 'register_to_hub', 'register'):
            g.methods[nm] = self.real('SubsetGroup', nm, g)
        g.methods['unregister'] = self.real('HubListener', 'unregister', g)
        g.methods['__bool__'] = lambda I, s: True
        return g

    def make_dc(self):
        dc = PObj('DataCollection', fields={'_data': PList([]), '_subset_groups': PList([]), 'hub': self.hub, '_sg_count': 0})
        dc.fields['__bases__'] = ('DataCollection',)
        for nm in ('append', 'remove', 'extend'):
            dc.methods[nm] = self.real('DataCollection', nm, dc)
        dc.methods['__iter__'] = lambda I, self_: self_.fields['_data']       # iter(self._data): the live list
        dc.methods['__contains__'] = lambda I, self_, o: any(o is x for x in self_.fields['_data'].items)
        dc.methods['_sync_link_manager'] = lambda I, self_: None
        dc.methods['subset_groups'] = ('__property__', lambda I, self_: tuple(self_.fields['_subset_groups'].items))

        def ignore_lm(I, self_):
            return ('__cm__', lambda: None, lambda exc: None)
        dc.methods['_ignore_link_manager_update'] = ignore_lm
        return dc

    def make_globals(self):
        def msg(cls):
            def ctor(I, sender, data=None, *a, **k):
                return PObj(cls, fields={'sender': sender, 'data': data})
            return Builtin(cls, ctor)

        def grouped_subset(I, d, g):
            return self.make_subset(d, g)

        def registry(I):
            return PObj('Registry', methods={'unregister': lambda I2, s, *a, **k: None})

        def subset_group(I, label=None, subset_state=None, **kw):
            g = self.make_group(label)
            g.fields['subset_state'] = subset_state
            return g
        g = {m: msg(m) for m in ('DataCollectionAddMessage', 'DataCollectionDeleteMessage')}
        g.update({'GroupedSubset': Builtin('GroupedSubset', grouped_subset), 'Registry': Builtin('Registry', registry),
                  'BaseCartesianData': PType('BaseCartesianData'), 'Data': PType('Data'), 'SubsetGroup': Builtin('SubsetGroup', subset_group),
                  'settings': PObj('settings', fields={'SUBSET_COLORS': PList(['c0', 'c1', 'c2'])})})
        # message classes as values for hub.subscribe
        for m in ('DataCollectionAddMessage', 'DataCollectionDeleteMessage'):
            ctor = g[m]
            g[m] = MsgClass(m, ctor)
        return g

    # ---- WF on the abstract heap
    def wf(self):
        bad = []
        data = self.dc.fields['_data'].items
        groups = self.dc.fields['_subset_groups'].items
        if len(set(map(id, data))) != len(data):
            bad.append("duplicate dataset")
        if len(set(map(id, groups))) != len(groups):
            bad.append("duplicate group")
        for d in data:
            subs = d.fields['_subsets'].items
            if len(set(map(id, subs))) != len(subs):
                bad.append("%s lists a subset twice" % d.fields['label'])
            for g in groups:
                n = sum(1 for s in subs if s.fields['group'] is g)
                if n != 1:
                    bad.append("%s has %d subsets for %s" % (d.fields['label'], n, g.fields.get('name', g.fields['label'])))
            for s in subs:
                if not any(s.fields['group'] is g for g in groups):
                    bad.append("%s carries a subset of a dead group" % d.fields['label'])
                if s.fields['data'] is not d:
                    bad.append("subset of %s points elsewhere" % d.fields['label'])
        for g in groups:
            listed = g.fields['subsets'].items
            exp = [s for d in data for s in d.fields['_subsets'].items if s.fields['group'] is g]
            if set(map(id, listed)) != set(map(id, exp)) or len(listed) != len(exp):
                bad.append("%s lists %d subsets, member datasets carry %d" % (g.fields.get('name', g.fields['label']), len(listed), len(exp)))
            if not (self.is_subscribed(g, 'DataCollectionAddMessage') and self.is_subscribed(g, 'DataCollectionDeleteMessage')):
                bad.append("live group %s not subscribed" % g.fields.get('name', g.fields['label']))
        for d in self.datas:
            if not any(d is x for x in data):
                if any(any(s.fields['group'] is g for g in groups) for s in d.fields['_subsets'].items):
                    bad.append("non-member %s carries a subset of a live group" % d.fields['label'])
        for g in self.removed_groups:
            if any(g is x for x in groups):
                continue
            for s in g.fields['subsets'].items:
                dd = s.fields['data']
                if any(dd is x for x in data) and any(s is x for x in dd.fields['_subsets'].items):
                    bad.append("removed group %s still attached to %s" % (g.fields.get('name', g.fields['label']), dd.fields['label']))
            if self.is_subscribed(g, 'DataCollectionAddMessage') or self.is_subscribed(g, 'DataCollectionDeleteMessage'):
                bad.append("removed group %s still subscribed" % g.fields.get('name', g.fields['label']))
        return bad


class MsgClass(PType):
    """a message class: usable as a value (hub.subscribe) and callable (constructor)"""

    def __init__(self, name, ctor):
        PType.__init__(self, name)
        self.ctor = ctor


def _call_msgclass(interp_call):
    def call(self, fv, args, kwargs):
        if isinstance(fv, MsgClass):
            return fv.ctor.fn(self, *args, **kwargs)
        return interp_call(self, fv, args, kwargs)
    return call


Interp.call = _call_msgclass(Interp.call)

MEMBERS = [m for k in range(4) for m in itertools.combinations(range(3), k)]


class HeapContract(FnContract):
    property_ids = ('C06',)

    def base_configs(self):
        return [dict(members=''.join(map(str, m)), groups=g) for m in MEMBERS for g in (0, 1, 2)]

    def heap(self, cfg):
        h = Heap([int(c) for c in cfg['members']], cfg['groups'])
        assert not h.wf(), h.wf()
        return h

    def globals_(self, cfg, st):
        return st.h.globals

    def check_wf(self, qn, st, P, outcome):
        P.check(qn + "/does-not-raise", outcome[0] == 'return')
        bad = st.h.wf()
        P.check(qn + "/ensures:WF" + ("" if not bad else ":" + bad[0].replace(' ', '-')), not bad)


class AddDataC(HeapContract):
    target = SG + ":SubsetGroup._add_data"
    title = "creates exactly one subset for (dataset, this group), attached to the dataset and listed by the group; nothing else changes"

    def configs(self, tier):
        return [dict(c, data=d) for c in self.base_configs() if c['groups'] >= 1 for d in range(3) if str(d) not in c['members']]

    def inputs(self, cfg, P):
        h = self.heap(cfg)
        d, g = h.datas[cfg['data']], h.groups[0]
        before = {id(x): list(x.fields['_subsets'].items) for x in h.datas}
        return Inputs([g, d], st=St(h=h, d=d, g=g, before=before, others=[list(x.fields['subsets'].items) for x in h.groups[1:]]))

    def finish(self, cfg, st, P, outcome):
        qn = "SubsetGroup._add_data[%s]" % self.cfg_name(cfg)
        P.check(qn + "/does-not-raise", outcome[0] == 'return')
        mine = [s for s in st.d.fields['_subsets'].items if s.fields['group'] is st.g]
        P.check(qn + "/ensures:exactly-one-new-subset-on-the-dataset", len(mine) == 1 and len(st.d.fields['_subsets'].items) == len(st.before[id(st.d)]) + 1)
        P.check(qn + "/ensures:listed-by-the-group-once", len(mine) == 1 and sum(1 for s in st.g.fields['subsets'].items if s is mine[0]) == 1)
        P.check(qn + "/ensures:subset-points-to-dataset-and-group", len(mine) == 1 and mine[0].fields['data'] is st.d)
        P.check(qn + "/frame:other-datasets-and-groups-untouched",
                all(x.fields['_subsets'].items == st.before[id(x)] for x in st.h.datas if x is not st.d) and
                all(x.fields['subsets'].items == o for x, o in zip(st.h.groups[1:], st.others)))


class RemoveDataC(HeapContract):
    target = SG + ":SubsetGroup._remove_data"
    title = "the group's subset for the dataset is unlisted AND detached from the dataset; other subsets untouched"

    def configs(self, tier):
        return [dict(c, data=int(d)) for c in self.base_configs() if c['groups'] >= 1 for d in c['members']]

    def inputs(self, cfg, P):
        h = self.heap(cfg)
        d, g = h.datas[cfg['data']], h.groups[0]
        before = {id(x): list(x.fields['_subsets'].items) for x in h.datas}
        return Inputs([g, d], st=St(h=h, d=d, g=g, before=before))

    def finish(self, cfg, st, P, outcome):
        qn = "SubsetGroup._remove_data[%s]" % self.cfg_name(cfg)
        P.check(qn + "/does-not-raise", outcome[0] == 'return')
        P.check(qn + "/ensures:group-no-longer-lists-a-subset-of-the-dataset", not any(s.fields['data'] is st.d for s in st.g.fields['subsets'].items))
        P.check(qn + "/ensures:dataset-no-longer-carries-a-subset-of-the-group", not any(s.fields['group'] is st.g for s in st.d.fields['_subsets'].items))
        P.check(qn + "/frame:other-groups'-subsets-on-the-dataset-kept",
                [s for s in st.before[id(st.d)] if s.fields['group'] is not st.g] == st.d.fields['_subsets'].items)
        P.check(qn + "/frame:other-datasets-untouched", all(x.fields['_subsets'].items == st.before[id(x)] for x in st.h.datas if x is not st.d))


class RegisterToHubC(HeapContract):
    target = SG + ":SubsetGroup.register_to_hub"
    title = "subscribes the group to collection add and delete messages with handlers that add / remove the message's dataset"

    def configs(self, tier):
        return [dict(members='01', groups=0)]

    def inputs(self, cfg, P):
        h = self.heap(cfg)
        g = h.make_group('new')
        return Inputs([g, h.hub], st=St(h=h, g=g))

    def finish(self, cfg, st, P, outcome):
        qn = "SubsetGroup.register_to_hub[-]"
        h, g = st.h, st.g
        P.check(qn + "/ensures:subscribed-to-add-and-delete", h.is_subscribed(g, 'DataCollectionAddMessage') and h.is_subscribed(g, 'DataCollectionDeleteMessage'))
        # behaviour of the handlers: deliver an add and then a delete message for D2
        I = Interp(P, h.globals, Hooks(name=qn), None)
        d = h.datas[2]
        for l, c, hd in list(h.hub.fields['subs']):
            if l is g and c.name == 'DataCollectionAddMessage':
                I.call(hd, [PObj('DataCollectionAddMessage', fields={'sender': h.dc, 'data': d})], {})
        P.check(qn + "/ensures:add-handler-adds-the-message's-dataset", sum(1 for s in d.fields['_subsets'].items if s.fields['group'] is g) == 1)
        for l, c, hd in list(h.hub.fields['subs']):
            if l is g and c.name == 'DataCollectionDeleteMessage':
                I.call(hd, [PObj('DataCollectionDeleteMessage', fields={'sender': h.dc, 'data': d})], {})
        P.check(qn + "/ensures:delete-handler-removes-the-message's-dataset", not any(s.fields['group'] is g for s in d.fields['_subsets'].items))


class AppendC(HeapContract):
    target = DCF + ":DataCollection.append"
    title = "a new dataset becomes a member with exactly one subset per live group; appending a member changes nothing; WF preserved"

    def configs(self, tier):
        return [dict(c, data=d) for c in self.base_configs() for d in range(3)]

    def inputs(self, cfg, P):
        h = self.heap(cfg)
        d = h.datas[cfg['data']]
        return Inputs([h.dc, d], st=St(h=h, d=d, was=str(cfg['data']) in cfg['members'], n=len(h.dc.fields['_data'].items)))

    def finish(self, cfg, st, P, outcome):
        qn = "DataCollection.append[%s]" % self.cfg_name(cfg)
        self.check_wf(qn, st, P, outcome)
        data = st.h.dc.fields['_data'].items
        P.check(qn + "/ensures:member-afterwards-at-the-end-if-new", any(st.d is x for x in data) and (st.was or data[-1] is st.d) and
                len(data) == st.n + (0 if st.was else 1))
        P.check(qn + "/ensures:announced-iff-new", sum(1 for e in st.h.log if e == ('broadcast', 'DataCollectionAddMessage')) == (0 if st.was else 1))


class RemoveC(HeapContract):
    target = DCF + ":DataCollection.remove"
    title = "a member dataset leaves the collection and keeps no subset of a live group; removing a non-member changes nothing; WF preserved"

    def configs(self, tier):
        return [dict(c, data=d) for c in self.base_configs() for d in range(3)]

    def inputs(self, cfg, P):
        h = self.heap(cfg)
        d = h.datas[cfg['data']]
        return Inputs([h.dc, d], st=St(h=h, d=d, was=str(cfg['data']) in cfg['members'], n=len(h.dc.fields['_data'].items)))

    def finish(self, cfg, st, P, outcome):
        qn = "DataCollection.remove[%s]" % self.cfg_name(cfg)
        self.check_wf(qn, st, P, outcome)
        data = st.h.dc.fields['_data'].items
        P.check(qn + "/ensures:not-a-member-afterwards", not any(st.d is x for x in data) and len(data) == st.n - (1 if st.was else 0))
        P.check(qn + "/ensures:announced-iff-it-was-a-member", sum(1 for e in st.h.log if e == ('broadcast', 'DataCollectionDeleteMessage')) == (1 if st.was else 0))


class NewGroupC(HeapContract):
    target = DCF + ":DataCollection.new_subset_group"
    title = "a fresh group joins the collection, subscribed, with exactly one subset in every member dataset; WF preserved"

    def inputs(self, cfg, P):
        h = self.heap(cfg)
        return Inputs([h.dc], {'label': 'fresh'}, st=St(h=h, n=len(h.dc.fields['_subset_groups'].items)))

    def configs(self, tier):
        return self.base_configs()

    def finish(self, cfg, st, P, outcome):
        qn = "DataCollection.new_subset_group[%s]" % self.cfg_name(cfg)
        self.check_wf(qn, st, P, outcome)
        groups = st.h.dc.fields['_subset_groups'].items
        g = outcome[1] if outcome[0] == 'return' else None
        P.check(qn + "/ensures:returns-the-new-last-group", isinstance(g, PObj) and len(groups) == st.n + 1 and groups[-1] is g)
        P.check(qn + "/ensures:group-counter-advanced", st.h.dc.fields['_sg_count'] == 1)


class RemoveGroupC(HeapContract):
    target = DCF + ":DataCollection.remove_subset_group"
    title = "the group leaves the collection, its subsets are detached from every member dataset, it is unsubscribed; WF preserved"

    def configs(self, tier):
        return [dict(c, which=w) for c in self.base_configs() for w in (['0', '1', 'foreign'][:c['groups']] + ['foreign'])]

    def inputs(self, cfg, P):
        h = self.heap(cfg)
        if cfg['which'] == 'foreign':
            g = h.make_group('foreign')
        else:
            g = h.groups[int(cfg['which'])]
            h.removed_groups.append(g)
        return Inputs([h.dc, g], st=St(h=h, g=g, n=len(h.dc.fields['_subset_groups'].items)))

    def finish(self, cfg, st, P, outcome):
        qn = "DataCollection.remove_subset_group[%s]" % self.cfg_name(cfg)
        self.check_wf(qn, st, P, outcome)
        groups = st.h.dc.fields['_subset_groups'].items
        P.check(qn + "/ensures:gone", not any(st.g is x for x in groups) and len(groups) == st.n - (0 if cfg['which'] == 'foreign' else 1))


class ClearC(HeapContract):
    target = DCF + ":DataCollection.clear"
    title = "every dataset leaves the collection, none keeps a subset of a live group; WF preserved"

    def configs(self, tier):
        return self.base_configs()

    def inputs(self, cfg, P):
        h = self.heap(cfg)
        return Inputs([h.dc], st=St(h=h))

    def finish(self, cfg, st, P, outcome):
        qn = "DataCollection.clear[%s]" % self.cfg_name(cfg)
        self.check_wf(qn, st, P, outcome)
        P.check(qn + "/ensures:empty", len(st.h.dc.fields['_data'].items) == 0)


class GroupRegisterC(HeapContract):
    target = SG + ":SubsetGroup.register"
    title = "a group registered to a collection is subscribed and gets exactly one subset in every member dataset, each listed once"

    def configs(self, tier):
        return [c for c in self.base_configs() if c['groups'] <= 1]

    def inputs(self, cfg, P):
        h = self.heap(cfg)
        g = h.make_group('fresh')
        h.dc.fields['_subset_groups'].items.append(g)
        return Inputs([g, h.dc], st=St(h=h, g=g))

    def finish(self, cfg, st, P, outcome):
        qn = "SubsetGroup.register[%s]" % self.cfg_name(cfg)
        self.check_wf(qn, st, P, outcome)


CONTRACTS = [AddDataC(), RemoveDataC(), RegisterToHubC(), AppendC(), RemoveC(), NewGroupC(), RemoveGroupC(), ClearC(), GroupRegisterC()]
