"""C05 / C03 - LinkManager.update_externally_derivable_components under contract, with re-entrant listeners.

Data._set_externally_derivable_components broadcasts synchronously; a listener may change the links of the collection from inside
that broadcast, which runs a complete refresh (this very function, re-entered) before the outer loop resumes.  Ghost state:

    version        the number of the current set of registered links (bumped by a listener that changes the links)
    derived[d]     the version of the link set from which dataset d's derivable attributes were last computed

  requires   -
  ensures    on return every dataset of the collection has derived[d] == version: no dataset is left with attributes computed from a
             set of links that is no longer the registered one; each dataset is given exactly the attributes discover_links reports
             for it; afterwards every dataset is told exactly the datasets it is pixel-aligned with
  re-entry   the inner refresh is used through this same postcondition (modular): after it, derived[d] == version for every d

The listener's decision (change the links or not, after each dataset) is symbolic; three datasets.
"""
import z3

from pyvc.verify import FnContract, Inputs, St
from pyvc.values import PObj, PList, Builtin, PType

LM = "glue/core/link_manager.py"
CONTRACTS = []


class RefreshDerivable(FnContract):
    property_ids = ('C05', 'C03')
    target = LM + ":LinkManager.update_externally_derivable_components"
    title = ("on return every dataset's derivable attributes are computed from the links registered at that moment, also when a listener changes the links "
             "(and thereby re-enters the refresh) from inside a notification; every dataset is told exactly its pixel-aligned datasets")

    def configs(self, tier):
        return [dict(n=n, collection=True) for n in (1, 2, 3)] + [dict(n=1, collection=False), dict(n=0, collection=False)]

    def inputs(self, cfg, P):
        n = max(cfg['n'], 1)
        st = St(cfg=cfg, version=0, derived={}, sets=[], aligned_calls=[], aligned_truth={}, step=0, P=P)
        datasets = [PObj('Data', fields={'label': 'd%d' % i, '__bases__': ('BaseCartesianData', 'Data')}) for i in range(n)]
        st.datasets = datasets
        for d in datasets:
            st.derived[id(d)] = 0

        def setter(I, self_, comps):
            vs = set(c.fields['link'].fields['version'] for c in comps.values()) if isinstance(comps, dict) else {'?'}
            ok = isinstance(comps, dict) and len(vs) == 1 and all(c.fields['data'] is self_ for c in comps.values()) and \
                sorted(k.fields['for'] for k in comps) == [self_.fields['label']]
            st.sets.append((self_, ok))
            st.derived[id(self_)] = vs.pop() if len(vs) == 1 else '?'
            # the notification: a listener may change the links of the collection, which re-enters the refresh for all datasets
            st.step += 1
            if I.path.branch(I.path.fresh('listener_changes_links_%d' % st.step, z3.BoolSort())):
                st.version += 1
                for d in datasets:
                    st.derived[id(d)] = st.version        # postcondition of the re-entered refresh

        def set_aligned(I, self_, equivalent):
            st.aligned_calls.append((self_, equivalent))
        for d in datasets:
            d.methods['_set_externally_derivable_components'] = setter
            d.methods['_set_pixel_aligned_data'] = set_aligned

        def linkset(kind):
            def get(I, self_):
                s = PObj('link-set', fields={'kind': kind, 'version': st.version})
                s.methods['__or__'] = lambda I2, a, b: PObj('all-links', fields={'version': a.fields['version'] if a.fields['version'] == b.fields['version'] else '?',
                                                                                   'kinds': (a.fields['kind'], b.fields['kind'])})
                return s
            return ('__property__', get)
        lm = PObj('LinkManager', fields={'data_collection': PList(list(datasets)) if cfg['collection'] else None})
        lm.methods['_links'] = linkset('links')
        lm.methods['_inverse_links'] = linkset('inverse')
        st.lm = lm
        args = [lm] if (cfg['collection'] or cfg['n'] == 0) else [lm, datasets[0]]
        return Inputs(args, st=st)

    def globals_(self, cfg, st):
        def discover(I, data, links):
            ok = isinstance(links, PObj) and links.cls == 'all-links' and sorted(links.fields['kinds']) == ['inverse', 'links']
            v = links.fields['version'] if ok else '?'
            cid = PObj('ComponentID', fields={'for': data.fields['label']})
            return {cid: PObj('ComponentLink', fields={'version': v})}

        def derived(I, data, link):
            return PObj('DerivedComponent', fields={'data': data, 'link': link})

        def equivalent(I, d2, d1):
            key = (d2.fields['label'], d1.fields['label'])
            if I.path.branch(I.path.fresh('aligned_%s_%s' % key, z3.BoolSort())):
                st.aligned_truth[key] = True
                return PObj('axis-order', fields={'of': key})
            st.aligned_truth[key] = False
            return None

        def b_isinstance(I, v, t):
            return isinstance(v, PObj) and getattr(t, 'name', None) in v.fields.get('__bases__', ())
        return {'discover_links': Builtin('discover_links', discover), 'DerivedComponent': Builtin('DerivedComponent', derived),
                'equivalent_pixel_cids': Builtin('equivalent_pixel_cids', equivalent), 'BaseCartesianData': PType('BaseCartesianData'),
                'isinstance': Builtin('isinstance', b_isinstance)}

    def ensures(self, cfg, st, result):
        out = []
        if cfg['n'] == 0:
            return [('nothing-to-refresh', not st.sets and not st.aligned_calls)]
        ds = st.datasets
        out.append(('every-dataset-given-its-own-discovered-attributes', all(ok for _, ok in st.sets) and all(any(d is x for x, _ in st.sets) for d in ds)))
        for d in ds:
            out.append(('derivable-attributes-of-%s-come-from-the-links-registered-on-return' % d.fields['label'], st.derived[id(d)] == st.version))
        told = all(sum(1 for x, _ in st.aligned_calls if x is d) == 1 for d in ds)
        out.append(('every-dataset-told-its-pixel-aligned-datasets-once', told))
        if told:
            for d1, eq in st.aligned_calls:
                want = sorted(k[0] for k, v in st.aligned_truth.items() if k[1] == d1.fields['label'] and v)
                got = sorted(x.fields['label'] for x in eq) if isinstance(eq, dict) else None
                pairs_ok = isinstance(eq, dict) and all(v.fields['of'] == (k.fields['label'], d1.fields['label']) for k, v in eq.items())
                asked = sorted(k[0] for k in st.aligned_truth if k[1] == d1.fields['label'])
                out.append(('pixel-aligned-datasets-of-%s-are-exactly-the-equivalent-ones' % d1.fields['label'],
                            got == want and pairs_ok and asked == sorted(x.fields['label'] for x in ds if x is not d1)))
        return out

    # ------------------------------------------------------------------------------------------
    def native(self, cfg, val):
        """three datasets in a collection with a hub; a listener completes a chain of links from inside the first notification; every dataset
        must then derive what a freshly built collection with the same two links derives"""
        import os
        import sys
        import numpy as np
        sys.path.insert(0, os.environ.get('GLUE_REPO', '/repo'))
        from glue.core import Data, DataCollection, HubListener
        from glue.core.component_link import ComponentLink
        from glue.core.exceptions import IncompatibleAttribute
        from glue.core.message import ExternallyDerivableComponentsChangedMessage

        def make():
            ds = [Data(x=np.array([1., 2., 3., 4.]), label='d1'), Data(y=np.array([4., 3., 2., 1.]), label='d2'), Data(z=np.array([2., 4., 1., 3.]), label='d3')]
            dc = DataCollection(ds)
            l12 = ComponentLink([ds[0].id['x']], ds[1].id['y'], using=lambda x: 2 * x, inverse=lambda x: x / 2)
            l23 = ComponentLink([ds[1].id['y']], ds[2].id['z'], using=lambda x: 2 * x, inverse=lambda x: x / 2)
            return dc, ds, l12, l23

        def readable(ds):
            out = {}
            cids = [ds[0].id['x'], ds[1].id['y'], ds[2].id['z']]
            for d in ds:
                for c in cids:
                    try:
                        out[d.label, c.label] = np.asarray(d[c]).tolist()
                    except IncompatibleAttribute:
                        out[d.label, c.label] = None
            return out
        dc0, ds0, a, b = make()
        dc0.add_link([a, b])
        want = readable(ds0)
        for order in ((0, 1), (1, 0)):
            dc, ds, l12, l23 = make()
            first, second = (l12, l23) if order == (0, 1) else (l23, l12)
            done = []

            class L(HubListener):
                pass
            lst = L()

            def react(msg):
                if not done:
                    done.append(1)
                    dc.add_link(second)
            dc.hub.subscribe(lst, ExternallyDerivableComponentsChangedMessage, handler=react)
            dc.add_link(first)
            got = readable(ds)
            bad = [k for k in want if want[k] != got[k]]
            if bad:
                return (False, "a listener registers a second link from inside the notification of the first one: afterwards dataset %s reads attribute %s as %r, "
                               "a freshly built collection with the same two links gives %r (%d differences)" % (bad[0][0], bad[0][1], got[bad[0]], want[bad[0]], len(bad)))
        return None

    def native_call(self, cfg, val):
        return "DataCollection.add_link(first) with a listener calling add_link(second) from inside ExternallyDerivableComponentsChangedMessage"


CONTRACTS.append(RefreshDerivable())
