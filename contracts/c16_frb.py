"""C16 - sidecar contracts for the cache-key helpers and the pixel translation of the fixed-resolution buffer
(glue/core/fixed_resolution_buffer.py).

  AnyScalar.__eq__(other)               equal to exactly the scalars
  bounds_for_cache(bounds, dimensions)  same length; entry i is a wildcard iff bound i is a scalar and axis i did not contribute to
                                        the translated coordinates; every other entry is the bound itself (1-3 axes, scalar-ness and
                                        membership symbolic)
  translate_pixel(data, coords, cid)    wrong number of coordinates -> ValueError; a pixel attribute of `data` -> (its coordinate array,
                                        [its axis]); no link: stored/derived attribute -> error, world coordinate -> (the coordinate object's single-axis conversion
                                        of the positions, dependent_axes of its axis), anything else -> IncompatibleAttribute; through a link:
                                        every input attribute is translated recursively (the real function re-entered), the link function is
                                        applied to the minimally broadcast inputs, the result is broadcast to the shape of the first input
                                        and the reported axes are the sorted union of the axes of the inputs
The caches themselves (ARRAY_CACHE / PIXEL_CACHE bookkeeping inside compute_fixed_resolution_buffer, between numpy statements) are
left to the bounded history sweep.
"""
import itertools

import z3

from pyvc.verify import FnContract, Inputs, St
from pyvc.values import PObj, PList, Builtin, PType, Unsupported, is_z3
from pyvc.extract import FunctionText
from pyvc.interp import Interp, Hooks
from pyvc import spec as S

FRB = "glue/core/fixed_resolution_buffer.py"


class AnyScalarEq(FnContract):
    property_ids = ('C16',)
    target = FRB + ":AnyScalar.__eq__"
    title = "the wildcard equals exactly the scalars"

    def inputs(self, cfg, P):
        other = PObj('value', fields={'is_scalar': z3.Bool('other_is_scalar')})
        st = St(other=other)
        return Inputs([PObj('AnyScalar'), other], st=st)

    def globals_(self, cfg, st):
        return {'numpy.isscalar': Builtin('np.isscalar', lambda I, v: v.fields['is_scalar'])}

    def ensures(self, cfg, st, result):
        return [('equal-iff-scalar', S.Iff(result, st.other.fields['is_scalar']) if is_z3(result) else False)]


class BoundsForCache(FnContract):
    property_ids = ('C16',)
    target = FRB + ":bounds_for_cache"
    title = "entry i is the wildcard iff bound i is a scalar and axis i did not contribute; all other entries are the bounds themselves"

    def configs(self, tier):
        return [dict(n=n) for n in (1, 2, 3)] + ([dict(n=4)] if tier != 'quick' else [])

    def inputs(self, cfg, P):
        n = cfg['n']
        bounds = PList([PObj('bound%d' % i, fields={'is_scalar': z3.Bool('scalar%d' % i)}) for i in range(n)])
        contributed = [z3.Bool('contributed%d' % i) for i in range(n)]
        dims = PObj('dimensions')
        dims.methods['__contains__'] = lambda I, self_, i: contributed[i]
        st = St(n=n, bounds=list(bounds.items), contributed=contributed, wild=[])
        return Inputs([bounds, dims], st=st)

    def globals_(self, cfg, st):
        def mk(I):
            w = PObj('AnyScalar')
            st.wild.append(w)
            return w
        return {'numpy.isscalar': Builtin('np.isscalar', lambda I, v: v.fields['is_scalar']), 'AnyScalar': Builtin('AnyScalar', mk)}

    def ensures(self, cfg, st, result):
        ok = isinstance(result, PList) and len(result.items) == st.n
        if not ok:
            return [('one-entry-per-bound', False)]
        out = [('one-entry-per-bound', True)]
        for i, (r, b) in enumerate(zip(result.items, st.bounds)):
            is_wild = isinstance(r, PObj) and r.cls == 'AnyScalar'
            want_wild = S.And(b.fields['is_scalar'], S.Not(st.contributed[i]))
            out.append(('entry-%d-wildcard-iff-scalar-and-not-contributing' % i, want_wild if is_wild else S.Not(want_wild)))
            out.append(('entry-%d-else-the-bound-itself' % i, True if is_wild else (r is b)))
        out.append(('input-list-not-modified', True))
        return out


class TranslatePixel(FnContract):
    property_ids = ('C16',)
    target = FRB + ":translate_pixel"
    title = "pixel attributes map to their coordinate array; links are followed recursively and the contributing axes are the sorted union over the inputs"

    def configs(self, tier):
        out = [dict(case='wrong-length'), dict(case='pixel'), dict(case='stored'), dict(case='derived'), dict(case='world'), dict(case='foreign-world'), dict(case='unknown')]
        for k in (1, 2, 3):
            out.append(dict(case='link', inputs=k, nested=False))
        out.append(dict(case='link', inputs=2, nested=True))
        out.append(dict(case='link', inputs=0, nested=False))
        return out

    def inputs(self, cfg, P):
        nd = 3
        coords = tuple(PObj('coord-array', fields={'shape': PObj('shape%d' % i), 'axis': i}) for i in range(nd))
        pix = [PObj('PixelComponentID', fields={'axis': i}) for i in range(nd)]
        data = PObj('Data', fields={'ndim': nd, 'pixel_component_ids': PList(pix), 'main_components': PList([]), 'derived_components': PList([]),
                                    'coordinate_components': PList([]), 'coords': PObj('coords'), '__bases__': ('Data',)})
        st = St(nd=nd, coords=coords, pix=pix, data=data, links={}, used=[], calc=[], target=None, case=cfg['case'])
        case = cfg['case']
        target = PObj('ComponentID', fields={'axis': 1})
        if case == 'wrong-length':
            coords = coords[:2]
            st.coords = coords
        if case == 'pixel':
            target = pix[2]
        if case == 'stored':
            data.fields['main_components'] = PList([target])
        if case == 'derived':
            data.fields['derived_components'] = PList([target])
        if case in ('world', 'foreign-world'):
            data.fields['coordinate_components'] = PList([target])
            comp = PObj('CoordinateComponent', fields={'axis': 1})

            def calc(I, self_, view=None):
                st.calc.append(view)
                return PObj('world-values')
            comp.methods['_calculate'] = calc
            if case == 'world':
                data.methods['get_component'] = lambda I, self_, c: comp if c is target else _unsup("get_component")
            else:
                data.fields['__bases__'] = ('BaseCartesianData',)
                wc = PObj('dict')
                wc.methods['__getitem__'] = lambda I, self_, c: comp if c is target else _unsup("_world_components")
                data.fields['_world_components'] = wc
        if case == 'link':
            k = cfg['inputs']
            froms = []
            axes_of = {}
            for j in range(k):
                if cfg.get('nested') and j == 1:
                    inner = PObj('ComponentID', fields={'name': 'inner'})
                    st.links[id(inner)] = self.make_link(st, [pix[0], pix[2]], 'inner')
                    froms.append(inner)
                else:
                    froms.append(pix[(2 * j + 1) % nd])
            st.links[id(target)] = self.make_link(st, froms, 'outer')
        st.target = target
        data.methods['_get_external_link'] = lambda I, self_, c: st.links.get(id(c))
        return Inputs([data, coords, target], st=st)

    @staticmethod
    def make_link(st, froms, tag):
        link = PObj('ComponentLink', fields={'_from': PList(list(froms)), 'tag': tag})

        def using(I, self_, *vals):
            st.used.append((tag, vals))
            return PObj('link-result', fields={'tag': tag, 'inputs': vals})
        link.methods['_using'] = using
        return link

    def globals_(self, cfg, st):
        ft = FunctionText(FRB, 'translate_pixel')

        def rec(I, data, pixel_coords, cid):
            sub = Interp(I.path, I.globals, Hooks(name=I.hooks.name), ft)
            return sub.run_function(ft, [data, pixel_coords, cid], {})

        def b_isinstance(I, v, t):
            nm = getattr(t, 'name', None)
            return isinstance(v, PObj) and nm in v.fields.get('__bases__', ())

        def minimal(I, *vals):
            return PList([PObj('minimal', fields={'of': v}) for v in vals])

        def broadcast_to(I, v, shp):
            return PObj('broadcast', fields={'of': v, 'shape': shp})

        def dep_axes(I, coords, axis):
            return ('dependent_axes', coords, axis)

        def p2w(I, coords, *a, **kw):
            st.calc.append((coords, a, kw))
            return PObj('world-values')
        return {'translate_pixel': Builtin('translate_pixel', rec), 'isinstance': Builtin('isinstance', b_isinstance), 'Data': PType('Data'),
                'broadcast_arrays_minimal': Builtin('broadcast_arrays_minimal', minimal), 'numpy.broadcast_to': Builtin('np.broadcast_to', broadcast_to),
                'dependent_axes': Builtin('dependent_axes', dep_axes), 'pixel2world_single_axis': Builtin('pixel2world_single_axis', p2w), 'IncompatibleAttribute': PType('IncompatibleAttribute'), 'Exception': PType('Exception')}

    raises = {'ValueError': lambda cfg, st: cfg['case'] == 'wrong-length',
              'Exception': lambda cfg, st: cfg['case'] in ('stored', 'derived'),
              'IncompatibleAttribute': lambda cfg, st: cfg['case'] == 'unknown'}

    def ensures(self, cfg, st, result):
        case = cfg['case']
        if not (isinstance(result, tuple) and len(result) == 2):
            return [('returns-(values, axes)', False)]
        vals, dims = result
        if case == 'pixel':
            return [('coordinate-array-of-that-axis', vals is st.coords[2]), ('its-own-axis', isinstance(dims, PList) and dims.items == [2])]
        if case in ('world', 'foreign-world'):
            # the coordinates are positions, not indices: they go to the coordinate object's single-axis conversion, in (x, y, z) order,
            # asking for the world axis ndim-1-axis
            ok = isinstance(vals, PObj) and vals.cls == 'world-values' and len(st.calc) == 1
            if ok:
                c, a, kw = st.calc[0]
                ok = c is st.data.fields['coords'] and len(a) == st.nd and all(x is y for x, y in zip(a, st.coords[::-1])) and kw == {'world_axis': st.nd - 1 - 1}
            return [('world-values-of-the-given-positions', ok),
                    ('axes-from-dependent_axes', dims == ('dependent_axes', st.data.fields['coords'], 1))]
        if case == 'link':
            k = cfg['inputs']
            if k == 0:
                return [('no-inputs-no-values', vals is None), ('no-axes', isinstance(dims, PList) and dims.items == [])]
            nested = cfg.get('nested')
            exp_axes = sorted(set([(2 * j + 1) % st.nd for j in range(k) if not (nested and j == 1)] + ([0, 2] if nested else [])))
            out = [('axes-are-the-sorted-union', isinstance(dims, PList) and dims.items == exp_axes)]
            outer = [u for u in st.used if u[0] == 'outer']
            ok = isinstance(vals, PObj) and vals.cls == 'broadcast' and len(outer) == 1 and vals.fields['of'].cls == 'link-result' and vals.fields['of'].fields['tag'] == 'outer'
            out.append(('link-function-applied-once-and-broadcast', ok))
            if ok:
                ins = outer[0][1]
                out.append(('one-input-per-from-attribute', len(ins) == k and all(isinstance(x, PObj) and x.cls == 'minimal' for x in ins)))
                first = ins[0].fields['of'] if len(ins) else None
                first_shape = first.fields['shape'] if isinstance(first, PObj) and 'shape' in first.fields else None
                out.append(('broadcast-to-the-shape-of-the-first-input', first_shape is not None and vals.fields['shape'] is first_shape))
                for j, x in enumerate(ins[:k]):
                    src = x.fields['of']
                    if nested and j == 1:
                        out.append(('input-%d-is-the-nested-link-result' % j, isinstance(src, PObj) and src.cls == 'broadcast' and src.fields['of'].fields.get('tag') == 'inner'))
                    else:
                        out.append(('input-%d-is-the-coordinate-array-of-its-axis' % j, src is st.coords[(2 * j + 1) % st.nd]))
            return out
        return [('unexpected-return', False)]


def _unsup(msg):
    raise Unsupported(msg)


CONTRACTS = [AnyScalarEq(), BoundsForCache(), TranslatePixel()]


# =================================================================================================
# The cache protocol of compute_fixed_resolution_buffer, on the real function with the numpy steps as opaque, provenance-recording
# operations.  An array token remembers how it was made (`desc`), so "the result is built from these coordinates / this invalid mask"
# is a structural equality.

def tok(desc, **fields):
    """opaque array value; every operation returns a new token whose description nests the operands' descriptions"""
    fields.setdefault('flags', PObj('flags', fields={'writeable': z3.Bool('array_writeable')}))
    a = PObj('array', fields=dict(desc=desc, **fields))

    def op(name):
        def f(I, self_, *args, **kw):
            return tok((name, self_.fields['desc']) + tuple(_d(x) for x in args))
        return f
    for nm in ('__lt__', '__ge__', '__or__', 'astype', '__getitem__'):
        a.methods[nm] = op(nm)

    def setitem(I, self_, key, value):
        self_.fields['desc'] = ('setitem', self_.fields['desc'], _d(key), _d(value))
    a.methods['__setitem__'] = setitem
    return a


def _d(x):
    if isinstance(x, PObj) and 'desc' in x.fields:
        return x.fields['desc']
    if isinstance(x, tuple):
        return tuple(_d(y) for y in x)
    if isinstance(x, PList):
        return tuple(_d(y) for y in x.items)
    if isinstance(x, PObj):
        return ('obj', id(x))
    if is_z3(x):
        return ('sym', str(x))
    return x


class FrbCacheProtocol(FnContract):
    property_ids = ('C16',)
    target = FRB + ":compute_fixed_resolution_buffer"
    title = ("without a cache id the caches are neither read nor written; an array-cache hit returns the stored array and changes nothing; otherwise each source axis is taken from "
             "the per-axis cache exactly when its stored bounds match (after dropping a per-axis cache built for another dataset pair), recomputed and stored otherwise with its own "
             "out-of-range mask and wildcard bounds, the buffer is assembled from these, and both caches are left describing this request")
    budget_s = 60

    # per bound: 's' scalar, 'r' range.   axes: per source axis 'hit' (matching per-axis entry present), 'stale' (entry with other bounds), 'none'
    def configs(self, tier):
        out = [dict(cache='none', what='values', bounds='sr', axes='none,none'), dict(cache='none', what='mask', bounds='rr', axes='none,none')]
        for what in ('values', 'mask'):
            out.append(dict(cache='array-hit', what=what, bounds='sr', axes='none,none'))
            out.append(dict(cache='array-other-request', what=what, bounds='sr', axes='hit,hit'))
        for axes in ('none,none', 'hit,hit', 'hit,none', 'stale,hit', 'none,stale'):
            for b in ('sr', 'rr', 'ss'):
                out.append(dict(cache='empty-array-cache', what='values', bounds=b, axes=axes))
        out.append(dict(cache='pixel-other-pair', what='values', bounds='sr', axes='hit,hit'))
        out.append(dict(cache='pixel-other-pair', what='mask', bounds='rr', axes='hit,none'))
        out.append(dict(cache='pixel-other-pair-no-array-entry', what='values', bounds='sr', axes='hit,hit'))
        return out

    def inputs(self, cfg, P):
        nt = len(cfg['bounds'])                    # rank of the reference frame
        ns = 2                                     # rank of the source
        axes = cfg['axes'].split(',')
        target = PObj('Data', fields={'ndim': nt, '__bases__': ('Data',), 'name': 'target'})
        data = PObj('Data', fields={'ndim': ns, '__bases__': ('Data',), 'name': 'data', 'shape': tuple(z3.Int('extent%d' % i) for i in range(ns)),
                                    'pixel_component_ids': PList([PObj('PixelComponentID', fields={'axis': i}) for i in range(ns)]), 'main_components': PList([])})
        other = PObj('Data', fields={'ndim': nt, '__bases__': ('Data',), 'name': 'other-target'})
        bounds = []
        for i, k in enumerate(cfg['bounds']):
            if k == 's':
                bounds.append(PObj('scalar-bound', fields={'is_scalar': True, 'desc': ('scalar', i)}))
            else:
                bounds.append((z3.Real('lo%d' % i), z3.Real('hi%d' % i), z3.Int('n%d' % i)))
        bounds = PList(bounds)
        cid = PObj('ComponentID', fields={'uuid': 'UUID-of-the-attribute'})
        state = PObj('SubsetState')
        comp = PObj('Component', fields={'__bases__': ('Component',)})
        data.methods['get_component'] = lambda I, self_, c: comp
        st = St(cfg=cfg, nt=nt, ns=ns, data=data, target=target, other=other, bounds=bounds, cid=cid, state=state, axes=axes,
                translated=[], fetched=[], cache_id=None if cfg['cache'] == 'none' else 'ID', wild=[])
        data.methods['get_data'] = lambda I, self_, c, view=None: self._fetch(st, 'get_data', c, view)
        data.methods['get_mask'] = lambda I, self_, s, view=None: self._fetch(st, 'get_mask', s, view)
        # ---- caches before the call
        AC, PC = {}, {}
        key = cid.fields['uuid'] if cfg['what'] == 'values' else state

        def wild():
            w = PObj('AnyScalar', fields={'desc': 'wildcard'})
            w.methods['__eq__'] = lambda I, self_, o: bool(isinstance(o, PObj) and o.fields.get('is_scalar'))
            return w
        st.mkwild = wild
        # dimensions each source axis depends on (what translate_pixel reports): axis 0 <- reference axis nt-1, axis 1 <- reference axis 0
        st.dims = [[nt - 1], [0]]

        def cached_bounds(dims, matching=True):
            out = []
            for i, b in enumerate(bounds.items):
                if isinstance(b, PObj):
                    out.append(wild() if i not in dims else (b if matching else PObj('scalar-bound', fields={'is_scalar': True, 'desc': ('other-scalar', i)})))
                else:
                    out.append(b if matching else (b[0], b[1], b[2] + 1))
            return PList(out)
        st.stored_array = tok(('stored-array',))
        if cfg['cache'] == 'array-hit':
            AC['ID'] = {'hash': (data, cached_bounds(sorted(set(sum(st.dims, [])))), target, key, True), 'array': st.stored_array}
        if cfg['cache'] == 'array-other-request':
            AC['ID'] = {'hash': (data, cached_bounds(sorted(set(sum(st.dims, [])))), target, PObj('another-key'), True), 'array': st.stored_array}
        if cfg['cache'] in ('pixel-other-pair',):
            AC['ID'] = {'hash': (data, cached_bounds([]), other, key, True), 'array': st.stored_array}
        st.cached_axes = {}
        if cfg['cache'] != 'none' and any(a != 'none' for a in axes):
            pair = (data, other) if cfg['cache'].startswith('pixel-other-pair') else (data, target)
            PC['ID'] = {'hash': pair}
            for ipix, a in enumerate(axes):
                if a == 'none':
                    continue
                ent = {'translated_coord': tok(('cached-coord', ipix)), 'dimensions': PList(list(st.dims[ipix])), 'invalid': tok(('cached-invalid', ipix)),
                       'bounds': cached_bounds(st.dims[ipix], matching=(a == 'hit'))}
                PC['ID'][ipix] = ent
                st.cached_axes[ipix] = ent
        st.AC, st.PC = AC, PC
        st.AC0 = {k: dict(v) for k, v in AC.items()}
        st.PC0 = {k: dict(v) for k, v in PC.items()}
        kw = dict(target_data=target, broadcast=True, cache_id=st.cache_id)
        if cfg['what'] == 'values':
            kw['target_cid'] = cid
        else:
            kw['subset_state'] = state
        return Inputs([data, bounds], kw, st=st)

    @staticmethod
    def _fetch(st, how, what, view):
        t = tok((how, _d(what), _d(view)))
        st.fetched.append((how, what, view, t))
        return t

    def requires(self, cfg, st):
        return [('steps>=1', S.And(*[b[2] >= 1 for b in st.bounds.items if isinstance(b, tuple)]))] if any(isinstance(b, tuple) for b in st.bounds.items) else []

    def globals_(self, cfg, st):
        def b_isinstance(I, v, t):
            ts = t if isinstance(t, tuple) else (t,)
            for x in ts:
                nm = getattr(x, 'name', None)
                if nm == 'tuple' and isinstance(v, tuple):
                    return True
                if isinstance(v, PObj) and nm in v.fields.get('__bases__', ()):
                    return True
            return False

        def translate(I, target_data, pixel_coords, pix):
            ipix = pix.fields['axis']
            I.path.check(I.hooks.name + "/translate_pixel:called-on-the-reference-frame", target_data is st.target)
            t = tok(('translated', ipix, _d(pixel_coords)))
            st.translated.append(ipix)
            return (t, PList(list(st.dims[ipix])))

        def np1(name):
            return Builtin('np.' + name, lambda I, *a, **k: tok((name,) + tuple(_d(x) for x in a)))

        def meshgrid(I, *a, **k):
            return PList([tok(('grid', i, tuple(_d(x) for x in a)), shape=('original-shape', tuple(_d(x) for x in a))) for i in range(len(a))])

        def zeros(I, shape, dtype=None):
            return tok(('zeros', _d(shape)))

        def mkwild(I):
            w = st.mkwild()
            st.wild.append(w)
            return w
        g = {'isinstance': Builtin('isinstance', b_isinstance), 'Data': PType('Data'), 'DaskComponent': PType('DaskComponent'),
             'translate_pixel': Builtin('translate_pixel', translate), 'unbroadcast': np1('unbroadcast'),
             'numpy.linspace': np1('linspace'), 'numpy.meshgrid': Builtin('np.meshgrid', meshgrid), 'numpy.zeros': Builtin('np.zeros', zeros),
             'numpy.round': np1('round'), 'numpy.broadcast_to': np1('broadcast_to'), 'numpy.isscalar': Builtin('np.isscalar', lambda I, v: bool(isinstance(v, PObj) and v.fields.get('is_scalar'))),
             'numpy.any': Builtin('np.any', lambda I, a: z3.Bool('some_sample_outside')), 'numpy.array': np1('array'), 'numpy.nan': 'NAN',
             'ARRAY_CACHE': st.AC, 'PIXEL_CACHE': st.PC, 'AnyScalar': Builtin('AnyScalar', mkwild), 'int': PType('int'), 'float': PType('float'), 'bool': PType('bool'),
             'IncompatibleDataException': PType('IncompatibleDataException'),
             'type': Builtin('type', lambda I, v: PType('bool') if isinstance(v, bool) else PType('float'))}
        # bounds_for_cache: the real helper, inlined from its own text (it is under its own contract above)
        ft = FunctionText(FRB, 'bounds_for_cache')

        def bfc(I, bounds, dimensions):
            sub = Interp(I.path, I.globals, Hooks(name=I.hooks.name), ft)
            return sub.run_function(ft, [bounds, dimensions], {})
        g['bounds_for_cache'] = Builtin('bounds_for_cache', bfc)
        return g

    # ------------------------------------------------------------------------------------------
    def ensures(self, cfg, st, result):
        out = []
        AC, PC = st.AC, st.PC
        c = cfg['cache']

        def same_dicts(a, b):
            return set(a) == set(b) and all(set(a[k]) == set(b[k]) and all(a[k][f] is b[k][f] for f in a[k]) for k in a)
        if c == 'none':
            out.append(('no-cache-id:array-cache-untouched', same_dicts(AC, st.AC0)))
            out.append(('no-cache-id:pixel-cache-untouched', same_dicts(PC, st.PC0)))
            out.append(('no-cache-id:every-axis-translated', sorted(st.translated) == list(range(st.ns))))
        if c == 'array-hit':
            out.append(('hit:returns-the-stored-array', result is st.stored_array))
            out.append(('hit:caches-unchanged', same_dicts(AC, st.AC0) and same_dicts(PC, st.PC0)))
            return out
        # ---- a computed result
        out.append(('computed:not-the-stale-array', result is not st.stored_array))
        use_cached = {}
        for ipix in range(st.ns):
            a = st.axes[ipix] if c != 'none' else 'none'
            use_cached[ipix] = (a == 'hit') and not c.startswith('pixel-other-pair')
        # an axis without a valid entry (none, other bounds, or built for another dataset pair) must be translated afresh; translating an
        # axis that has a valid entry again would only cost time
        out.append(('per-axis-cache:every-axis-without-a-valid-entry-is-translated', all(i in st.translated for i in range(st.ns) if not use_cached[i])))
        # provenance of the fetch
        ok_fetch = len(st.fetched) >= 1 and all(f[0] == ('get_data' if cfg['what'] == 'values' else 'get_mask') and
                                                f[1] is (st.cid if cfg['what'] == 'values' else st.state) for f in st.fetched)
        out.append(('values-or-membership-fetched-for-the-requested-attribute-or-selection', ok_fetch))
        if ok_fetch:
            view = st.fetched[0][2]
            ok_view = isinstance(view, tuple) and len(view) == st.ns
            out.append(('fetched-at-one-coordinate-array-per-source-axis', ok_view))
            if ok_view:
                for ipix in range(st.ns):
                    d = _d(view[ipix])
                    fresh = _contains_head(d, 'translated', ipix)
                    out.append(('axis-%d-coordinates-come-from-%s' % (ipix, 'the-matching-cache-entry-or-a-fresh-translation' if use_cached[ipix] else 'a-fresh-translation'),
                                (fresh or _contains(d, ('cached-coord', ipix))) if use_cached[ipix] else fresh))
        if c != 'none':
            key = st.cid.fields['uuid'] if cfg['what'] == 'values' else st.state
            ent = AC.get('ID')
            ok = isinstance(ent, dict) and set(ent) == {'hash', 'array'} and ent['array'] is result
            out.append(('array-cache:holds-this-result', ok))
            if ok:
                h = ent['hash']
                okh = isinstance(h, tuple) and len(h) == 5 and h[0] is st.data and h[2] is st.target and h[3] is key and h[4] is True
                out.append(('array-cache:key-names-this-dataset-frame-attribute-and-broadcast', okh))
                # the caller's own list may be edited in place before the next request (stepping through slices): a key that is that very
                # list would then compare equal to whatever the caller asks for next
                out.append(("array-cache:key-does-not-hold-the-caller's-bounds-list", h[1] is not st.bounds))
                if okh:
                    dims_all = sorted(set(sum(st.dims, [])))
                    out += self._bounds_clause('array-cache', h[1], st, dims_all)
            pe = PC.get('ID')
            okp = isinstance(pe, dict) and pe.get('hash') is not None and pe['hash'][0] is st.data and pe['hash'][1] is st.target
            out.append(('pixel-cache:belongs-to-this-dataset-pair', okp))
            if okp:
                for ipix in range(st.ns):
                    e = pe.get(ipix)
                    if use_cached[ipix] and e is st.cached_axes[ipix]:
                        out.append(('pixel-cache:axis-%d-entry-kept' % ipix, True))
                        continue
                    oke = isinstance(e, dict) and set(e) == {'translated_coord', 'dimensions', 'invalid', 'bounds'}
                    out.append(('pixel-cache:axis-%d-entry-written' % ipix, oke))
                    if oke:
                        out.append(('pixel-cache:axis-%d-coordinates-are-this-axis-translation' % ipix, _contains_head(_d(e['translated_coord']), 'translated', ipix)))
                        inv = _d(e['invalid'])
                        out.append(('pixel-cache:axis-%d-invalid-is-this-axis-own-out-of-range-mask' % ipix,
                                    _contains_head(inv, 'translated', ipix) and not any(_contains_head(inv, 'translated', j) or _contains(inv, ('cached-invalid', j)) for j in range(st.ns) if j != ipix)
                                    and not _contains(inv, 'zeros')))
                        out.append(('pixel-cache:axis-%d-dimensions-as-reported' % ipix, isinstance(e['dimensions'], PList) and e['dimensions'].items == st.dims[ipix]))
                        out += self._bounds_clause('pixel-cache:axis-%d' % ipix, e['bounds'], st, st.dims[ipix])
        return out

    @staticmethod
    def _bounds_clause(tag, cb, st, dims):
        if not (isinstance(cb, PList) and len(cb.items) == st.nt):
            return [(tag + ':one-stored-bound-per-reference-axis', False)]
        out = []
        for i, (x, b) in enumerate(zip(cb.items, st.bounds.items)):
            is_wild = isinstance(x, PObj) and x.cls == 'AnyScalar'
            want = isinstance(b, PObj) and i not in dims
            # soundness direction only: a wildcard may stand only for a scalar bound on an axis that did not contribute; storing the bound
            # itself where a wildcard would do merely makes the cache match less often
            out.append((tag + ':bound-%d-%s' % (i, 'wildcard-or-kept' if want else 'is-kept'), (is_wild or x is b) if want else (x is b)))
        return out


def _contains(d, needle):
    if d == needle:
        return True
    if isinstance(d, tuple):
        return any(_contains(x, needle) for x in d)
    return False


def _contains_head(d, head, arg):
    if isinstance(d, tuple) and len(d) >= 2 and d[0] == head and d[1] == arg:
        return True
    if isinstance(d, tuple):
        return any(_contains_head(x, head, arg) for x in d)
    return False


CONTRACTS.append(FrbCacheProtocol())


# =================================================================================================
# The image layer turns a numpy view of the displayed plane into the (first, last, count) bounds compute_fixed_resolution_buffer samples:
# the nested helper slice_to_bound of BaseImageLayerState.get_sliced_data.  Pure integer arithmetic over slice.indices.
from pyvc.values import OptInt as _OptInt, PSlice

IMG = "glue/viewers/image/state.py"


class SliceToBound(FnContract):
    property_ids = ('C16',)
    target = IMG + ":BaseImageLayerState.get_sliced_data.slice_to_bound"
    title = ("for a view slice with a positive step that selects at least one pixel of an axis of the given size, the bounds are (first selected pixel, last selected pixel, "
             "number of selected pixels): sampling them linearly visits exactly the pixels the slice selects")

    def configs(self, tier):
        m = 8 if tier == 'quick' else 16
        return [dict(step=s) for s in ['None'] + list(range(1, m + 1))]

    def inputs(self, cfg, P):
        syms = {}
        a = _OptInt(z3.Bool('start_is_none'), z3.Int('start'))
        b = _OptInt(z3.Bool('stop_is_none'), z3.Int('stop'))
        n = z3.Int('size')
        syms.update({'start_is_none': a.is_none, 'start': a.val, 'stop_is_none': b.is_none, 'stop': b.val, 'size': n})
        sl = PSlice(a, b, None if cfg['step'] == 'None' else cfg['step'])
        return Inputs([sl, n], st=St(sl=sl, n=n), symbols=syms)

    def _spec(self, cfg, st):
        beg, end, step = S.slice_indices(st.sl, st.n)
        return beg, end, step, S.range_len(beg, end, step)

    def requires(self, cfg, st):
        beg, end, step, count = self._spec(cfg, st)
        return [('size>=0', st.n >= 0), ('the-view-selects-at-least-one-pixel', count >= 1)]

    def ensures(self, cfg, st, result):
        beg, end, step, count = self._spec(cfg, st)
        if not (isinstance(result, tuple) and len(result) == 3):
            return [('returns-(first,last,count)', False)]
        return [('first-selected-pixel', result[0] == beg), ('last-selected-pixel', result[1] == beg + step * (count - 1)),
                ('number-of-selected-pixels', result[2] == count)]

    def native(self, cfg, val):
        # the helper is nested in a method of a viewer state; the replay re-creates it from the function text of the tree under test
        import ast as _ast
        ft = self.ftext()
        ns = {}
        exec(compile(_ast.Module(body=[ft.node], type_ignores=[]), ft.relpath, 'exec'), ns)
        f = ns['slice_to_bound']
        start = None if val.get('start_is_none') else val.get('start', 0)
        stop = None if val.get('stop_is_none') else val.get('stop', 0)
        step = None if cfg['step'] == 'None' else cfg['step']
        size = val.get('size', 0)
        if size < 0:
            return None
        sel = list(range(size))[slice(start, stop, step)]
        if not sel:
            return None
        got = f(slice(start, stop, step), size)
        exp = (sel[0], sel[-1], len(sel))
        return (tuple(got) == exp, "slice_to_bound(slice(%r, %r, %r), %r) = %r; the slice selects pixels %r ... %r (%d of them)" % (start, stop, step, size, got, sel[0], sel[-1], len(sel)))

    def native_call(self, cfg, val):
        return "slice_to_bound(slice(%r, %r, %r), %r)" % (None if val.get('start_is_none') else val.get('start', 0), None if val.get('stop_is_none') else val.get('stop', 0),
                                                       None if cfg['step'] == 'None' else cfg['step'], val.get('size', 0))


CONTRACTS.append(SliceToBound())


class SliceAggregationTranspose(FnContract):
    """ImageViewerState.numpy_slice_aggregation_transpose: what get_sliced_data turns into bounds, aggregation and transposition."""
    property_ids = ('C16',)
    target = IMG + ":ImageViewerState.numpy_slice_aggregation_transpose"
    title = ("the two displayed axes get the whole axis, an aggregated axis its slice and a scalar axis its index; the aggregation list has one entry per axis that survives "
             "(none for the displayed axes, the function for aggregated ones) in axis order; transposed iff the y axis comes after the x axis; nothing without reference data")

    def configs(self, tier):
        out = [dict(ndim=0, x=0, y=0, kinds='-', ref=False)]
        for nd in (2, 3, 4):
            for x in range(nd):
                for y in range(nd):
                    if x == y:
                        continue
                    others = nd - 2
                    for kinds in itertools.product('sa', repeat=others):
                        out.append(dict(ndim=nd, x=x, y=y, kinds=''.join(kinds) or '-', ref=True))
        return out

    def inputs(self, cfg, P):
        nd = cfg['ndim']
        if not cfg['ref']:
            vs = PObj('ImageViewerState', fields={'reference_data': None})
            return Inputs([vs], st=St(vs=vs, entries=[]))
        kinds = iter(cfg['kinds'])
        entries = []
        for i in range(nd):
            if i in (cfg['x'], cfg['y']):
                entries.append(('displayed', z3.Int('slice%d' % i)))          # whatever index is stored there is ignored
            elif next(kinds) == 'a':
                entries.append(('aggregated', PObj('AggregateSlice', fields={'slice': PObj('slice-of-axis-%d' % i), 'function': PObj('function-of-axis-%d' % i)})))
            else:
                entries.append(('scalar', z3.Int('slice%d' % i)))
        vs = PObj('ImageViewerState', fields={'reference_data': PObj('Data', fields={'ndim': nd}), 'slices': tuple(e[1] for e in entries),
                                              'x_att': PObj('ComponentID', fields={'axis': cfg['x']}), 'y_att': PObj('ComponentID', fields={'axis': cfg['y']})})
        return Inputs([vs], st=St(vs=vs, entries=entries))

    def globals_(self, cfg, st):
        return {'AggregateSlice': PType('AggregateSlice')}

    def ensures(self, cfg, st, result):
        if not cfg['ref']:
            return [('no-reference-data:nothing', result is None)]
        ok = isinstance(result, tuple) and len(result) == 3 and isinstance(result[0], PList) and isinstance(result[1], PList)
        if not ok:
            return [('returns-slices-aggregation-transpose', False)]
        slices, agg, transpose = result[0].items, result[1].items, result[2]
        out = [('one-entry-per-axis', len(slices) == cfg['ndim'])]
        if len(slices) == cfg['ndim']:
            for i, (kind, v) in enumerate(st.entries):
                s = slices[i]
                if kind == 'displayed':
                    out.append(('axis-%d:displayed-axis-whole' % i, isinstance(s, PSlice) and s.start is None and s.stop is None and s.step is None))
                elif kind == 'aggregated':
                    out.append(('axis-%d:aggregated-axis-gets-its-slice' % i, s is v.fields['slice']))
                else:
                    out.append(('axis-%d:scalar-axis-gets-its-index' % i, is_z3(s) and z3.eq(s, v)))
        want = [None if k == 'displayed' else v.fields['function'] for k, v in st.entries if k != 'scalar']
        out.append(('aggregation-list:one-entry-per-surviving-axis-in-order', len(agg) == len(want) and all(a is w for a, w in zip(agg, want))))
        out.append(('transposed-iff-y-axis-after-x-axis', transpose is (cfg['y'] > cfg['x']) or transpose == (cfg['y'] > cfg['x'])))
        return out


CONTRACTS.append(SliceAggregationTranspose())
