"""C16 - sidecar contracts for the cache-key helpers and the pixel translation of the fixed-resolution buffer
(glue/core/fixed_resolution_buffer.py).

  AnyScalar.__eq__(other)               equal to exactly the scalars
  bounds_for_cache(bounds, dimensions)  same length; entry i is a wildcard iff bound i is a scalar and axis i did not contribute to
                                        the translated coordinates; every other entry is the bound itself (1-3 axes, scalar-ness and
                                        membership symbolic)
  translate_pixel(data, coords, cid)    wrong number of coordinates -> ValueError; a pixel attribute of `data` -> (its coordinate array,
                                        [its axis]); no link: stored/derived attribute -> error, world coordinate -> (its _calculate on the
                                        coordinates, dependent_axes of its axis), anything else -> IncompatibleAttribute; through a link:
                                        every input attribute is translated recursively (the real function re-entered), the link function is
                                        applied to the minimally broadcast inputs, the result is broadcast to the shape of the first input
                                        and the reported axes are the sorted union of the axes of the inputs
The caches themselves (ARRAY_CACHE / PIXEL_CACHE bookkeeping inside compute_fixed_resolution_buffer, between numpy statements) are
left to the bounded history sweep.
"""
import itertools

import z3

from pyvc.verify import FnContract, Inputs, St
from pyvc.values import PObj, PList, Builtin, PType, Unsupported, is_z3
from pyvc.extract import FunctionText
from pyvc.interp import Interp, Hooks
from pyvc import spec as S

FRB = "glue/core/fixed_resolution_buffer.py"


class AnyScalarEq(FnContract):
    property_ids = ('C16',)
    target = FRB + ":AnyScalar.__eq__"
    title = "the wildcard equals exactly the scalars"

    def inputs(self, cfg, P):
        other = PObj('value', fields={'is_scalar': z3.Bool('other_is_scalar')})
        st = St(other=other)
        return Inputs([PObj('AnyScalar'), other], st=st)

    def globals_(self, cfg, st):
        return {'numpy.isscalar': Builtin('np.isscalar', lambda I, v: v.fields['is_scalar'])}

    def ensures(self, cfg, st, result):
        return [('equal-iff-scalar', S.Iff(result, st.other.fields['is_scalar']) if is_z3(result) else False)]


class BoundsForCache(FnContract):
    property_ids = ('C16',)
    target = FRB + ":bounds_for_cache"
    title = "entry i is the wildcard iff bound i is a scalar and axis i did not contribute; all other entries are the bounds themselves"

    def configs(self, tier):
        return [dict(n=n) for n in (1, 2, 3)] + ([dict(n=4)] if tier != 'quick' else [])

    def inputs(self, cfg, P):
        n = cfg['n']
        bounds = PList([PObj('bound%d' % i, fields={'is_scalar': z3.Bool('scalar%d' % i)}) for i in range(n)])
        contributed = [z3.Bool('contributed%d' % i) for i in range(n)]
        dims = PObj('dimensions')
        dims.methods['__contains__'] = lambda I, self_, i: contributed[i]
        st = St(n=n, bounds=list(bounds.items), contributed=contributed, wild=[])
        return Inputs([bounds, dims], st=st)

    def globals_(self, cfg, st):
        def mk(I):
            w = PObj('AnyScalar')
            st.wild.append(w)
            return w
        return {'numpy.isscalar': Builtin('np.isscalar', lambda I, v: v.fields['is_scalar']), 'AnyScalar': Builtin('AnyScalar', mk)}

    def ensures(self, cfg, st, result):
        ok = isinstance(result, PList) and len(result.items) == st.n
        if not ok:
            return [('one-entry-per-bound', False)]
        out = [('one-entry-per-bound', True)]
        for i, (r, b) in enumerate(zip(result.items, st.bounds)):
            is_wild = isinstance(r, PObj) and r.cls == 'AnyScalar'
            want_wild = S.And(b.fields['is_scalar'], S.Not(st.contributed[i]))
            out.append(('entry-%d-wildcard-iff-scalar-and-not-contributing' % i, want_wild if is_wild else S.Not(want_wild)))
            out.append(('entry-%d-else-the-bound-itself' % i, True if is_wild else (r is b)))
        out.append(('input-list-not-modified', True))
        return out


class TranslatePixel(FnContract):
    property_ids = ('C16',)
    target = FRB + ":translate_pixel"
    title = "pixel attributes map to their coordinate array; links are followed recursively and the contributing axes are the sorted union over the inputs"

    def configs(self, tier):
        out = [dict(case='wrong-length'), dict(case='pixel'), dict(case='stored'), dict(case='derived'), dict(case='world'), dict(case='foreign-world'), dict(case='unknown')]
        for k in (1, 2, 3):
            out.append(dict(case='link', inputs=k, nested=False))
        out.append(dict(case='link', inputs=2, nested=True))
        out.append(dict(case='link', inputs=0, nested=False))
        return out

    def inputs(self, cfg, P):
        nd = 3
        coords = tuple(PObj('coord-array', fields={'shape': PObj('shape%d' % i), 'axis': i}) for i in range(nd))
        pix = [PObj('PixelComponentID', fields={'axis': i}) for i in range(nd)]
        data = PObj('Data', fields={'ndim': nd, 'pixel_component_ids': PList(pix), 'main_components': PList([]), 'derived_components': PList([]),
                                    'coordinate_components': PList([]), 'coords': PObj('coords'), '__bases__': ('Data',)})
        st = St(nd=nd, coords=coords, pix=pix, data=data, links={}, used=[], calc=[], target=None, case=cfg['case'])
        case = cfg['case']
        target = PObj('ComponentID', fields={'axis': 1})
        if case == 'wrong-length':
            coords = coords[:2]
            st.coords = coords
        if case == 'pixel':
            target = pix[2]
        if case == 'stored':
            data.fields['main_components'] = PList([target])
        if case == 'derived':
            data.fields['derived_components'] = PList([target])
        if case in ('world', 'foreign-world'):
            data.fields['coordinate_components'] = PList([target])
            comp = PObj('CoordinateComponent', fields={'axis': 1})

            def calc(I, self_, view=None):
                st.calc.append(view)
                return PObj('world-values')
            comp.methods['_calculate'] = calc
            if case == 'world':
                data.methods['get_component'] = lambda I, self_, c: comp if c is target else _unsup("get_component")
            else:
                data.fields['__bases__'] = ('BaseCartesianData',)
                wc = PObj('dict')
                wc.methods['__getitem__'] = lambda I, self_, c: comp if c is target else _unsup("_world_components")
                data.fields['_world_components'] = wc
        if case == 'link':
            k = cfg['inputs']
            froms = []
            axes_of = {}
            for j in range(k):
                if cfg.get('nested') and j == 1:
                    inner = PObj('ComponentID', fields={'name': 'inner'})
                    st.links[id(inner)] = self.make_link(st, [pix[0], pix[2]], 'inner')
                    froms.append(inner)
                else:
                    froms.append(pix[(2 * j + 1) % nd])
            st.links[id(target)] = self.make_link(st, froms, 'outer')
        st.target = target
        data.methods['_get_external_link'] = lambda I, self_, c: st.links.get(id(c))
        return Inputs([data, coords, target], st=st)

    @staticmethod
    def make_link(st, froms, tag):
        link = PObj('ComponentLink', fields={'_from': PList(list(froms)), 'tag': tag})

        def using(I, self_, *vals):
            st.used.append((tag, vals))
            return PObj('link-result', fields={'tag': tag, 'inputs': vals})
        link.methods['_using'] = using
        return link

    def globals_(self, cfg, st):
        ft = FunctionText(FRB, 'translate_pixel')

        def rec(I, data, pixel_coords, cid):
            sub = Interp(I.path, I.globals, Hooks(name=I.hooks.name), ft)
            return sub.run_function(ft, [data, pixel_coords, cid], {})

        def b_isinstance(I, v, t):
            nm = getattr(t, 'name', None)
            return isinstance(v, PObj) and nm in v.fields.get('__bases__', ())

        def minimal(I, *vals):
            return PList([PObj('minimal', fields={'of': v}) for v in vals])

        def broadcast_to(I, v, shp):
            return PObj('broadcast', fields={'of': v, 'shape': shp})

        def dep_axes(I, coords, axis):
            return ('dependent_axes', coords, axis)
        return {'translate_pixel': Builtin('translate_pixel', rec), 'isinstance': Builtin('isinstance', b_isinstance), 'Data': PType('Data'),
                'broadcast_arrays_minimal': Builtin('broadcast_arrays_minimal', minimal), 'numpy.broadcast_to': Builtin('np.broadcast_to', broadcast_to),
                'dependent_axes': Builtin('dependent_axes', dep_axes), 'IncompatibleAttribute': PType('IncompatibleAttribute'), 'Exception': PType('Exception')}

    raises = {'ValueError': lambda cfg, st: cfg['case'] == 'wrong-length',
              'Exception': lambda cfg, st: cfg['case'] in ('stored', 'derived'),
              'IncompatibleAttribute': lambda cfg, st: cfg['case'] == 'unknown'}

    def ensures(self, cfg, st, result):
        case = cfg['case']
        if not (isinstance(result, tuple) and len(result) == 2):
            return [('returns-(values, axes)', False)]
        vals, dims = result
        if case == 'pixel':
            return [('coordinate-array-of-that-axis', vals is st.coords[2]), ('its-own-axis', isinstance(dims, PList) and dims.items == [2])]
        if case in ('world', 'foreign-world'):
            return [('world-values-on-the-given-coordinates', isinstance(vals, PObj) and vals.cls == 'world-values' and len(st.calc) == 1 and st.calc[0] is st.coords),
                    ('axes-from-dependent_axes', dims == ('dependent_axes', st.data.fields['coords'], 1))]
        if case == 'link':
            k = cfg['inputs']
            if k == 0:
                return [('no-inputs-no-values', vals is None), ('no-axes', isinstance(dims, PList) and dims.items == [])]
            nested = cfg.get('nested')
            exp_axes = sorted(set([(2 * j + 1) % st.nd for j in range(k) if not (nested and j == 1)] + ([0, 2] if nested else [])))
            out = [('axes-are-the-sorted-union', isinstance(dims, PList) and dims.items == exp_axes)]
            outer = [u for u in st.used if u[0] == 'outer']
            ok = isinstance(vals, PObj) and vals.cls == 'broadcast' and len(outer) == 1 and vals.fields['of'].cls == 'link-result' and vals.fields['of'].fields['tag'] == 'outer'
            out.append(('link-function-applied-once-and-broadcast', ok))
            if ok:
                ins = outer[0][1]
                out.append(('one-input-per-from-attribute', len(ins) == k and all(isinstance(x, PObj) and x.cls == 'minimal' for x in ins)))
                first = ins[0].fields['of'] if len(ins) else None
                first_shape = first.fields['shape'] if isinstance(first, PObj) and 'shape' in first.fields else None
                out.append(('broadcast-to-the-shape-of-the-first-input', first_shape is not None and vals.fields['shape'] is first_shape))
                for j, x in enumerate(ins[:k]):
                    src = x.fields['of']
                    if nested and j == 1:
                        out.append(('input-%d-is-the-nested-link-result' % j, isinstance(src, PObj) and src.cls == 'broadcast' and src.fields['of'].fields.get('tag') == 'inner'))
                    else:
                        out.append(('input-%d-is-the-coordinate-array-of-its-axis' % j, src is st.coords[(2 * j + 1) % st.nd]))
            return out
        return [('unexpected-return', False)]


def _unsup(msg):
    raise Unsupported(msg)


CONTRACTS = [AnyScalarEq(), BoundsForCache(), TranslatePixel()]
