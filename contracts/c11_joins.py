"""C11 - sidecar contracts for glue/core/joins.py:get_mask_with_key_joins and glue/core/data.py:Data.join_on_key.

Array values are abstract descriptors (which dataset, which key column, restricted by which view / which selection);
np.isin, |=, zeros_like, ravel, reshape, concatenate_arrays build descriptor terms.  The postcondition of each join shape is
a structural equation between the returned term and the term the statement prescribes:
    1-1:  isin( L[k1 | view] , R[k2 | selected] )
    n-n:  isin( tuple(L[k1_i | view]...) , tuple(R[k2_i | selected]...) )      (column order paired)
    1-n:  OR_j isin( L[k1 | view] , R[k2_j | selected] )
    n-1:  OR_i isin( L[k1_i | view] , R[k2 | selected] )
where `selected` is the mask of the selection on the other dataset.  Also: the recursion guard is set on this dataset while the other one
is asked and cleared on EVERY exit; a dataset whose guard is set is skipped; nothing evaluable => IncompatibleAttribute.
np.isin compares by value (A-NP); concatenate_arrays (byte concatenation) is covered by the bounded stand-in.
"""
import z3

from pyvc.verify import FnContract, Inputs, St
from pyvc.values import PObj, PList, Builtin, PyRaise, ExcVal, PType, Unsupported

J = "glue/core/joins.py"
DATA = "glue/core/data.py"


def _unsup(msg):
    raise Unsupported(msg)


def _and(a, b):
    """conjunction of mask terms, with `true` as unit"""
    if a == ('true',):
        return b
    if b == ('true',):
        return a
    return ('and', a, b)


def arr(term, shape_of=None, kind='O'):
    a = PObj('ndarray', fields={'term': term, 'shape_of': shape_of or term, 'dtype': PObj('dtype', fields={'kind': kind})})
    a.methods['ravel'] = lambda I, s: arr(s.fields['term'], s.fields['shape_of'], s.fields['dtype'].fields['kind'])
    a.methods['reshape'] = lambda I, s, shp: arr(s.fields['term'], shp.fields['of'] if isinstance(shp, PObj) and shp.cls == 'shape' else ('?',))
    a.methods['shape'] = ('__property__', lambda I, s: PObj('shape', fields={'of': s.fields['shape_of']}))
    # astype(common dtype): the same column, now of that dtype's kind
    a.methods['astype'] = lambda I, s, dt, copy=True: arr(s.fields['term'], s.fields['shape_of'], dt.fields['kind'] if isinstance(dt, PObj) and dt.cls == 'dtype' else s.fields['dtype'].fields['kind'])
    a.methods['__ior__'] = lambda I, s, o: _ior(s, o)
    a.methods['__len__'] = lambda I, s: z3.Int('number_of_rows')
    a.methods['__add__'] = lambda I, s, other: s if other == 0.0 else _unsup("array + %r" % (other,))       # x + 0. only turns -0. into 0.
    a.methods['__invert__'] = lambda I, s: arr(('not', s.fields['term']), s.fields['shape_of'])
    a.methods['__and__'] = lambda I, s, o: arr(_and(s.fields['term'], o.fields['term']), s.fields['shape_of'])
    a.methods['__iand__'] = lambda I, s, o: arr(_and(s.fields['term'], o.fields['term']), s.fields['shape_of'])
    return a


def _ior(s, o):
    s.fields['term'] = ('or', s.fields['term'], o.fields['term'])
    return s


class KeyJoins(FnContract):
    property_ids = ('C11',)
    target = J + ":get_mask_with_key_joins"
    title = "per join shape the mask is the key-membership formula of the statement over the rows selected in the other dataset; guard set/cleared; incompatible when nothing is evaluable"

    def configs(self, tier):
        out = []
        for n1, n2 in ((1, 1), (2, 2), (3, 3), (1, 2), (1, 3), (2, 1), (3, 1)):
            out.append(dict(n1=n1, n2=n2, others='one'))
        out += [dict(n1=2, n2=2, others='one', float_keys=True), dict(n1=3, n2=3, others='one', float_keys=True)]
        out += [dict(n1=1, n2=1, others='first-recursing'), dict(n1=2, n2=2, others='first-incompatible'), dict(n1=1, n2=1, others='none'),
                dict(n1=1, n2=1, others='all-incompatible'), dict(n1=2, n2=3, others='one'),
                dict(n1=1, n2=1, others='other-error'), dict(n1=2, n2=2, others='incompatible-then-other-error')]
        return out

    def inputs(self, cfg, P):
        events = []
        data = PObj('Data', fields={'label': 'L', '_recursing': False})
        view = PObj('view')
        state = PObj('SubsetState')

        def mk_other(label, behaviour):
            o = PObj('Data', fields={'label': label, '_recursing': behaviour == 'recursing'})

            def get_mask(I, self_, st):
                events.append(('get_mask', label, data.fields['_recursing'], st))
                if behaviour == 'incompatible':
                    raise PyRaise(ExcVal('IncompatibleAttribute'))
                if behaviour == 'error':
                    raise PyRaise(ExcVal('ClientException'))       # any other failure of evaluating the selection there
                return arr(('selected', label))

            def get_data(I, self_, cid, view=None):
                vt = view.fields['term'] if isinstance(view, PObj) and view.cls == 'ndarray' else ('view-object' if view is not None else None)
                return arr(('col', label, cid.fields['name'], vt))
            o.methods.update({'get_mask': get_mask, 'get_data': get_data})
            return o

        def l_get_data(I, self_, cid, view=None):
            return arr(('col', 'L', cid.fields['name'], 'view' if view is st_view else ('other-view' if view is not None else None)))
        st_view = view
        data.methods['get_data'] = l_get_data
        c1 = tuple(PObj('ComponentID', fields={'name': 'l%d' % i}) for i in range(cfg['n1']))
        c2 = tuple(PObj('ComponentID', fields={'name': 'r%d' % i}) for i in range(cfg['n2']))
        kj = {}
        plan = {'one': ['ok'], 'first-recursing': ['recursing', 'ok'], 'first-incompatible': ['incompatible', 'ok'], 'none': [],
                'all-incompatible': ['incompatible', 'incompatible'], 'other-error': ['error'], 'incompatible-then-other-error': ['incompatible', 'error']}[cfg['others']]
        others = []
        for i, b in enumerate(plan):
            o = mk_other('R%d' % i, b)
            others.append((o, b))
            kj[o] = (c1, c2)
        st = St(data=data, events=events, others=others, c1=c1, c2=c2, state=state)
        return Inputs([data, kj, state], {'view': view}, st=st)

    def globals_(self, cfg, st):
        def isin(I, a, b):
            return arr(('isin', a.fields['term'], b.fields['term']), a.fields['shape_of'])

        def zeros_like(I, a, dtype=None):
            return arr(('false',), a.fields['shape_of'])

        def concat(I, *arrays):
            return arr(('tuple',) + tuple(a.fields['term'] for a in arrays), arrays[0].fields['shape_of'])

        def asarray(I, a, dtype=None):
            return a

        def result_type(I, a, b):
            return PObj('dtype', fields={'kind': 'f' if cfg.get('float_keys') else 'i'})
        return {'numpy.isin': Builtin('np.isin', isin), 'numpy.zeros_like': Builtin('np.zeros_like', zeros_like),
                'numpy.asarray': Builtin('np.asarray', asarray), 'numpy.result_type': Builtin('np.result_type', result_type),
                'concatenate_arrays': Builtin('concatenate_arrays', concat), 'IncompatibleAttribute': PType('IncompatibleAttribute'),
                'numpy.ones': Builtin('np.ones', lambda I, n, dtype=None: arr(('true',))), 'numpy.isnan': Builtin('np.isnan', lambda I, a: arr(('isnan', a.fields['term']), a.fields['shape_of'])),
                'getattr': Builtin('getattr', lambda I, o, n, d=None: o.fields.get(n, d)), 'bool': PType('bool')}

    raises = {'IncompatibleAttribute': lambda cfg, st: cfg['others'] in ('none', 'all-incompatible'),
              'ClientException': lambda cfg, st: 'other-error' in cfg['others'],
              'Exception': lambda cfg, st: cfg['n1'] > 1 and cfg['n2'] > 1 and cfg['n1'] != cfg['n2']}

    def finish(self, cfg, st, P, outcome):
        qn = "get_mask_with_key_joins[%s]" % self.cfg_name(cfg)
        P.check(qn + "/exit:recursion-guard-cleared", st.data.fields['_recursing'] is False)
        asked = [e for e in st.events if e[0] == 'get_mask']
        P.check(qn + "/ensures:guard-set-while-the-other-dataset-is-asked", all(e[2] is True for e in asked))
        P.check(qn + "/ensures:the-selection-itself-is-passed-on", all(e[3] is st.state for e in asked))
        P.check(qn + "/ensures:datasets-on-the-recursion-stack-are-skipped",
                not any(e[1] == o.fields['label'] for e in asked for o, b in st.others if b == 'recursing'))
        if outcome[0] != 'return':
            return
        r = outcome[1]
        used = [o for o, b in st.others if b == 'ok'][0].fields['label']
        sel = ('selected', used)
        L = [('col', 'L', c.fields['name'], 'view') for c in st.c1]
        Rr = [('col', used, c.fields['name'], sel) for c in st.c2]
        n1, n2 = cfg['n1'], cfg['n2']
        if n1 == 1 and n2 == 1:
            exp = ('isin', L[0], Rr[0])
        elif n1 == n2:
            exp = ('isin', ('tuple',) + tuple(L), ('tuple',) + tuple(Rr))
            if cfg.get('float_keys'):
                # floating-point keys: a row with NaN in a key column matches nothing (NaN is not equal to anything, as for one-column keys)
                valid = ('true',)
                for l in L:
                    valid = _and(valid, ('not', ('isnan', l)))
                exp = _and(exp, valid)
        elif n1 == 1:
            exp = ('false',)
            for rcol in Rr:
                exp = ('or', exp, ('isin', L[0], rcol))
        else:
            exp = ('false',)
            for lcol in L:
                exp = ('or', exp, ('isin', lcol, Rr[0]))
        ok = isinstance(r, PObj) and r.cls == 'ndarray'
        P.check(qn + "/ensures:returns-a-mask", ok)
        if ok:
            P.check(qn + "/ensures:key-membership-formula-of-the-join-shape", r.fields['term'] == exp)
            P.check(qn + "/ensures:shape-of-the-left-key-under-the-view", r.fields['shape_of'] in L)


class JoinOnKey(FnContract):
    property_ids = ('C11',)
    target = DATA + ":Data.join_on_key"
    title = "registers the join in both directions with the key tuples swapped; names are resolved on the right dataset; unequal multi-column tuples are rejected"

    def configs(self, tier):
        return [dict(n1=a, n2=b, by=k) for a, b in ((1, 1), (2, 2), (1, 2), (2, 1), (2, 3)) for k in ('id', 'name')]

    def inputs(self, cfg, P):
        def mk(label, n):
            d = PObj('Data', fields={'label': label, '_key_joins': {}})
            ids = [PObj('ComponentID', fields={'name': '%s%d' % (label, i)}) for i in range(n)]
            d.methods['find_component_id'] = lambda I, s, name: next((c for c in ids if c.fields['name'] == name), None)
            return d, ids
        a, ia = mk('a', cfg['n1'])
        b, ib = mk('b', cfg['n2'])
        def arg(ids):
            xs = [c if cfg['by'] == 'id' else c.fields['name'] for c in ids]
            return xs[0] if len(xs) == 1 else tuple(xs)
        return Inputs([a, b, arg(ia), arg(ib)], st=St(a=a, b=b, ia=ia, ib=ib))

    def globals_(self, cfg, st):
        def b_isinstance(I, v, t):
            nm = getattr(t, 'name', None)
            if nm == 'str':
                return isinstance(v, str)
            return isinstance(v, PObj) and v.cls == nm
        return {'isinstance': Builtin('isinstance', b_isinstance), 'ComponentID': PType('ComponentID'), 'str': PType('str')}

    raises = {'Exception': lambda cfg, st: cfg['n1'] > 1 and cfg['n2'] > 1 and cfg['n1'] != cfg['n2']}

    def finish(self, cfg, st, P, outcome):
        qn = "Data.join_on_key[%s]" % self.cfg_name(cfg)
        if outcome[0] != 'return':
            P.check(qn + "/raises:nothing-registered", not st.a.fields['_key_joins'] and not st.b.fields['_key_joins'])
            return
        ja, jb = st.a.fields['_key_joins'].get(st.b), st.b.fields['_key_joins'].get(st.a)
        same = lambda t, ids: isinstance(t, tuple) and len(t) == len(ids) and all(x is y for x, y in zip(t, ids))
        P.check(qn + "/ensures:this-dataset-records-(own-keys,other-keys)", isinstance(ja, tuple) and len(ja) == 2 and same(ja[0], st.ia) and same(ja[1], st.ib))
        P.check(qn + "/ensures:other-dataset-records-the-swapped-pair", isinstance(jb, tuple) and len(jb) == 2 and same(jb[0], st.ib) and same(jb[1], st.ia))


CONTRACTS = [KeyJoins(), JoinOnKey()]
