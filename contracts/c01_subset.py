"""C01 - sidecar contracts for the Boolean algebra of selections.

Spec function  MASK(state, data, view) : Idx -> Bool   (uninterpreted for leaves).
Contract of every `to_mask` (used at call sites for the children): returns a *borrowed* array object whose content is
MASK(child, data, view) and whose shape is vshape(data, view); callers must not write through it (it may be a cache entry).

Proved here, from the real function text:
  CompositeSubsetState.to_mask   per subclass found in the source (And/Or/Xor):  MASK = MASK(s1) op MASK(s2), element-wise
  InvertState.to_mask            MASK = not MASK(s1)
  MultiOrState.to_mask           MASK = OR_k MASK(states[k]); only a fresh copy is written in place
  CompositeSubsetState.__init__ / copy,  MultiOrState.__init__,  SubsetState.__and__/__or__/__xor__/__invert__
                                 operands are copied, never stored or modified; the class of the result fixes the operation
  edit modes Replace/New/And/Or/Xor/AndNot   edit_subset.subset_state' combines (copies of) new and old in the stated order
  memoize.wrapper                under the cache invariant returns the function's value, preserves the invariant
  Data.get_mask, Subset.to_mask  delegate; key joins are consulted only on IncompatibleAttribute
"""
import z3

from pyvc.verify import FnContract, Inputs, St
from pyvc.interp import Interp, Hooks
from pyvc.values import PObj, PList, Builtin, PyRaise, ExcVal, PType, Unsupported, MapBox, is_z3
from pyvc.extract import FunctionText, class_attr, module_ast
from pyvc.arrays import ArrayWorld, Idx, Shape, Content, AND, OR, XOR, NOT
from pyvc import spec as S
import ast

SUBSET = "glue/core/subset.py"
MODES = "glue/core/edit_subset_mode.py"

StateRef = z3.DeclareSort('StateRef')
DataRef = z3.DeclareSort('DataRef')
ViewRef = z3.DeclareSort('ViewRef')
MASK = z3.Function('MASK', StateRef, DataRef, ViewRef, Content)
vshape = z3.Function('view_shape', DataRef, ViewRef, Shape)
copy_of = z3.Function('copy_of', StateRef, z3.IntSort(), StateRef)      # the k-th copy made of a state


def leaf(world, name, P, counter):
    """an operand selection: an opaque state whose to_mask/copy obey their contracts"""
    ref = z3.Const(name, StateRef)
    return state_obj(world, ref, P, counter)


def state_obj(world, ref, P, counter, cls='SubsetState'):
    s = PObj(cls, fields={'ref': ref})
    s.fields['__written__'] = []

    def to_mask(I, self_, data, view=None, **kw):
        if 'view' in kw:
            view = kw['view']
        v = view if view is not None else NOVIEW
        return world.new(MASK(ref, data, v), vshape(data, v), borrowed=True, origin='to_mask')

    def copy(I, self_):
        counter['copies'] += 1
        r2 = copy_of(ref, counter['copies'])
        # contract of copy(): a fresh, independent object selecting the same elements
        d, v = z3.Const('any_data', DataRef), z3.Const('any_view', ViewRef)
        I.path.assume(z3.ForAll([d, v], MASK(r2, d, v) == MASK(ref, d, v)))
        c = state_obj(world, r2, P, counter)
        c.fields['copied_from'] = self_
        return c
    s.methods.update({'to_mask': to_mask, 'copy': copy, '__bool__': lambda I, self_: True})
    return s


NOVIEW = z3.Const('no_view', ViewRef)


def composite_subclasses():
    """classes in subset.py that inherit CompositeSubsetState and define `op` (found in the source on every run)"""
    src, tree = module_ast(SUBSET)
    out = []
    for node in tree.body:
        if isinstance(node, ast.ClassDef) and any(isinstance(b, ast.Name) and b.id == 'CompositeSubsetState' for b in node.bases):
            for stn in node.body:
                if isinstance(stn, ast.Assign) and getattr(stn.targets[0], 'id', None) == 'op':
                    out.append((node.name, ast.unparse(stn.value)))
    return out


OPS = {'AndState': AND, 'OrState': OR, 'XorState': XOR}


class CompositeToMask(FnContract):
    property_ids = ('C01', 'C05')
    target = SUBSET + ":CompositeSubsetState.to_mask"
    title = "the mask of and/or/xor is the element-wise and/or/xor of the children's masks, has their shape, and no child mask is written"

    def configs(self, tier):
        return [dict(cls=c, view=v) for c, _ in composite_subclasses() for v in ('given', 'None')]

    def inputs(self, cfg, P):
        world = ArrayWorld()
        counter = {'copies': 0}
        s1, s2 = leaf(world, 's1', P, counter), leaf(world, 's2', P, counter)
        data = z3.Const('data', DataRef)
        view = z3.Const('view', ViewRef) if cfg['view'] == 'given' else None
        me = PObj(cfg['cls'], fields={'state1': s1, 'state2': s2})
        opexpr = class_attr(SUBSET, cfg['cls'], 'op')
        st = St(world=world, s1=s1, s2=s2, data=data, view=view, me=me, opexpr=opexpr)
        return Inputs([me, data, view], st=st)

    def globals_(self, cfg, st):
        g = st.world.operator_models()
        return g

    def finish(self, cfg, st, P, outcome):
        qn = "CompositeSubsetState.to_mask[%s]" % self.cfg_name(cfg)
        if outcome[0] != 'return':
            return
        # the class attribute `op` of this subclass, evaluated from the source
        r = outcome[1]
        ok = isinstance(r, PObj) and r.cls == 'ndarray'
        P.check(qn + "/ensures:returns-an-array", ok)
        if not ok:
            return
        v = st.view if st.view is not None else NOVIEW
        f = OPS.get(cfg['cls'])
        if f is None:
            P.check(qn + "/ensures:known-operation", False)
            return
        P.check(qn + "/ensures:elementwise-" + cfg['cls'],
                r.fields['content'] == z3.Map(f, MASK(st.s1.fields['ref'], st.data, v), MASK(st.s2.fields['ref'], st.data, v)))
        P.check(qn + "/ensures:shape-of-the-view", r.fields['shape'] == vshape(st.data, v))
        P.check(qn + "/frame:no-child-mask-written", st.world.borrowed_untouched())

    def run_prepare(self, st, I):
        pass


# the executor needs `self.op`: resolve the class attribute from the source when the field is read
def _op_field(I, st):
    return I.eval(st.opexpr, {})


class CompositeToMaskImpl(CompositeToMask):
    def inputs(self, cfg, P):
        inp = CompositeToMask.inputs(self, cfg, P)
        st = inp.st
        st.me.methods['op'] = ('__property__', lambda I, self_: I.eval(st.opexpr, {}))
        return inp


class InvertToMask(FnContract):
    property_ids = ('C01', 'C05')
    target = SUBSET + ":InvertState.to_mask"
    title = "the mask of not-s is the element-wise negation of the mask of s, same shape; the child's mask is not written"

    def configs(self, tier):
        return [dict(view='given'), dict(view='None')]

    def inputs(self, cfg, P):
        world = ArrayWorld()
        counter = {'copies': 0}
        s1 = leaf(world, 's1', P, counter)
        data = z3.Const('data', DataRef)
        view = z3.Const('view', ViewRef) if cfg['view'] == 'given' else None
        me = PObj('InvertState', fields={'state1': s1, 'state2': None})
        return Inputs([me, data, view], st=St(world=world, s1=s1, data=data, view=view))

    def finish(self, cfg, st, P, outcome):
        qn = "InvertState.to_mask[%s]" % self.cfg_name(cfg)
        if outcome[0] != 'return':
            return
        r = outcome[1]
        ok = isinstance(r, PObj) and r.cls == 'ndarray'
        P.check(qn + "/ensures:returns-an-array", ok)
        if not ok:
            return
        v = st.view if st.view is not None else NOVIEW
        P.check(qn + "/ensures:elementwise-not", r.fields['content'] == z3.Map(NOT, MASK(st.s1.fields['ref'], st.data, v)))
        P.check(qn + "/ensures:shape-of-the-view", r.fields['shape'] == vshape(st.data, v))
        P.check(qn + "/frame:child-mask-not-written", st.world.borrowed_untouched())


class MultiOrToMask(FnContract):
    property_ids = ('C01', 'C05')
    target = SUBSET + ":MultiOrState.to_mask"
    title = "the mask of a many-way or is the element-wise or of all members' masks; only a fresh copy is modified in place"

    def configs(self, tier):
        ks = (1, 2, 3, 4) if tier == 'quick' else (1, 2, 3, 4, 5, 6)
        return [dict(n=k, view=v) for k in ks for v in ('given', 'None')]

    def inputs(self, cfg, P):
        world = ArrayWorld()
        counter = {'copies': 0}
        states = [leaf(world, 'm%d' % i, P, counter) for i in range(cfg['n'])]
        data = z3.Const('data', DataRef)
        view = z3.Const('view', ViewRef) if cfg['view'] == 'given' else None
        me = PObj('MultiOrState', fields={'states': PList(states)})
        return Inputs([me, data, view], st=St(world=world, states=states, data=data, view=view))

    def finish(self, cfg, st, P, outcome):
        qn = "MultiOrState.to_mask[%s]" % self.cfg_name(cfg)
        if outcome[0] != 'return':
            return
        r = outcome[1]
        ok = isinstance(r, PObj) and r.cls == 'ndarray'
        P.check(qn + "/ensures:returns-an-array", ok)
        if not ok:
            return
        v = st.view if st.view is not None else NOVIEW
        exp = MASK(st.states[0].fields['ref'], st.data, v)
        for s in st.states[1:]:
            exp = z3.Map(OR, exp, MASK(s.fields['ref'], st.data, v))
        P.check(qn + "/ensures:elementwise-or-of-all-members", r.fields['content'] == exp)
        P.check(qn + "/ensures:shape-of-the-view", r.fields['shape'] == vshape(st.data, v))
        P.check(qn + "/frame:no-member-mask-written-in-place", st.world.borrowed_untouched())
        P.check(qn + "/ensures:result-is-not-a-member's-own-mask", not r.fields['borrowed'])


# =================================================================================================
def class_models(world, P, counter, made):
    """constructors of the composite classes: run the REAL __init__ of the class (inlined) on a new object"""
    def ctor(cls):
        def construct(I, *args):
            obj = PObj(cls)
            base = 'CompositeSubsetState' if cls in ('AndState', 'OrState', 'XorState', 'InvertState', 'CompositeSubsetState') else cls
            ft = FunctionText(SUBSET, base + '.__init__')
            sub = Interp(I.path, I.globals, Hooks(name=I.hooks.name), ft)
            sub.run_function(ft, [obj] + list(args), {})
            made.append(obj)
            install_composite_methods(obj, world, P, counter, made)
            return obj
        return Builtin(cls, construct)
    g = {c: ctor(c) for c in ('AndState', 'OrState', 'XorState', 'InvertState', 'MultiOrState')}

    def b_super(I, *a):
        return PObj('super', methods={'__init__': lambda I2, self_: None})
    g['super'] = Builtin('super', b_super)
    g['CompositeSubsetState'] = PType('CompositeSubsetState')
    g['MultiOrState_type'] = PType('MultiOrState')
    return g


def install_composite_methods(obj, world, P, counter, made):
    """a composite built by the code under verification behaves by the contracts proved above"""
    def mask_of(o, data, v):
        if o.cls in OPS:
            return z3.Map(OPS[o.cls], mask_of(o.fields['state1'], data, v), mask_of(o.fields['state2'], data, v))
        if o.cls == 'InvertState':
            return z3.Map(NOT, mask_of(o.fields['state1'], data, v))
        return MASK(o.fields['ref'], data, v)
    obj.fields['mask_of'] = mask_of
    obj.methods['__bool__'] = lambda I, self_: True

    def copy(I, self_):
        ft = FunctionText(SUBSET, 'CompositeSubsetState.copy')
        g = dict(I.globals)
        g['type'] = Builtin('type', lambda I2, o: I2.globals[o.cls])
        sub = Interp(I.path, g, Hooks(name=I.hooks.name), ft)
        return sub.run_function(ft, [self_], {})
    obj.methods['copy'] = copy


def abstract_mask(o, data, v):
    """MASK of a state object built from leaves and composites (defining equations proved by the to_mask contracts)"""
    if o.cls in OPS:
        return z3.Map(OPS[o.cls], abstract_mask(o.fields['state1'], data, v), abstract_mask(o.fields['state2'], data, v))
    if o.cls == 'InvertState':
        return z3.Map(NOT, abstract_mask(o.fields['state1'], data, v))
    return MASK(o.fields['ref'], data, v)


def is_copy_of(c, orig):
    """c is a fresh object produced by orig.copy() (directly or through a composite's copy)"""
    return isinstance(c, PObj) and c is not orig and c.fields.get('copied_from') is orig


class CompositeInit(FnContract):
    property_ids = ('C01',)
    target = SUBSET + ":CompositeSubsetState.__init__"
    title = "stores copies of both operands (never the operands themselves); operands are not modified"

    def configs(self, tier):
        return [dict(arity=2), dict(arity=1)]

    def inputs(self, cfg, P):
        world = ArrayWorld()
        counter = {'copies': 0}
        a, b = leaf(world, 'a', P, counter), leaf(world, 'b', P, counter)
        me = PObj('CompositeSubsetState')
        st = St(world=world, a=a, b=b, me=me, made=[], counter=counter, fields_a=dict(a.fields), fields_b=dict(b.fields))
        return Inputs([me, a] + ([b] if cfg['arity'] == 2 else []), st=st)

    def globals_(self, cfg, st):
        return class_models(st.world, None, st.counter, st.made)

    def finish(self, cfg, st, P, outcome):
        qn = "CompositeSubsetState.__init__[%s]" % self.cfg_name(cfg)
        if outcome[0] != 'return':
            return
        me = st.me
        P.check(qn + "/ensures:state1-is-a-copy-of-the-first-operand", is_copy_of(me.fields.get('state1'), st.a))
        if cfg['arity'] == 2:
            P.check(qn + "/ensures:state2-is-a-copy-of-the-second-operand", is_copy_of(me.fields.get('state2'), st.b))
        else:
            P.check(qn + "/ensures:state2-is-None", me.fields.get('state2', 0) is None)
        P.check(qn + "/frame:operands-not-modified",
                all(st.a.fields.get(k) is v for k, v in st.fields_a.items()) and all(st.b.fields.get(k) is v for k, v in st.fields_b.items())
                and set(st.a.fields) == set(st.fields_a) and set(st.b.fields) == set(st.fields_b))


class CompositeCopy(FnContract):
    property_ids = ('C01',)
    target = SUBSET + ":CompositeSubsetState.copy"
    title = "a copy of a composite is a new composite of the same class over copies of its children, selecting the same elements"

    def configs(self, tier):
        return [dict(cls=c) for c in ('AndState', 'OrState', 'XorState', 'InvertState')]

    def inputs(self, cfg, P):
        world = ArrayWorld()
        counter = {'copies': 0}
        a, b = leaf(world, 'a', P, counter), leaf(world, 'b', P, counter)
        me = PObj(cfg['cls'], fields={'state1': a, 'state2': b if cfg['cls'] != 'InvertState' else None})
        st = St(world=world, a=a, b=b, me=me, made=[], counter=counter)
        return Inputs([me], st=st)

    def globals_(self, cfg, st):
        g = class_models(st.world, None, st.counter, st.made)
        g['type'] = Builtin('type', lambda I, o: g[o.cls])
        return g

    def finish(self, cfg, st, P, outcome):
        qn = "CompositeSubsetState.copy[%s]" % self.cfg_name(cfg)
        if outcome[0] != 'return':
            return
        r = outcome[1]
        ok = isinstance(r, PObj) and r.cls == cfg['cls'] and r is not st.me
        P.check(qn + "/ensures:new-object-of-the-same-class", ok)
        if not ok:
            return
        P.check(qn + "/ensures:children-are-copies", is_copy_of(r.fields.get('state1'), st.a) and
                (r.fields.get('state2') is None if cfg['cls'] == 'InvertState' else is_copy_of(r.fields.get('state2'), st.b)))
        d, v = z3.Const('d', DataRef), z3.Const('v', ViewRef)
        P.check(qn + "/ensures:selects-the-same-elements", abstract_mask(r, d, v) == abstract_mask(st.me, d, v))
        P.check(qn + "/frame:original-untouched", st.me.fields['state1'] is st.a)


class Operators(FnContract):
    """SubsetState.__and__/__or__/__xor__/__invert__"""
    property_ids = ('C01',)
    op = '__and__'
    cls = 'AndState'

    def inputs(self, cfg, P):
        world = ArrayWorld()
        counter = {'copies': 0}
        a, b = leaf(world, 'a', P, counter), leaf(world, 'b', P, counter)
        st = St(world=world, a=a, b=b, made=[], counter=counter, fields_a=dict(a.fields), fields_b=dict(b.fields))
        return Inputs([a] + ([b] if self.op != '__invert__' else []), st=st)

    def globals_(self, cfg, st):
        return class_models(st.world, None, st.counter, st.made)

    def finish(self, cfg, st, P, outcome):
        qn = "SubsetState.%s[-]" % self.op
        if outcome[0] != 'return':
            return
        r = outcome[1]
        ok = isinstance(r, PObj) and r.cls == self.cls
        P.check(qn + "/ensures:result-class-%s" % self.cls, ok)
        if not ok:
            return
        d, v = z3.Const('d', DataRef), z3.Const('v', ViewRef)
        ma, mb = MASK(st.a.fields['ref'], d, v), MASK(st.b.fields['ref'], d, v)
        exp = z3.Map(NOT, ma) if self.op == '__invert__' else z3.Map(OPS[self.cls], ma, mb)
        P.check(qn + "/ensures:selects-the-elementwise-combination-in-operand-order", abstract_mask(r, d, v) == exp)
        P.check(qn + "/ensures:operands-are-copied-not-stored", is_copy_of(r.fields.get('state1'), st.a) and
                (self.op == '__invert__' or is_copy_of(r.fields.get('state2'), st.b)))
        P.check(qn + "/frame:operands-not-modified",
                all(st.a.fields.get(k) is v_ for k, v_ in st.fields_a.items()) and all(st.b.fields.get(k) is v_ for k, v_ in st.fields_b.items()))


def _opc(op, cls):
    return type('Op' + cls, (Operators,), dict(target=SUBSET + ":SubsetState." + op, op=op, cls=cls,
                                               title="SubsetState.%s builds a %s over copies of the operands" % (op, cls)))()


# =================================================================================================
class EditMode(FnContract):
    property_ids = ('C01', 'C13')
    fn = 'AndMode'

    def inputs(self, cfg, P):
        world = ArrayWorld()
        counter = {'copies': 0}
        made = []
        g = class_models(world, None, counter, made)
        new, old = leaf(world, 'new_state', P, counter), leaf(world, 'old_state', P, counter)
        for s in (new, old):
            s.methods['__and__'] = lambda I, a, b: I.call(g['AndState'], [a, b], {})
            s.methods['__or__'] = lambda I, a, b: I.call(g['OrState'], [a, b], {})
            s.methods['__xor__'] = lambda I, a, b: I.call(g['XorState'], [a, b], {})
            s.methods['__invert__'] = lambda I, a: I.call(g['InvertState'], [a], {})
        subset = PObj('Subset', fields={'subset_state': old, 'label': 'edit'})
        st = St(world=world, new=new, old=old, subset=subset, g=g, made=made, fields_new=dict(new.fields), fields_old=dict(old.fields))
        return Inputs([subset, new], st=st)

    def globals_(self, cfg, st):
        return st.g

    EXPECT = {
        'ReplaceMode': lambda n, o: n, 'NewMode': lambda n, o: n,
        'AndMode': lambda n, o: z3.Map(AND, n, o), 'OrMode': lambda n, o: z3.Map(OR, n, o), 'XorMode': lambda n, o: z3.Map(XOR, n, o),
        'AndNotMode': lambda n, o: z3.Map(AND, o, z3.Map(NOT, n)),
    }

    def finish(self, cfg, st, P, outcome):
        qn = "%s[-]" % self.fn
        if outcome[0] != 'return':
            return
        r = st.subset.fields['subset_state']
        d, v = z3.Const('d', DataRef), z3.Const('v', ViewRef)
        n, o = MASK(st.new.fields['ref'], d, v), MASK(st.old.fields['ref'], d, v)
        ok = isinstance(r, PObj)
        P.check(qn + "/ensures:a-state-is-assigned", ok)
        if not ok:
            return
        P.check(qn + "/ensures:selection-is-%s-of-new-and-previous" % self.fn, abstract_mask(r, d, v) == self.EXPECT[self.fn](n, o))
        P.check(qn + "/ensures:the-new-state-object-itself-is-not-stored", r is not st.new and r is not st.old and
                all(x is not st.new and x is not st.old for x in (r.fields.get('state1'), r.fields.get('state2'))))
        allowed = {'parent'}
        P.check(qn + "/frame:operands-not-modified-except-parent",
                all(st.new.fields.get(k) is v_ for k, v_ in st.fields_new.items()) and set(st.new.fields) - set(st.fields_new) <= allowed and
                all(st.old.fields.get(k) is v_ for k, v_ in st.fields_old.items()) and set(st.old.fields) == set(st.fields_old))
        P.check(qn + "/frame:only-the-selection-of-the-edit-subset-changes", set(st.subset.fields) == {'subset_state', 'label'} and st.subset.fields['label'] == 'edit')


def _mode(fn):
    return type(fn + 'Contract', (EditMode,), dict(target=MODES + ":" + fn, fn=fn,
                                                   title="%s: the edit subset's selection becomes the stated combination of (copies of) new and previous" % fn))()


# =================================================================================================
Key = z3.DeclareSort('Key')
Value = z3.DeclareSort('Value')
F = z3.Function('F_current', Key, Value)         # what the wrapped function returns for a key in the current heap


class MemoizeWrapper(FnContract):
    property_ids = ('C01', 'C05')
    target = "glue/core/decorators.py:memoize.wrapper"
    title = ("under the cache invariant (every entry equals the function's current value) the wrapper returns the function's value, "
             "keeps the invariant, evaluates at most once, and bypasses the cache for unhashable arguments")

    def inputs(self, cfg, P):
        memo = MapBox(z3.Const('memo_arr', z3.ArraySort(Key, Value)), z3.Const('memo_dom', z3.ArraySort(Key, z3.BoolSort())))
        key = z3.Const('key_of_args', Key)
        hashable = z3.Bool('arguments_hashable')
        other = z3.Const('other_key', Key)
        st = St(memo=memo, key=key, hashable=hashable, other=other, old_arr=memo.arr, old_dom=memo.dom, calls=[])
        a1 = z3.Const('arg1', z3.DeclareSort('Any'))
        return Inputs([a1], {'view': z3.Const('arg2', z3.DeclareSort('Any'))}, st=st)

    def requires(self, cfg, st):
        # cache invariant CI, instantiated at the two keys the obligations talk about
        return [('CI(key)', z3.Implies(z3.Select(st.old_dom, st.key), z3.Select(st.old_arr, st.key) == F(st.key))),
                ('CI(other)', z3.Implies(z3.Select(st.old_dom, st.other), z3.Select(st.old_arr, st.other) == F(st.other)))]

    def globals_(self, cfg, st):
        def make_key(I, args, kwargs):
            if not I.path.branch(st.hashable):
                raise PyRaise(ExcVal('TypeError', ('unhashable',)))
            return st.key

        def func(I, *a, **k):
            st.calls.append((a, k))
            return F(st.key)
        return {'_make_key': Builtin('_make_key', make_key), 'func': Builtin('func', func), 'memo': st.memo}

    def finish(self, cfg, st, P, outcome):
        qn = "memoize.wrapper[-]"
        if outcome[0] != 'return':
            P.check(qn + "/does-not-raise", False)
            return
        P.check(qn + "/ensures:returns-the-function's-current-value", outcome[1] == F(st.key) if is_z3(outcome[1]) else False)
        P.check(qn + "/ensures:evaluates-at-most-once", len(st.calls) <= 1)
        P.check(qn + "/ensures:arguments-passed-through", all(len(a) == 1 and set(k) == {'view'} for a, k in st.calls))
        m = st.memo
        P.check(qn + "/ensures:CI-preserved(key)", z3.Implies(z3.Select(m.dom, st.key), z3.Select(m.arr, st.key) == F(st.key)))
        P.check(qn + "/ensures:CI-preserved(other)", z3.Implies(z3.Select(m.dom, st.other), z3.Select(m.arr, st.other) == F(st.other)))
        P.check(qn + "/frame:other-entries-untouched", z3.Implies(st.other != st.key, z3.And(z3.Select(m.dom, st.other) == z3.Select(st.old_dom, st.other),
                                                                                         z3.Select(m.arr, st.other) == z3.Select(st.old_arr, st.other))))
        P.check(qn + "/ensures:unhashable-arguments-bypass-the-cache", z3.Implies(z3.Not(st.hashable), z3.And(m.arr == st.old_arr, m.dom == st.old_dom)))


class MakeKey(FnContract):
    property_ids = ('C01', 'C05')
    target = "glue/core/decorators.py:_make_key"
    title = "the cache key determines both the positional and the keyword arguments (injective)"

    def inputs(self, cfg, P):
        args = (z3.Int('a0'), z3.Int('a1'))
        kwargs = {'view': z3.Int('v')}
        return Inputs([args, kwargs], st=St(args=args, kwargs=kwargs))

    def globals_(self, cfg, st):
        def b_frozenset(I, items):
            return ('frozenset',) + tuple(sorted(I.iterate_concrete(items), key=lambda kv: kv[0]))
        return {'frozenset': Builtin('frozenset', b_frozenset)}

    def ensures(self, cfg, st, result):
        def same(a, b):
            return isinstance(a, tuple) and isinstance(b, tuple) and len(a) == len(b) and all(x is y for x, y in zip(a, b))
        ok = isinstance(result, tuple) and len(result) == 2 and same(result[0], st.args) and \
            isinstance(result[1], tuple) and len(result[1]) == 2 and result[1][0] == 'frozenset' and \
            isinstance(result[1][1], tuple) and result[1][1][0] == 'view' and result[1][1][1] is st.kwargs['view']
        return [('key-is-(args, frozenset(kwargs.items()))', ok)]


class DataGetMask(FnContract):
    property_ids = ('C01', 'C11')
    target = "glue/core/data.py:Data.get_mask"
    title = "returns state.to_mask(data, view); key joins are consulted only when the state is incompatible with this dataset"

    def configs(self, tier):
        return [dict(incompatible=False), dict(incompatible=True)]

    def inputs(self, cfg, P):
        world = ArrayWorld()
        calls = {'to_mask': [], 'joins': []}
        state = PObj('SubsetState')
        data = PObj('Data', fields={'_key_joins': PObj('dict')})
        view = z3.Const('view', ViewRef)
        the_mask = world.new(z3.Const('m', Content), z3.Const('shp', Shape), borrowed=True)
        join_mask = world.new(z3.Const('jm', Content), z3.Const('shp', Shape), borrowed=True)

        def to_mask(I, self_, d, view=None):
            calls['to_mask'].append((d, view))
            if cfg['incompatible']:
                raise PyRaise(ExcVal('IncompatibleAttribute'))
            return the_mask
        state.methods['to_mask'] = to_mask
        st = St(calls=calls, state=state, data=data, view=view, the_mask=the_mask, join_mask=join_mask)
        return Inputs([data, state], {'view': view}, st=st)

    def globals_(self, cfg, st):
        def joins(I, data, key_joins, subset_state, view=None):
            st.calls['joins'].append((data, key_joins, subset_state, view))
            return st.join_mask
        return {'get_mask_with_key_joins': Builtin('get_mask_with_key_joins', joins), 'IncompatibleAttribute': PType('IncompatibleAttribute')}

    def finish(self, cfg, st, P, outcome):
        qn = "Data.get_mask[%s]" % self.cfg_name(cfg)
        if outcome[0] != 'return':
            P.check(qn + "/does-not-raise", False)
            return
        c = st.calls
        P.check(qn + "/ensures:asks-the-state-once-with-this-dataset-and-view",
                len(c['to_mask']) == 1 and c['to_mask'][0][0] is st.data and c['to_mask'][0][1] is st.view)
        if cfg['incompatible']:
            P.check(qn + "/ensures:incompatible=>key-joins-with-same-state-and-view",
                    len(c['joins']) == 1 and c['joins'][0][0] is st.data and c['joins'][0][1] is st.data.fields['_key_joins'] and
                    c['joins'][0][2] is st.state and c['joins'][0][3] is st.view and outcome[1] is st.join_mask)
        else:
            P.check(qn + "/ensures:compatible=>the-state's-mask-no-key-joins", len(c['joins']) == 0 and outcome[1] is st.the_mask)


class SubsetToMask(FnContract):
    property_ids = ('C01',)
    target = SUBSET + ":Subset.to_mask"
    title = "a subset's mask is its dataset's mask of its current selection for the same view"

    def inputs(self, cfg, P):
        calls = []
        state = PObj('SubsetState')
        result = PObj('ndarray')
        data = PObj('Data')

        def get_mask(I, self_, s, view=None):
            calls.append((s, view))
            return result
        data.methods['get_mask'] = get_mask
        view = z3.Const('view', ViewRef)
        sub = PObj('Subset', fields={'data': data, 'subset_state': state})
        return Inputs([sub], {'view': view}, st=St(calls=calls, state=state, result=result, view=view))

    def ensures(self, cfg, st, result):
        return [('delegates', len(st.calls) == 1 and st.calls[0][0] is st.state and st.calls[0][1] is st.view and result is st.result)]


class MultiOrInit(FnContract):
    property_ids = ('C01',)
    target = SUBSET + ":MultiOrState.__init__"
    title = "a many-way or needs at least one member (ValueError otherwise) and keeps the members in order"

    def configs(self, tier):
        return [dict(n=k) for k in (0, 1, 3)]

    def inputs(self, cfg, P):
        world = ArrayWorld()
        counter = {'copies': 0}
        states = PList([leaf(world, 'm%d' % i, P, counter) for i in range(cfg['n'])])
        me = PObj('MultiOrState')
        return Inputs([me, states], st=St(me=me, states=states, orig=list(states.items)))

    def globals_(self, cfg, st):
        return {'super': Builtin('super', lambda I, *a: PObj('super', methods={'__init__': lambda I2, s: None})),
                'MultiOrState': PType('MultiOrState')}

    raises = {'ValueError': lambda cfg, st: cfg['n'] == 0}

    def finish(self, cfg, st, P, outcome):
        qn = "MultiOrState.__init__[%s]" % self.cfg_name(cfg)
        if outcome[0] != 'return':
            return
        got = st.me.fields.get('states')
        items = got.items if isinstance(got, PList) else (list(got) if isinstance(got, tuple) else None)
        P.check(qn + "/ensures:members-kept-in-order", items is not None and len(items) == cfg['n'] and all(x is y for x, y in zip(items, st.orig)))
        P.check(qn + "/ensures:at-least-one-member", cfg['n'] >= 1)


class CombineMultiple(FnContract):
    property_ids = ('C01',)
    target = SUBSET + ":combine_multiple"
    title = "folds the operator over the subsets left to right; the empty list gives the empty selection"

    def configs(self, tier):
        return [dict(n=k) for k in (0, 1, 2, 4)]

    def inputs(self, cfg, P):
        items = [z3.Int('s%d' % i) for i in range(cfg['n'])]
        return Inputs([PList(items), Builtin('operator', lambda I, a, b: a * 10 + b)], st=St(orig=items))

    def globals_(self, cfg, st):
        return {'SubsetState': Builtin('SubsetState', lambda I: 'EMPTY')}

    def ensures(self, cfg, st, result):
        if cfg['n'] == 0:
            return [('empty-selection', result == 'EMPTY')]
        exp = st.orig[0]
        for x in st.orig[1:]:
            exp = exp * 10 + x
        return [('left-fold-in-order', result == exp)]


CONTRACTS = [CompositeToMaskImpl(), InvertToMask(), MultiOrToMask(), CompositeInit(), CompositeCopy(),
             _opc('__and__', 'AndState'), _opc('__or__', 'OrState'), _opc('__xor__', 'XorState'), _opc('__invert__', 'InvertState'),
             _mode('ReplaceMode'), _mode('NewMode'), _mode('AndMode'), _mode('OrMode'), _mode('XorMode'), _mode('AndNotMode'),
             MemoizeWrapper(), MakeKey(), DataGetMask(), SubsetToMask(), MultiOrInit(), CombineMultiple()]


class CombineData(FnContract):
    """EditSubsetMode._combine_data: which combination rule is applied to which subset"""
    property_ids = ('C01',)
    target = "glue/core/edit_subset_mode.py:EditSubsetMode._combine_data"
    title = ("with no edit subset, or in 'new' mode, a new group holding a copy of the state becomes the edit subset; otherwise the chosen rule "
             "(override or current mode) is applied exactly once to every edit subset with the given state, whatever that subset currently selects")

    def configs(self, tier):
        out = []
        for n in (0, 1, 2):
            for mode in ('current', 'override', 'new-current', 'new-override'):
                out.append(dict(edit=n, mode=mode, dc=True))
        out.append(dict(edit=0, mode='current', dc=False))
        return out

    def inputs(self, cfg, P):
        calls = []
        NEW = PObj('NewMode')

        def rule(tag):
            f = PObj('mode:' + tag)
            f.methods['__call__'] = lambda I, self_, s, st_: calls.append((tag, s, st_))
            return f
        cur, ovr = rule('current'), rule('override')
        new_state = PObj('SubsetState', fields={'name': 'new'})
        copy_of = PObj('SubsetState', fields={'name': 'copy-of-new'})
        new_state.methods['copy'] = lambda I, self_: copy_of
        # the edit subsets currently select "anything": their state is an opaque object (it may well be a bare, empty SubsetState)
        subs = [PObj('SubsetGroup', fields={'subset_state': PObj('SubsetState', fields={'name': 'whatever-%d' % i})}) for i in range(cfg['edit'])]
        created = []
        dc = None
        if cfg['dc']:
            dc = PObj('DataCollection')

            def new_group(I, self_, subset_state=None, **kw):
                g = PObj('SubsetGroup', fields={'subset_state': subset_state})
                created.append(g)
                return g
            dc.methods['new_subset_group'] = new_group
        esm = PObj('EditSubsetMode', fields={'_edit_subset': PList(list(subs)), 'data_collection': dc,
                                             '_mode': NEW if cfg['mode'] == 'new-current' else cur})
        esm.methods['mode'] = ('__property__', lambda I, self_: self_.fields['_mode'])
        esm.methods['edit_subset.setter'] = lambda I, self_, v: self_.fields.__setitem__('_edit_subset', v)
        esm.methods['edit_subset'] = ('__property__', lambda I, self_: self_.fields['_edit_subset'])
        st = St(calls=calls, esm=esm, subs=subs, created=created, new_state=new_state, copy_of=copy_of, cur=cur, ovr=ovr, NEW=NEW, dc=dc)
        kw = {}
        if cfg['mode'] == 'override':
            kw['override_mode'] = ovr
        if cfg['mode'] == 'new-override':
            kw['override_mode'] = NEW
        return Inputs([esm, new_state], kw, st=st)

    def globals_(self, cfg, st):
        def as_list(I, x):
            return x if isinstance(x, PList) else PList([x])
        # class names the body might consult: the edit subsets' states are plain SubsetState objects (the empty selection), the worst
        # case for any special-casing on the kind of the current selection
        g = {'NewMode': st.NEW, 'as_list': Builtin('as_list', as_list), 'RuntimeError': PType('RuntimeError'), 'SubsetState': PType('SubsetState')}
        for nm in ('ReplaceMode', 'AndMode', 'OrMode', 'XorMode', 'AndNotMode'):
            f = PObj('mode:' + nm)
            f.methods['__call__'] = (lambda I, self_, s, st_, nm=nm: st.calls.append((nm, s, st_)))
            g[nm] = f
        return g

    raises = {'RuntimeError': lambda cfg, st: not cfg['dc']}

    def ensures(self, cfg, st, result):
        creates = cfg['edit'] == 0 or cfg['mode'].startswith('new')
        e = st.esm.fields['_edit_subset']
        items = e.items if isinstance(e, PList) else None
        if creates:
            ok = len(st.created) == 1 and items is not None and len(items) == 1 and items[0] is st.created[0]
            return [('a-new-group-becomes-the-edit-subset', ok),
                    ('it-holds-a-copy-of-the-state', ok and st.created[0].fields['subset_state'] is st.copy_of),
                    ('no-rule-applied-to-existing-subsets', st.calls == [])]
        want = 'override' if cfg['mode'] == 'override' else 'current'
        return [('no-group-created', st.created == []),
                ('edit-subset-unchanged', items is not None and len(items) == len(st.subs) and all(a is b for a, b in zip(items, st.subs))),
                ('the-chosen-rule-applied-once-to-every-edit-subset-with-the-given-state',
                 len(st.calls) == len(st.subs) and all(c[0] == want and c[1] is s and c[2] is st.new_state for c, s in zip(st.calls, st.subs)))]


CONTRACTS.append(CombineData())
