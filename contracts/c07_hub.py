"""C07 - sidecar contracts for glue/core/hub.py (Hub.broadcast, delay_callbacks, ignore_callbacks,
_find_handlers, subscribe, unsubscribe, unsubscribe_all, is_subscribed, get_handler).

Abstract state of a hub:  _paused: Int (number of open delay blocks),  _queue: Seq(Msg),
_ignore: Map(Type -> Int) read with default 0,  _subscriptions: abstract (SubsState) or, where the
function inspects it, a finite-universe table (DESIGN.md C07).

Hub invariant HI:   _paused >= 0   and   (_paused == 0  =>  _queue == [])   and   _ignore[t] >= 0.

Client contract of external code (handlers, and the body of a `with hub.delay_callbacks()` block):
any finite sequence of public hub operations with properly nested blocks.  Hence it preserves HI,
returns `_paused` and `_ignore` to their values at its start, may change subscriptions, and - by the
contracts of broadcast / delay_callbacks proved here - while `_paused > 0` it only appends to the
queue and delivers nothing.  Handlers are assumed not to raise (A-EXC).
"""
import z3

from pyvc.verify import FnContract, Inputs, St
from pyvc.interp import LoopSpec
from pyvc.values import PObj, SeqBox, MapBox, PList, Builtin, PyRaise, ExcVal, PType, Unsupported, is_z3
from pyvc import spec as S

HUB = "glue/core/hub.py"

Msg = z3.DeclareSort('Msg')
Type = z3.DeclareSort('Type')
Sub = z3.DeclareSort('Sub')
Handler = z3.DeclareSort('Handler')
Filter = z3.DeclareSort('Filter')
SubsState = z3.DeclareSort('SubsState')
Pair = z3.Datatype('Pair')
Pair.declare('pair', ('sub', Sub), ('handler', Handler))
Pair = Pair.create()

typeof = z3.Function('typeof', Msg, Type)
issub = z3.Function('issubclass', Type, Type, z3.BoolSort())
mro = z3.Function('mro_count', Type, z3.IntSort())
accepts = z3.Function('accepts', Filter, Msg, z3.BoolSort())
expected = z3.Function('expected', SubsState, Msg, z3.SeqSort(Pair))     # spec function, defined by _find_handlers' contract
notify_of = z3.Function('notify_of', Sub, Handler)


def ign_view(m, t):
    """_ignore read with default 0"""
    return z3.If(z3.Select(m.dom, t), z3.Select(m.arr, t), 0)


def make_hub(P, subs=None):
    hub = PObj('Hub')
    hub.field_kinds = {'_queue': ('seq', Msg)}
    hub.fields['_paused'] = z3.Int('paused0')
    hub.fields['_queue'] = SeqBox(z3.Const('queue0', z3.SeqSort(Msg)))
    hub.fields['_ignore'] = MapBox(z3.Const('ignore_arr0', z3.ArraySort(Type, z3.IntSort())),
                                   z3.Const('ignore_dom0', z3.ArraySort(Type, z3.BoolSort())), kind='counter')
    hub.fields['_subscriptions'] = subs if subs is not None else z3.Const('subs0', SubsState)
    return hub


def snapshot(hub):
    return St(paused=hub.fields['_paused'], queue=hub.fields['_queue'].expr,
              ign_arr=hub.fields['_ignore'].arr, ign_dom=hub.fields['_ignore'].dom,
              subs=hub.fields['_subscriptions'])


def HI(hub, types=()):
    q = hub.fields['_queue']
    if not isinstance(q, SeqBox):
        return [('queue-is-a-list', False)]
    p = hub.fields['_paused']
    out = [('paused>=0', p >= 0), ('not-paused=>queue-empty', S.Implies(p == 0, z3.Length(q.expr) == 0))]
    for t in types:
        out.append(('ignore>=0', ign_view(hub.fields['_ignore'], t) >= 0))
    return out


def b_type(I, v):
    if is_z3(v) and v.sort() == Msg:
        return typeof(v)
    raise Unsupported("type() of %r" % (v,))


def client_effect(I, hub, what):
    """external code ran (a handler, or the body of a with-block): see module docstring"""
    P = I.path
    p = hub.fields['_paused']
    q = hub.fields['_queue']
    more = P.fresh(what + '_queued', z3.SeqSort(Msg))
    newq = P.fresh(what + '_queue', z3.SeqSort(Msg))
    P.assume(z3.If(p == 0, z3.Length(newq) == 0, newq == z3.Concat(q.expr, more)))
    q.expr = newq                                    # in place: the list object is shared
    if not isinstance(hub.fields['_subscriptions'], PObj):
        hub.fields['_subscriptions'] = P.fresh(what + '_subs', SubsState)


# =================================================================================================
class Broadcast(FnContract):
    property_ids = ('C07',)
    target = HUB + ":Hub.broadcast"
    title = "ignored -> nothing; paused -> queued in order, nothing delivered; else exactly the handlers selected at entry, once each, in order"

    def inputs(self, cfg, P):
        hub = make_hub(P)
        m = z3.Const('message', Msg)
        st = St(hub=hub, m=m, old=snapshot(hub))
        g = P.ghost
        g.update(n=0, H=None, find_calls=0)

        def find_handlers(I, self_, message):
            g['find_calls'] = g['find_calls'] + 1
            I.path.check("Hub.broadcast[-]/call:_find_handlers.argument-is-the-message", message == m)
            H = expected(self_.fields['_subscriptions'], message)
            g['H'] = H
            g['H_subs'] = self_.fields['_subscriptions']
            return SeqBox(H)
        hub.methods['_find_handlers'] = find_handlers
        return Inputs([hub, m], st=st, symbols={'paused0': hub.fields['_paused']})

    def requires(self, cfg, st):
        return HI(st.hub)

    def globals_(self, cfg, st):
        def call_symbolic(I, fv, args, kwargs):
            P = I.path
            g = P.ghost
            qn = "Hub.broadcast[-]"
            if fv.sort() != Handler:
                raise Unsupported("call of symbolic %s" % fv.sort())
            H = g['H']
            ok = H is not None and len(args) == 1 and not kwargs
            P.check(qn + "/handler-call:follows-the-selection",
                    S.And(g['n'] < z3.Length(H), Pair.handler(H[g['n']]) == fv, args[0] == st.m) if ok else False)
            for lbl, c in HI(st.hub):
                P.check(qn + "/handler-call:HI-holds:" + lbl, c)
            g['n'] = g['n'] + 1
            client_effect(I, st.hub, 'handler')
            return None
        return {'__call_symbolic__': call_symbolic, 'type': Builtin('type', b_type)}

    def loops(self, cfg, st):
        def inv(L):
            g = L.ghost
            hub = st.hub
            return [('n==position', S.And(g['n'] == L.it, L.it >= 0, L.it <= z3.Length(g['H']))),
                    ('paused-unchanged', hub.fields['_paused'] == st.old.paused),
                    ('HI', S.And(*[c for _, c in HI(hub)]))]

        def on_iter(what, L):
            if what == 'havoc':
                P = L.interp.path
                L.ghost['n'] = P.fresh_int('n')
                st.hub.fields['_queue'].expr = P.fresh('queue', z3.SeqSort(Msg))
                st.hub.fields['_subscriptions'] = P.fresh('subs', SubsState)

        def dec(L):
            return z3.Length(L.ghost['H']) - L.it
        return {0: LoopSpec(inv=inv, on_iter=on_iter, decreases=dec)}

    def finish(self, cfg, st, P, outcome):
        qn = "Hub.broadcast[-]"
        hub, old, g, m = st.hub, st.old, P.ghost, st.m
        if outcome[0] != 'return':
            return
        ig = hub.fields['_ignore']
        q = hub.fields['_queue']
        if not isinstance(q, SeqBox) or not isinstance(ig, MapBox):
            P.check(qn + "/ensures:state-shape", False)
            return
        ignored = ign_view(MapBox(old.ign_arr, old.ign_dom), typeof(m)) > 0
        paused = old.paused > 0
        n_is = lambda k: (g['n'] == k)
        P.check(qn + "/ensures:ignored=>nothing-happens",
                S.Implies(ignored, S.And(n_is(0), g['find_calls'] == 0, q.expr == old.queue)))
        P.check(qn + "/ensures:paused=>queued-at-the-end-nothing-delivered",
                S.Implies(S.And(S.Not(ignored), paused),
                          S.And(n_is(0), q.expr == z3.Concat(old.queue, z3.Unit(m)))))
        if g['H'] is not None:
            P.check(qn + "/ensures:direct=>selection-made-in-the-entry-state", g['H_subs'] == old.subs)
            P.check(qn + "/ensures:direct=>each-selected-handler-once-in-order",
                    S.Implies(S.And(S.Not(ignored), S.Not(paused)), g['n'] == z3.Length(g['H'])))
        else:
            P.check(qn + "/ensures:direct=>handlers-selected", S.Or(ignored, paused))
        P.check(qn + "/ensures:paused-unchanged", hub.fields['_paused'] == old.paused)
        P.check(qn + "/ensures:ignore-unchanged", S.And(ig.arr == old.ign_arr, ig.dom == old.ign_dom))
        for lbl, c in HI(hub):
            P.check(qn + "/ensures:HI:" + lbl, c)


BROADCAST = Broadcast()


def broadcast_callee(st, on_call=None):
    """modular use of Broadcast's contract at a call site (delay_callbacks flush)."""
    def model(I, self_, message):
        P = I.path
        hub = st.hub
        for lbl, c in HI(hub):
            P.check("%s/call:broadcast.requires:%s" % (I.hooks.name, lbl), c)
        if on_call is not None:
            on_call(I, message)
        ignored = ign_view(hub.fields['_ignore'], typeof(message)) > 0
        if P.branch(ignored):
            return None
        if P.branch(hub.fields['_paused'] > 0):
            q = hub.fields['_queue']
            q.expr = z3.Concat(q.expr, z3.Unit(message))
            return None
        client_effect(I, hub, 'bc')       # handlers ran; HI' and paused' == paused by Broadcast's ensures
        return None
    return model


# =================================================================================================
class DelayCallbacks(FnContract):
    property_ids = ('C07', 'C06')
    target = HUB + ":Hub.delay_callbacks"
    title = ("enter: one more open block; exit (normal or by exception): one fewer; when the outermost closes every queued "
             "message is broadcast once, in order; an inner exit delivers nothing")

    def inputs(self, cfg, P):
        hub = make_hub(P)
        st = St(hub=hub, old=snapshot(hub))
        g = P.ghost
        g.update(n=0, q_resume=None, body_raised=False, yields=0)

        def on_call(I, message):
            qr = g['q_resume']
            ok = qr is not None
            I.path.check("Hub.delay_callbacks[-]/flush:in-order-once",
                         S.And(g['n'] < z3.Length(qr), message == qr[g['n']]) if ok else False)
            I.path.check("Hub.delay_callbacks[-]/flush:only-when-no-block-is-open", hub.fields['_paused'] == 0)
            g['n'] = g['n'] + 1
        hub.methods['broadcast'] = broadcast_callee(st, on_call)
        return Inputs([hub], st=st, symbols={'paused0': hub.fields['_paused']})

    def requires(self, cfg, st):
        return HI(st.hub)

    def on_yield(self, cfg, st):
        def hook(I, v, env):
            P = I.path
            g = P.ghost
            hub = st.hub
            qn = "Hub.delay_callbacks[-]"
            g['yields'] = g['yields'] + 1
            P.check(qn + "/enter:one-more-open-block", hub.fields['_paused'] == st.old.paused + 1)
            P.check(qn + "/enter:queue-untouched", hub.fields['_queue'].expr == st.old.queue)
            for lbl, c in HI(hub):
                P.check(qn + "/enter:HI:" + lbl, c)
            # the body of the with-block (client contract)
            client_effect(I, hub, 'body')
            g['q_resume'] = hub.fields['_queue'].expr
            g['subs_resume'] = hub.fields['_subscriptions']
            if P.branch(P.fresh('body_raises', z3.BoolSort())):
                g['body_raised'] = True
                raise PyRaise(ExcVal('ClientException'))
            return None
        return hook

    raises = {'ClientException': lambda cfg, st: True}      # re-raised iff the body raised: checked in finish

    def globals_(self, cfg, st):
        return {'type': Builtin('type', b_type)}

    def loops(self, cfg, st):
        def inv(L):
            g = L.ghost
            hub = st.hub
            ql = L.queue
            if not isinstance(ql, SeqBox):
                return [('iterates-a-list', False)]
            return [('n==position', S.And(g['n'] == L.it, L.it >= 0, L.it <= z3.Length(g['q_resume']))),
                    ('flushed-list-is-what-was-queued', ql.expr == g['q_resume']),
                    ('no-block-open', hub.fields['_paused'] == 0),
                    ('HI', S.And(*[c for _, c in HI(hub)]))]

        def on_iter(what, L):
            if what == 'havoc':
                P = L.interp.path
                L.ghost['n'] = P.fresh_int('n')
                st.hub.fields['_queue'].expr = P.fresh('queue', z3.SeqSort(Msg))
                st.hub.fields['_subscriptions'] = P.fresh('subs', SubsState)

        def dec(L):
            return z3.Length(L.ghost['q_resume']) - L.it
        return {0: LoopSpec(inv=inv, on_iter=on_iter, decreases=dec)}

    def finish(self, cfg, st, P, outcome):
        qn = "Hub.delay_callbacks[-]"
        hub, old, g = st.hub, st.old, P.ghost
        P.check(qn + "/exit:exception-iff-body-raised", (outcome[0] == 'raise') == bool(g['body_raised']))
        P.check(qn + "/exit:yields-exactly-once", g['yields'] == 1)
        q = hub.fields['_queue']
        if g['q_resume'] is None or not isinstance(q, SeqBox):
            P.check(qn + "/exit:state-shape", False)
            return
        P.check(qn + "/exit:one-fewer-open-block", hub.fields['_paused'] == old.paused)
        outer = old.paused == 0
        P.check(qn + "/exit:outermost=>everything-queued-delivered-once-in-order",
                S.Implies(outer, S.And(g['n'] == z3.Length(g['q_resume']), z3.Length(q.expr) == 0)))
        P.check(qn + "/exit:inner=>nothing-delivered-queue-kept",
                S.Implies(S.Not(outer), S.And(g['n'] == 0, q.expr == g['q_resume'])))
        for lbl, c in HI(hub):
            P.check(qn + "/exit:HI:" + lbl, c)
        ig = hub.fields['_ignore']
        P.check(qn + "/exit:ignore-unchanged", S.And(ig.arr == old.ign_arr, ig.dom == old.ign_dom))


DELAY = DelayCallbacks()


# =================================================================================================
class IgnoreCallbacks(FnContract):
    property_ids = ('C07',)
    target = HUB + ":Hub.ignore_callbacks"
    title = "enter: ignore count of the type +1; exit (normal or by exception): back to the entry value; other types untouched"

    def inputs(self, cfg, P):
        hub = make_hub(P)
        T = z3.Const('ignore_type', Type)
        anyT = z3.Const('any_type', Type)
        st = St(hub=hub, old=snapshot(hub), T=T, anyT=anyT)
        P.ghost.update(body_raised=False, yields=0)
        return Inputs([hub, T], st=st)

    def requires(self, cfg, st):
        return HI(st.hub, [st.T, st.anyT])

    def on_yield(self, cfg, st):
        def hook(I, v, env):
            P = I.path
            hub = st.hub
            qn = "Hub.ignore_callbacks[-]"
            P.ghost['yields'] += 1
            oldm = MapBox(st.old.ign_arr, st.old.ign_dom)
            ig = hub.fields['_ignore']
            P.check(qn + "/enter:count+1", ign_view(ig, st.T) == ign_view(oldm, st.T) + 1)
            P.check(qn + "/enter:other-types-untouched",
                    S.Implies(st.anyT != st.T, ign_view(ig, st.anyT) == ign_view(oldm, st.anyT)))
            # body: balanced blocks -> the ignore map as a function (view) is unchanged at resume; keys may have
            # been inserted with value 0 by nested ignore blocks
            arr2 = P.fresh('ign_arr', ig.arr.sort())
            dom2 = P.fresh('ign_dom', ig.dom.sort())
            for t in (st.T, st.anyT):
                P.assume(ign_view(MapBox(arr2, dom2), t) == ign_view(ig, t))
            ig.arr, ig.dom = arr2, dom2
            client_effect(I, hub, 'body')
            if P.branch(P.fresh('body_raises', z3.BoolSort())):
                P.ghost['body_raised'] = True
                raise PyRaise(ExcVal('ClientException'))
            return None
        return hook

    raises = {'ClientException': lambda cfg, st: True}

    def finish(self, cfg, st, P, outcome):
        qn = "Hub.ignore_callbacks[-]"
        hub, old, g = st.hub, st.old, P.ghost
        P.check(qn + "/exit:exception-iff-body-raised", (outcome[0] == 'raise') == bool(g['body_raised']))
        P.check(qn + "/exit:yields-exactly-once", g['yields'] == 1)
        ig = hub.fields['_ignore']
        oldm = MapBox(old.ign_arr, old.ign_dom)
        P.check(qn + "/exit:count-restored", ign_view(ig, st.T) == ign_view(oldm, st.T))
        P.check(qn + "/exit:other-types-untouched", ign_view(ig, st.anyT) == ign_view(oldm, st.anyT))
        P.check(qn + "/exit:ignore>=0", S.And(ign_view(ig, st.T) >= 0, ign_view(ig, st.anyT) >= 0))
        P.check(qn + "/exit:paused-untouched", hub.fields['_paused'] == old.paused)


IGNORE = IgnoreCallbacks()


# =================================================================================================
class FindHandlers(FnContract):
    """finite-universe expansion: n subscribers (slots), k_i subscribed classes each; everything about them symbolic."""
    property_ids = ('C07',)
    target = HUB + ":Hub._find_handlers"
    title = ("yields, per subscriber having a matching class, the entry of a most specific matching class if its filter accepts, "
             "each subscriber at most once, by descending priority (stable); reads the subscription table only before the first yield")
    budget_s = 30

    def configs(self, tier):
        out = [dict(subs='')]
        ks = (0, 1, 2, 3)
        out += [dict(subs=str(a)) for a in ks]
        out += [dict(subs="%d%d" % (a, b)) for a in ks for b in ks]
        three = (1, 2) if tier == 'quick' else (0, 1, 2, 3)
        out += [dict(subs="%d%d%d" % (a, b, c)) for a in three for b in three for c in three]
        return out

    def inputs(self, cfg, P):
        ks = [int(ch) for ch in cfg['subs']]
        m = z3.Const('message', Msg)
        subs, table = [], []
        for i, k in enumerate(ks):
            s = z3.Const('sub%d' % i, Sub)
            classes = [z3.Const('cls%d_%d' % (i, j), Type) for j in range(k)]
            entries = [(z3.Const('h%d_%d' % (i, j), Handler), z3.Const('f%d_%d' % (i, j), Filter),
                        z3.Int('prio%d_%d' % (i, j))) for j in range(k)]
            subs.append(s)
            table.append((classes, entries))
        st = St(m=m, subs=subs, table=table, ks=ks)
        containers = []
        for i, (classes, entries) in enumerate(table):
            c = PObj('HubCallbackContainer')

            def keys(I, self_, classes=classes):
                return PList(list(classes))

            def getitem(I, self_, key, classes=classes, entries=entries):
                if not classes:
                    raise PyRaise(ExcVal('KeyError'))
                if not I.path.branch(S.Or(*[key == c_ for c_ in classes])):
                    raise PyRaise(ExcVal('KeyError'))
                r = entries[-1]
                for j in range(len(classes) - 2, -1, -1):
                    r = I.ite(key == classes[j], entries[j], r)
                return r
            c.methods.update({'keys': keys, '__getitem__': getitem})
            containers.append(c)
        d = PObj('WeakKeyDictionary')
        live = {'ok': True}

        def items(I, self_):
            if not live['ok']:
                I.path.check("Hub._find_handlers[%s]/reads-table-only-before-first-yield" % self.cfg_name(cfg), False)
            return PList([(s, c) for s, c in zip(subs, containers)])
        d.methods['items'] = items
        hub = PObj('Hub', fields={'_subscriptions': d})
        st.hub = hub
        st.live = live
        P.ghost.update(Y=[])
        return Inputs([hub, m], st=st)

    def requires(self, cfg, st):
        r = []
        # keys of one dict are distinct; subscribers are distinct keys of the outer dict
        for classes, _ in st.table:
            if len(classes) > 1:
                r.append(('distinct-classes', z3.Distinct(*classes)))
        if len(st.subs) > 1:
            r.append(('distinct-subscribers', z3.Distinct(*st.subs)))
        # A-PY: issubclass is reflexive-transitive on the classes involved and a strict subclass has a strictly longer MRO
        allc = [c for classes, _ in st.table for c in classes]
        tm = typeof(st.m)
        for a in allc:
            for b in allc:
                if a is not b:
                    r.append(('mro-monotone', S.Implies(S.And(issub(a, b), a != b), mro(a) > mro(b))))
                    r.append(('transitive-through-message-type', S.Implies(S.And(issub(tm, a), issub(a, b)), issub(tm, b))))
        return r

    def globals_(self, cfg, st):
        def call_symbolic(I, fv, args, kwargs):
            if fv.sort() == Filter and len(args) == 1:
                return accepts(fv, args[0])
            raise Unsupported("call of symbolic %s" % fv.sort())

        def b_issubclass(I, a, b):
            return issub(a, b)

        def b_mro_count(I, c):
            return mro(c)
        return {'__call_symbolic__': call_symbolic, 'type': Builtin('type', b_type),
                'issubclass': Builtin('issubclass', b_issubclass), '_mro_count': Builtin('_mro_count', b_mro_count)}

    def on_yield(self, cfg, st):
        def hook(I, v, env):
            st.live['ok'] = False
            ok = isinstance(v, tuple) and len(v) == 2
            I.path.check("Hub._find_handlers[%s]/yield:pair" % self.cfg_name(cfg), ok)
            if ok:
                I.path.ghost['Y'] = I.path.ghost['Y'] + [v]
            return None
        return hook

    def spec(self, st):
        """per subscriber: (keep, handler, prio) from the statement; and the code-derived tie rule (first maximal MRO)."""
        tm = typeof(st.m)
        out = []
        for s, (classes, entries) in zip(st.subs, st.table):
            match = [issub(tm, c) for c in classes]
            has = S.Or(*match) if match else False
            # a most specific matching class: matching, and no other matching class is a strict subclass of it
            def most_specific(j, match=match, classes=classes):
                return S.And(match[j], *[S.Not(S.And(match[j2], issub(classes[j2], classes[j]), classes[j2] != classes[j]))
                                        for j2 in range(len(classes)) if j2 != j])
            # code-derived determinism: first (dict order) among the matching classes with maximal MRO count
            def chosen(j, match=match, classes=classes):
                return S.And(match[j],
                             *([S.Implies(match[j2], mro(classes[j2]) <= mro(classes[j])) for j2 in range(len(classes)) if j2 > j] +
                               [S.Implies(match[j2], mro(classes[j2]) < mro(classes[j])) for j2 in range(len(classes)) if j2 < j]))
            out.append(dict(sub=s, has=has, match=match, most_specific=most_specific, chosen=chosen, entries=entries,
                            k=len(classes)))
        return out

    def finish(self, cfg, st, P, outcome):
        qn = "Hub._find_handlers[%s]" % self.cfg_name(cfg)
        if outcome[0] != 'return':
            return
        Y = P.ghost['Y']
        sp = self.spec(st)
        m = st.m
        n = len(sp)
        # delivered(i): subscriber i occurs in Y
        def occ(i):
            return [S.And(y[0] == sp[i]['sub']) for y in Y]
        for i, e in enumerate(sp):
            o = occ(i)
            cnt = sum([S.If(c, 1, 0) for c in o]) if o else 0
            P.check(qn + "/ensures:each-listener-at-most-once", cnt <= 1)
            # exists a chosen class j whose filter accepts
            if e['k']:
                deliver = S.Or(*[S.And(e['chosen'](j), accepts(e['entries'][j][1], m)) for j in range(e['k'])])
                P.check(qn + "/ensures:delivered-iff-selected-subscription-accepts", S.Iff(cnt == 1, deliver))
                # the handler used is that of a most specific matching class
                for y, c in zip(Y, o):
                    P.check(qn + "/ensures:handler-of-a-most-specific-matching-class",
                            S.Implies(c, S.Or(*[S.And(e['most_specific'](j), y[1] == e['entries'][j][0],
                                                      accepts(e['entries'][j][1], m)) for j in range(e['k'])])))
            else:
                P.check(qn + "/ensures:no-subscription=>not-delivered", cnt == 0)
        # nobody else
        for y in Y:
            P.check(qn + "/ensures:only-subscribers", S.Or(*[y[0] == e['sub'] for e in sp]) if sp else False)
        # priority order, stable: for consecutive yields a before b: prio(a) > prio(b) or equal and a's slot earlier
        def prio_of(y):
            r = []
            for i, e in enumerate(sp):
                for j in range(e['k']):
                    r.append((S.And(y[0] == e['sub'], e['chosen'](j)), e['entries'][j][2], i))
            return r
        for a, b in zip(Y, Y[1:]):
            conds = []
            for ca, pa, ia in prio_of(a):
                for cb, pb, ib in prio_of(b):
                    conds.append(S.Implies(S.And(ca, cb), S.Or(pa > pb, S.And(pa == pb, ia < ib))))
            P.check(qn + "/ensures:descending-priority-stable", S.And(*conds) if conds else True)


FIND_HANDLERS = FindHandlers()


# =================================================================================================
# subscribe / unsubscribe / unsubscribe_all / is_subscribed / get_handler on a two-level table
Entry = z3.Datatype('Entry')
Entry.declare('entry', ('handler', Handler), ('filter', Filter), ('prio', z3.IntSort()))
Entry = Entry.create()
Row = z3.ArraySort(Type, Entry)
RowDom = z3.ArraySort(Type, z3.BoolSort())


def make_table_hub(P):
    """_subscriptions as dict Sub -> container(Type -> Entry): arrays tbl, dom1, dom2"""
    d = PObj('WeakKeyDictionary')
    d.fields.update(tbl=z3.Const('tbl0', z3.ArraySort(Sub, Row)), dom1=z3.Const('dom1_0', z3.ArraySort(Sub, z3.BoolSort())),
                    dom2=z3.Const('dom2_0', z3.ArraySort(Sub, RowDom)))

    def view(sub):
        v = PObj('HubCallbackContainer', fields={'key': sub})

        def c_contains(I, self_, t):
            return z3.Select(z3.Select(d.fields['dom2'], sub), t)

        def c_getitem(I, self_, t):
            if not I.path.branch(c_contains(I, self_, t)):
                raise PyRaise(ExcVal('KeyError'))
            e = z3.Select(z3.Select(d.fields['tbl'], sub), t)
            return (Entry.handler(e), Entry.filter(e), Entry.prio(e))

        def c_setitem(I, self_, t, val):
            if not (isinstance(val, tuple) and len(val) == 3):
                raise Unsupported("container value")
            h, f, p = val
            if not is_z3(f):
                f = z3.Const('default_filter', Filter)      # the default `lambda x: True`
            e = Entry.entry(h, f, p if is_z3(p) else z3.IntVal(p))
            d.fields['tbl'] = z3.Store(d.fields['tbl'], sub, z3.Store(z3.Select(d.fields['tbl'], sub), t, e))
            d.fields['dom2'] = z3.Store(d.fields['dom2'], sub, z3.Store(z3.Select(d.fields['dom2'], sub), t, z3.BoolVal(True)))

        def c_pop(I, self_, t):
            if not I.path.branch(c_contains(I, self_, t)):
                raise PyRaise(ExcVal('KeyError'))
            d.fields['dom2'] = z3.Store(d.fields['dom2'], sub, z3.Store(z3.Select(d.fields['dom2'], sub), t, z3.BoolVal(False)))
            return None
        v.methods.update({'__contains__': c_contains, '__getitem__': c_getitem, '__setitem__': c_setitem, 'pop': c_pop})
        return v

    def d_contains(I, self_, sub):
        return z3.Select(d.fields['dom1'], sub)

    def d_getitem(I, self_, sub):
        if not I.path.branch(d_contains(I, self_, sub)):
            raise PyRaise(ExcVal('KeyError'))
        return view(sub)

    def d_setitem(I, self_, sub, val):
        # only `HubCallbackContainer()` (a new empty container) is ever stored
        if not (isinstance(val, PObj) and val.cls == 'HubCallbackContainer' and 'key' not in val.fields):
            raise Unsupported("store into _subscriptions")
        d.fields['dom1'] = z3.Store(d.fields['dom1'], sub, z3.BoolVal(True))
        d.fields['dom2'] = z3.Store(d.fields['dom2'], sub, z3.K(Type, z3.BoolVal(False)))

    def d_pop(I, self_, sub):
        if not I.path.branch(d_contains(I, self_, sub)):
            raise PyRaise(ExcVal('KeyError'))
        d.fields['dom1'] = z3.Store(d.fields['dom1'], sub, z3.BoolVal(False))
        return None
    d.methods.update({'__contains__': d_contains, '__getitem__': d_getitem, '__setitem__': d_setitem, 'pop': d_pop})
    hub = make_hub(P, subs=d)
    return hub, d


def sub_view(d, s, t):
    """abstract view: is (s, t) subscribed, and with which entry"""
    present = S.And(z3.Select(d['dom1'], s), z3.Select(z3.Select(d['dom2'], s), t))
    return present, z3.Select(z3.Select(d['tbl'], s), t)


class SubsContract(FnContract):
    """common parts: arbitrary other pair (s2, t2) is used to state 'nothing else changed' (frame)."""

    def base_inputs(self, P):
        hub, d = make_table_hub(P)
        st = St(hub=hub, d=d, old=dict(d.fields), s=z3.Const('subscriber', Sub), t=z3.Const('message_class', Type),
                s2=z3.Const('other_subscriber', Sub), t2=z3.Const('other_class', Type), oldhub=snapshot(hub))
        return st

    def globals_(self, cfg, st):
        def new_container(I):
            return PObj('HubCallbackContainer')

        def b_isinstance(I, v, t):
            if is_z3(v) and v.sort() == Sub and t == PType('HubListener'):
                return st.is_listener
            if is_z3(v) and v.sort() == Type and t == PType('type'):
                return st.is_type
            raise Unsupported("isinstance")

        def b_issubclass(I, a, b):
            if b == PType('Message'):
                return st.is_message_class
            raise Unsupported("issubclass")
        return {'HubCallbackContainer': Builtin('HubCallbackContainer', new_container),
                'isinstance': Builtin('isinstance', b_isinstance), 'issubclass': Builtin('issubclass', b_issubclass),
                'HubListener': PType('HubListener'), 'Message': PType('Message'), 'type': PType('type'),
                'InvalidSubscriber': PType('InvalidSubscriber'), 'InvalidMessage': PType('InvalidMessage')}

    def frame(self, qn, st, P, touched_pair=True, whole_subscriber=False):
        """every other (subscriber, class) pair keeps its presence and its entry; the rest of the hub is untouched"""
        new = st.d.fields
        p0, e0 = sub_view(st.old, st.s2, st.t2)
        p1, e1 = sub_view(new, st.s2, st.t2)
        if whole_subscriber:
            other = st.s2 != st.s
        else:
            other = S.Or(st.s2 != st.s, st.t2 != st.t)
        P.check(qn + "/frame:other-subscriptions-unchanged", S.Implies(other, S.And(p0 == p1, S.Implies(p0, e0 == e1))))
        hub = st.hub
        P.check(qn + "/frame:rest-of-hub-untouched",
                S.And(hub.fields['_paused'] == st.oldhub.paused, hub.fields['_queue'].expr == st.oldhub.queue,
                      hub.fields['_ignore'].arr == st.oldhub.ign_arr, hub.fields['_ignore'].dom == st.oldhub.ign_dom))


class Subscribe(SubsContract):
    property_ids = ('C07',)
    target = HUB + ":Hub.subscribe"
    title = "afterwards (subscriber, class) maps to exactly (handler or notify, filter, priority); nothing else changes; argument errors raise"

    def configs(self, tier):
        return [dict(handler='given'), dict(handler='None'), dict(handler='default-args')]

    def inputs(self, cfg, P):
        st = self.base_inputs(P)
        st.is_listener = z3.Bool('is_listener')
        st.is_type = z3.Bool('is_type')
        st.is_message_class = z3.Bool('is_message_class')
        st.h = z3.Const('handler', Handler)
        st.f = z3.Const('filter', Filter)
        st.p = z3.Int('priority')
        # subscriber.notify
        st.s_obj = st.s
        kwargs = {}
        if cfg['handler'] == 'given':
            kwargs = dict(handler=st.h, filter=st.f, priority=st.p)
        elif cfg['handler'] == 'None':
            kwargs = dict(handler=None, filter=st.f, priority=st.p)
        return Inputs([st.hub, st.s, st.t], kwargs, st=st)

    def globals_(self, cfg, st):
        g = SubsContract.globals_(self, cfg, st)

        def getattr_symbolic(I, obj, attr):
            if obj.sort() == Sub and attr == 'notify':
                return notify_of(obj)
            raise Unsupported("attribute %s of symbolic %s" % (attr, obj.sort()))
        g['__getattr_symbolic__'] = getattr_symbolic
        return g

    raises = {'InvalidSubscriber': lambda cfg, st: S.Not(st.is_listener),
              'InvalidMessage': lambda cfg, st: S.And(st.is_listener, S.Not(S.And(st.is_type, st.is_message_class)))}

    def finish(self, cfg, st, P, outcome):
        qn = "Hub.subscribe[%s]" % self.cfg_name(cfg)
        if outcome[0] != 'return':
            # a rejected call changes nothing
            P.check(qn + "/raises:nothing-changed", S.And(*[st.d.fields[k] == st.old[k] for k in ('tbl', 'dom1', 'dom2')]))
            return
        P.check(qn + "/ensures:arguments-were-valid", S.And(st.is_listener, st.is_type, st.is_message_class))
        present, e = sub_view(st.d.fields, st.s, st.t)
        P.check(qn + "/ensures:subscribed", present)
        if cfg['handler'] == 'given':
            P.check(qn + "/ensures:entry", S.And(Entry.handler(e) == st.h, Entry.filter(e) == st.f, Entry.prio(e) == st.p))
        elif cfg['handler'] == 'None':
            P.check(qn + "/ensures:entry", S.And(Entry.handler(e) == notify_of(st.s), Entry.filter(e) == st.f, Entry.prio(e) == st.p))
        else:
            P.check(qn + "/ensures:entry-defaults", S.And(Entry.handler(e) == notify_of(st.s), Entry.prio(e) == 10))
        self.frame(qn, st, P)


class Unsubscribe(SubsContract):
    property_ids = ('C07',)
    target = HUB + ":Hub.unsubscribe"
    title = "afterwards (subscriber, class) is not subscribed; nothing else changes; never raises"

    def inputs(self, cfg, P):
        st = self.base_inputs(P)
        return Inputs([st.hub, st.s, st.t], st=st)

    def finish(self, cfg, st, P, outcome):
        qn = "Hub.unsubscribe[-]"
        if outcome[0] != 'return':
            return
        present, e = sub_view(st.d.fields, st.s, st.t)
        P.check(qn + "/ensures:not-subscribed", S.Not(present))
        self.frame(qn, st, P)


class UnsubscribeAll(SubsContract):
    property_ids = ('C07',)
    target = HUB + ":Hub.unsubscribe_all"
    title = "afterwards the subscriber has no subscription; other subscribers untouched"

    def inputs(self, cfg, P):
        st = self.base_inputs(P)
        return Inputs([st.hub, st.s], st=st)

    def finish(self, cfg, st, P, outcome):
        qn = "Hub.unsubscribe_all[-]"
        if outcome[0] != 'return':
            return
        present, e = sub_view(st.d.fields, st.s, st.t)
        P.check(qn + "/ensures:no-subscription-left", S.Not(present))
        self.frame(qn, st, P, whole_subscriber=True)


class IsSubscribed(SubsContract):
    property_ids = ('C07',)
    target = HUB + ":Hub.is_subscribed"
    title = "returns whether (subscriber, class) is subscribed; changes nothing"

    def inputs(self, cfg, P):
        st = self.base_inputs(P)
        return Inputs([st.hub, st.s, st.t], st=st)

    def finish(self, cfg, st, P, outcome):
        qn = "Hub.is_subscribed[-]"
        if outcome[0] != 'return':
            return
        present, e = sub_view(st.old, st.s, st.t)
        r = outcome[1]
        P.check(qn + "/ensures:result", S.Iff(S.tobool(r) if isinstance(r, bool) or is_z3(r) else False, present))
        P.check(qn + "/ensures:pure", S.And(*[st.d.fields[k] == st.old[k] for k in ('tbl', 'dom1', 'dom2')]))


class GetHandler(SubsContract):
    property_ids = ('C07',)
    target = HUB + ":Hub.get_handler"
    title = "returns the subscribed handler, or None when not subscribed / subscriber is None; changes nothing"

    def configs(self, tier):
        return [dict(subscriber='given'), dict(subscriber='None')]

    def inputs(self, cfg, P):
        st = self.base_inputs(P)
        return Inputs([st.hub, st.s if cfg['subscriber'] == 'given' else None, st.t], st=st)

    def finish(self, cfg, st, P, outcome):
        qn = "Hub.get_handler[%s]" % self.cfg_name(cfg)
        if outcome[0] != 'return':
            return
        r = outcome[1]
        if cfg['subscriber'] == 'None':
            P.check(qn + "/ensures:none", r is None)
            return
        present, e = sub_view(st.old, st.s, st.t)
        if r is None:
            P.check(qn + "/ensures:none-iff-not-subscribed", S.Not(present))
        else:
            P.check(qn + "/ensures:handler", S.And(present, r == Entry.handler(e)) if is_z3(r) else False)
        P.check(qn + "/ensures:pure", S.And(*[st.d.fields[k] == st.old[k] for k in ('tbl', 'dom1', 'dom2')]))


CONTRACTS = [BROADCAST, DELAY, IGNORE, FIND_HANDLERS, Subscribe(), Unsubscribe(), UnsubscribeAll(), IsSubscribed(), GetHandler()]
