"""C03 - sidecar contracts for the link bookkeeping of LinkManager / DataCollection (glue/core/link_manager.py,
glue/core/data_collection.py).  Finite-universe expansion: `_external_links` holds k <= 3 link slots; whether a link mentions the
removed attribute / an attribute of the removed dataset is a SYMBOLIC relation, so one VC set covers every such relation.

The closure algorithm discover_links is NOT under a deductive contract (it needs abstract sets with quantified invariants);
it is decided by the bounded stand-in (exhaustive over all small link graphs against a least-fixed-point oracle).
"""
import z3

from pyvc.verify import FnContract, Inputs, St
from pyvc.values import PObj, PList, Builtin, PyRaise, ExcVal, PType, Unsupported
from pyvc import spec as S

LM = "glue/core/link_manager.py"
DCF = "glue/core/data_collection.py"


def make_lm(k, updates):
    links = []
    for i in range(k):
        l = PObj('ComponentLink', fields={'i': i, 'inverse': None})
        links.append(l)
    lm = PObj('LinkManager', fields={'_external_links': PList(list(links))})

    def update(I, self_, data=None):
        updates.append(list(self_.fields['_external_links'].items))
    lm.methods['update_externally_derivable_components'] = update
    return lm, links


class ComponentRemoved(FnContract):
    property_ids = ('C03',)
    target = LM + ":LinkManager._component_removed"
    title = "afterwards no registered link mentions the removed attribute; all other links are kept, in order; derivable attributes are refreshed if any link went"

    def configs(self, tier):
        return [dict(k=k) for k in (0, 1, 2, 3)]

    def inputs(self, cfg, P):
        updates = []
        lm, links = make_lm(cfg['k'], updates)
        mentions = [z3.Bool('link%d_mentions_removed' % i) for i in range(cfg['k'])]
        cid = PObj('ComponentID')
        for l, m in zip(links, mentions):
            l.methods['__contains__'] = (lambda I, self_, c, m=m: m if c is cid else False)
        from pyvc.extract import FunctionText
        from pyvc.interp import Interp, Hooks
        ft = FunctionText(LM, 'LinkManager.remove_link')

        def remove_link(I, self_, link, update_external=True):
            sub = Interp(I.path, I.globals, Hooks(name=I.hooks.name), ft)
            return sub.run_function(ft, [self_, link], {'update_external': update_external})
        lm.methods['remove_link'] = remove_link
        msg = PObj('DataRemoveComponentMessage', fields={'component_id': cid})
        return Inputs([lm, msg], st=St(lm=lm, links=links, mentions=mentions, updates=updates))

    def globals_(self, cfg, st):
        return {'JoinLink': PType('JoinLink'), 'LinkCollection': PType('LinkCollection'), 'isinstance': Builtin('isinstance', _isinstance)}

    def finish(self, cfg, st, P, outcome):
        qn = "LinkManager._component_removed[%s]" % self.cfg_name(cfg)
        P.check(qn + "/does-not-raise", outcome[0] == 'return')
        left = st.lm.fields['_external_links'].items
        # on this path every `mentions` flag has a definite truth value
        for l, m in zip(st.links, st.mentions):
            present = any(x is l for x in left)
            P.check(qn + "/ensures:link-kept-iff-it-does-not-mention-the-attribute", S.Iff(present, S.Not(m)))
        order = [x.fields['i'] for x in left]
        P.check(qn + "/ensures:order-of-kept-links-preserved", order == sorted(order) and len(set(order)) == len(order))
        P.check(qn + "/ensures:derivable-attributes-refreshed-after-the-last-removal",
                S.Implies(S.Or(*st.mentions) if st.mentions else False, len(st.updates) >= 1 and st.updates[-1] == left) if st.mentions else True)


def _isinstance(I, v, t):
    ts = t if isinstance(t, tuple) else (t,)
    for x in ts:
        nm = getattr(x, 'name', None)
        if nm == 'list' and isinstance(v, PList):
            return True
        if isinstance(v, PObj) and (v.cls == nm or nm in v.fields.get('__bases__', ())):
            return True
    return False


class DataRemoved(FnContract):
    property_ids = ('C03',)
    target = LM + ":LinkManager._data_removed"
    title = "afterwards no registered link mentions an attribute owned by the removed dataset; all other links kept in order"

    def configs(self, tier):
        return [dict(k=k, ncomp=n) for k in (0, 1, 2, 3) for n in (1, 2)]

    def inputs(self, cfg, P):
        updates = []
        lm, links = make_lm(cfg['k'], updates)
        data = PObj('Data')
        other = PObj('Data')
        comps = []
        for j in range(cfg['ncomp']):
            owned = z3.Bool('comp%d_owned_by_removed' % j)
            c = PObj('ComponentID', fields={'j': j})
            c.methods['parent'] = ('__property__', lambda I, self_, owned=owned: _branch_obj(I, owned, data, other))
            comps.append((c, owned))
        data.fields['components'] = PList([c for c, _ in comps])
        rel = [[z3.Bool('link%d_mentions_comp%d' % (i, j)) for j in range(cfg['ncomp'])] for i in range(cfg['k'])]
        for i, l in enumerate(links):
            l.methods['__contains__'] = (lambda I, self_, c, i=i: rel[i][c.fields['j']])
        from pyvc.extract import FunctionText
        from pyvc.interp import Interp, Hooks
        ft = FunctionText(LM, 'LinkManager.remove_link')

        def remove_link(I, self_, link, update_external=True):
            sub = Interp(I.path, I.globals, Hooks(name=I.hooks.name), ft)
            return sub.run_function(ft, [self_, link], {'update_external': update_external})
        lm.methods['remove_link'] = remove_link
        msg = PObj('DataCollectionDeleteMessage', fields={'data': data})
        return Inputs([lm, msg], st=St(lm=lm, links=links, rel=rel, comps=comps, updates=updates))

    def globals_(self, cfg, st):
        return {'JoinLink': PType('JoinLink'), 'LinkCollection': PType('LinkCollection'), 'isinstance': Builtin('isinstance', _isinstance)}

    def finish(self, cfg, st, P, outcome):
        qn = "LinkManager._data_removed[%s]" % self.cfg_name(cfg)
        P.check(qn + "/does-not-raise", outcome[0] == 'return')
        left = st.lm.fields['_external_links'].items
        for i, l in enumerate(st.links):
            touches = S.Or(*[S.And(st.rel[i][j], owned) for j, (c, owned) in enumerate(st.comps)])
            present = any(x is l for x in left)
            P.check(qn + "/ensures:link-kept-iff-it-touches-no-attribute-of-the-removed-dataset", S.Iff(present, S.Not(touches)))
        order = [x.fields['i'] for x in left]
        P.check(qn + "/ensures:order-of-kept-links-preserved", order == sorted(order) and len(set(order)) == len(order))


def _branch_obj(I, cond, a, b):
    return a if I.path.branch(cond) else b


class ClearLinks(FnContract):
    property_ids = ('C03',)
    target = LM + ":LinkManager.clear_links"
    title = "no link remains registered (the same list object is emptied)"

    def configs(self, tier):
        return [dict(k=k) for k in (0, 2)]

    def inputs(self, cfg, P):
        lm, links = make_lm(cfg['k'], [])
        return Inputs([lm], st=St(lm=lm, lst=lm.fields['_external_links']))

    def globals_(self, cfg, st):
        return {}

    def finish(self, cfg, st, P, outcome):
        qn = "LinkManager.clear_links[%s]" % self.cfg_name(cfg)
        cur = st.lm.fields['_external_links']
        items = cur.items if isinstance(cur, PList) else None
        P.check(qn + "/ensures:empty", outcome[0] == 'return' and items is not None and len(items) == 0)


class AddLink(FnContract):
    property_ids = ('C03',)
    target = LM + ":LinkManager.add_link"
    title = "a link (or each link of a list, in order) is registered at the end unless its inverse already is; derivable attributes are refreshed once, afterwards, when asked"

    def configs(self, tier):
        return [dict(k=k, arg=a, update=u) for k in (0, 2) for a in ('single', 'list2') for u in (True, False)]

    def inputs(self, cfg, P):
        updates = []
        lm, links = make_lm(cfg['k'], updates)
        new = [PObj('ComponentLink', fields={'i': 10 + j, 'inverse': None}) for j in range(2)]
        inv_registered = [z3.Bool('inverse_of_new%d_already_registered' % j) for j in range(2)]
        for nl, flag in zip(new, inv_registered):
            nl.fields['inverse'] = links[0] if links else PObj('ComponentLink', fields={'i': 99})
        st = St(lm=lm, links=links, new=new, updates=updates, before=list(links), inv=inv_registered)
        from pyvc.extract import FunctionText
        from pyvc.interp import Interp, Hooks
        ft = FunctionText(LM, 'LinkManager.add_link')

        def add_link(I, self_, link, update_external=True):
            sub = Interp(I.path, I.globals, Hooks(name=I.hooks.name), ft)
            return sub.run_function(ft, [self_, link], {'update_external': update_external})
        lm.methods['add_link'] = add_link
        arg = new[0] if cfg['arg'] == 'single' else PList(new)
        return Inputs([lm, arg], {'update_external': cfg['update']}, st=st)

    def globals_(self, cfg, st):
        return {'JoinLink': PType('JoinLink'), 'LinkCollection': PType('LinkCollection'), 'isinstance': Builtin('isinstance', _isinstance)}

    def finish(self, cfg, st, P, outcome):
        qn = "LinkManager.add_link[%s]" % self.cfg_name(cfg)
        P.check(qn + "/does-not-raise", outcome[0] == 'return')
        cur = st.lm.fields['_external_links'].items
        n_new = 1 if cfg['arg'] == 'single' else 2
        inverse_present = cfg['k'] > 0        # the new links' inverse is links[0] when k > 0
        exp = list(st.before) + ([] if inverse_present else st.new[:n_new])
        P.check(qn + "/ensures:registered-at-the-end-in-order-unless-the-inverse-is", len(cur) == len(exp) and all(x is y for x, y in zip(cur, exp)))
        changed = not inverse_present
        if cfg['update']:
            P.check(qn + "/ensures:refreshed-after-the-last-registration",
                    (not changed and cfg['arg'] == 'single') or (len(st.updates) >= 1 and st.updates[-1] == cur))
            P.check(qn + "/ensures:refreshed-at-most-once", len(st.updates) <= 1)
        else:
            P.check(qn + "/ensures:no-refresh-when-not-asked", len(st.updates) == 0)


class RemoveLink(FnContract):
    property_ids = ('C03',)
    target = LM + ":LinkManager.remove_link"
    title = "the link (or each link of a list) is unregistered, the others keep their order; derivable attributes are refreshed once, afterwards, when asked"

    def configs(self, tier):
        return [dict(k=3, arg=a, update=u) for a in ('single', 'list2') for u in (True, False)]

    def inputs(self, cfg, P):
        updates = []
        lm, links = make_lm(cfg['k'], updates)
        st = St(lm=lm, links=links, updates=updates)
        from pyvc.extract import FunctionText
        from pyvc.interp import Interp, Hooks
        ft = FunctionText(LM, 'LinkManager.remove_link')

        def remove_link(I, self_, link, update_external=True):
            sub = Interp(I.path, I.globals, Hooks(name=I.hooks.name), ft)
            return sub.run_function(ft, [self_, link], {'update_external': update_external})
        lm.methods['remove_link'] = remove_link
        arg = links[1] if cfg['arg'] == 'single' else PList([links[2], links[0]])
        return Inputs([lm, arg], {'update_external': cfg['update']}, st=st)

    def globals_(self, cfg, st):
        return {'JoinLink': PType('JoinLink'), 'LinkCollection': PType('LinkCollection'), 'isinstance': Builtin('isinstance', _isinstance)}

    def finish(self, cfg, st, P, outcome):
        qn = "LinkManager.remove_link[%s]" % self.cfg_name(cfg)
        P.check(qn + "/does-not-raise", outcome[0] == 'return')
        cur = st.lm.fields['_external_links'].items
        exp = [st.links[0], st.links[2]] if cfg['arg'] == 'single' else [st.links[1]]
        P.check(qn + "/ensures:exactly-the-named-links-unregistered", len(cur) == len(exp) and all(x is y for x, y in zip(cur, exp)))
        if cfg['update']:
            P.check(qn + "/ensures:refreshed-once-after-the-last-removal", len(st.updates) == 1 and st.updates[-1] == cur)
        else:
            P.check(qn + "/ensures:no-refresh-when-not-asked", len(st.updates) == 0)


class AccessibleLinks(FnContract):
    property_ids = ('C03',)
    target = LM + ":accessible_links"
    title = "exactly the links all of whose inputs are known, in the given order (membership of every input symbolic)"

    def configs(self, tier):
        return [dict(shape=s) for s in ('1', '2', '12', '021')]

    def inputs(self, cfg, P):
        known = {}
        links = []
        for i, ch in enumerate(cfg['shape']):
            n = int(ch)
            ids = [PObj('ComponentID', fields={'name': 'l%d_in%d' % (i, j)}) for j in range(n)]
            for c in ids:
                known[id(c)] = (c, z3.Bool('known_%s' % c.fields['name']))
            l = PObj('ComponentLink', fields={'i': i})
            l.methods['get_from_ids'] = (lambda I, self_, ids=ids: PList(list(ids)))
            links.append((l, ids))
        cids = PObj('cid-collection')
        return Inputs([cids, PList([l for l, _ in links])], st=St(known=known, links=links, cids=cids))

    def globals_(self, cfg, st):
        class SymSet(PObj):
            pass

        def b_set(I, x):
            if x is st.cids:
                s = SymSet('set', fields={'kind': 'known'})
                return s
            items = I.iterate_concrete(x)
            s = SymSet('set', fields={'kind': 'explicit', 'items': items})
            s.methods['__le__'] = None
            return s
        return {'set': Builtin('set', b_set), '__symset__': True}

    def ensures(self, cfg, st, result):
        items = result.items if isinstance(result, PList) else None
        if items is None:
            return [('returns-a-list', False)]
        out = []
        for l, ids in st.links:
            present = any(x is l for x in items)
            allknown = S.And(*[st.known[id(c)][1] for c in ids]) if ids else True
            out.append(('listed-iff-all-inputs-known', S.Iff(present, allknown)))
        order = [x.fields['i'] for x in items]
        out.append(('order-preserved', order == sorted(order)))
        return out


# subset test `set(from_ids) <= cids` for the symbolic known-set: installed as a comparison hook
from pyvc.interp import Interp as _Interp
_orig_compare = _Interp.compare


def _compare(self, op, a, b):
    import ast as _ast
    if isinstance(op, _ast.LtE) and isinstance(a, PObj) and a.cls == 'set' and isinstance(b, PObj) and b.cls == 'set' \
            and b.fields.get('kind') == 'known' and a.fields.get('kind') == 'explicit':
        known = self.globals.get('__known__')
        return S.And(*[known[id(c)][1] for c in a.fields['items']]) if a.fields['items'] else True
    return _orig_compare(self, op, a, b)


_Interp.compare = _compare


class AccessibleLinksImpl(AccessibleLinks):
    def globals_(self, cfg, st):
        g = AccessibleLinks.globals_(self, cfg, st)
        g['__known__'] = st.known
        return g


class DelayLinkManagerUpdate(FnContract):
    property_ids = ('C03',)
    target = DCF + ":DataCollection.delay_link_manager_update"
    title = "while the block is open updates are suppressed (counter +1); on normal exit the counter is back and one sync runs"

    def inputs(self, cfg, P):
        c0 = z3.Int('disable_count0')
        syncs = []
        dc = PObj('DataCollection', fields={'_disable_sync_link_manager': c0})
        dc.methods['_sync_link_manager'] = lambda I, self_: syncs.append(self_.fields['_disable_sync_link_manager'])
        P.ghost.update(yields=0)
        return Inputs([dc], st=St(dc=dc, c0=c0, syncs=syncs))

    def requires(self, cfg, st):
        return [('counter>=0', st.c0 >= 0)]

    def on_yield(self, cfg, st):
        def hook(I, v, env):
            I.path.ghost['yields'] += 1
            I.path.check("DataCollection.delay_link_manager_update[-]/enter:updates-suppressed",
                         st.dc.fields['_disable_sync_link_manager'] == st.c0 + 1)
            I.path.check("DataCollection.delay_link_manager_update[-]/enter:no-sync-yet", len(st.syncs) == 0)
            return None
        return hook

    def finish(self, cfg, st, P, outcome):
        qn = "DataCollection.delay_link_manager_update[-]"
        P.check(qn + "/exit:counter-restored", st.dc.fields['_disable_sync_link_manager'] == st.c0)
        P.check(qn + "/exit:one-sync-with-the-counter-restored", len(st.syncs) == 1 and P.ghost['yields'] == 1)
        if st.syncs:
            P.check(qn + "/exit:sync-sees-the-restored-counter", st.syncs[0] == st.c0)


class SyncLinkManager(FnContract):
    property_ids = ('C03',)
    target = DCF + ":DataCollection._sync_link_manager"
    title = "refreshes every dataset's derivable attributes exactly when no delay block is open; never re-enters itself"

    def inputs(self, cfg, P):
        c0 = z3.Int('disable_count0')
        calls = []
        lm = PObj('LinkManager')
        dc = PObj('DataCollection', fields={'_disable_sync_link_manager': c0, '_link_manager': lm})
        lm.methods['update_externally_derivable_components'] = lambda I, self_: calls.append(dc.fields['_disable_sync_link_manager'])

        def ignore(I, self_):
            def enter():
                self_.fields['_disable_sync_link_manager'] = self_.fields['_disable_sync_link_manager'] + 1

            def exit_(exc):
                self_.fields['_disable_sync_link_manager'] = self_.fields['_disable_sync_link_manager'] - 1
            return ('__cm__', enter, exit_)
        dc.methods['_ignore_link_manager_update'] = ignore
        return Inputs([dc], st=St(dc=dc, c0=c0, calls=calls))

    def requires(self, cfg, st):
        return [('counter>=0', st.c0 >= 0)]

    def finish(self, cfg, st, P, outcome):
        qn = "DataCollection._sync_link_manager[-]"
        P.check(qn + "/does-not-raise", outcome[0] == 'return')
        if st.calls:
            P.check(qn + "/ensures:refresh-only-when-no-block-is-open", st.c0 == 0)
            P.check(qn + "/ensures:nested-syncs-suppressed-during-the-refresh", st.calls[0] == st.c0 + 1)
        else:
            P.check(qn + "/ensures:no-refresh-only-when-a-block-is-open", st.c0 > 0)
        P.check(qn + "/ensures:refresh-at-most-once", len(st.calls) <= 1)
        P.check(qn + "/ensures:counter-restored", st.dc.fields['_disable_sync_link_manager'] == st.c0)


class DCLinkOps(FnContract):
    """DataCollection.add_link / remove_link / set_links delegate to the link manager, refreshing unless a delay block is open"""
    property_ids = ('C03',)
    fn = 'add_link'

    def inputs(self, cfg, P):
        c0 = z3.Int('disable_count0')
        calls = []
        lm = PObj('LinkManager')
        for nm in ('add_link', 'remove_link'):
            lm.methods[nm] = (lambda I, self_, links, update_external=True, nm=nm: calls.append((nm, links, update_external)))
        lm.methods['clear_links'] = lambda I, self_: calls.append(('clear_links',))
        dc = PObj('DataCollection', fields={'_disable_sync_link_manager': c0, '_link_manager': lm})
        links = PObj('links-argument')
        return Inputs([dc, links], st=St(c0=c0, calls=calls, links=links))

    def requires(self, cfg, st):
        return [('counter>=0', st.c0 >= 0)]

    def finish(self, cfg, st, P, outcome):
        qn = "DataCollection.%s[-]" % self.fn
        P.check(qn + "/does-not-raise", outcome[0] == 'return')
        c = st.calls
        if self.fn == 'set_links':
            ok = len(c) == 2 and c[0] == ('clear_links',) and c[1][0] == 'add_link' and c[1][1] is st.links
            P.check(qn + "/ensures:clears-then-registers-the-given-links", ok)
            last = c[1] if ok else None
        else:
            ok = len(c) == 1 and c[0][0] == self.fn and c[0][1] is st.links
            P.check(qn + "/ensures:delegates-once-with-the-given-links", ok)
            last = c[0] if ok else None
        if last is not None:
            P.check(qn + "/ensures:refresh-requested-iff-no-delay-block-is-open", S.Iff(last[2], st.c0 == 0))


def _dcop(fn):
    return type('DC_' + fn, (DCLinkOps,), dict(target=DCF + ":DataCollection." + fn, fn=fn,
                                               title="DataCollection.%s delegates to the link manager; refresh iff no delay block is open" % fn))()


CONTRACTS = [ComponentRemoved(), DataRemoved(), ClearLinks(), AddLink(), RemoveLink(), AccessibleLinksImpl(),
             DelayLinkManagerUpdate(), SyncLinkManager(), _dcop('add_link'), _dcop('remove_link'), _dcop('set_links')]
