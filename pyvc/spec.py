"""Spec functions shared by the contracts (DESIGN.md appendix A).  Each works on Python ints and
on z3 expressions alike (mixed), so the same text is used inside VCs and in the CPython differential
self-test (pyvc/selftest.py)."""
import z3

from .values import is_z3, OptInt, PSlice


def _sym(*vs):
    return any(is_z3(v) for v in vs)


def And(*cs):
    cs = [c for c in _flat(cs)]
    if not any(is_z3(c) for c in cs):
        return all(cs)
    cs = [c for c in cs if c is not True]
    if any(c is False for c in cs):
        return False
    return z3.And(*cs) if len(cs) != 1 else cs[0]


def Or(*cs):
    cs = [c for c in _flat(cs)]
    if not any(is_z3(c) for c in cs):
        return any(cs)
    cs = [c for c in cs if c is not False]
    if any(c is True for c in cs):
        return True
    return z3.Or(*cs) if len(cs) != 1 else cs[0]


def _flat(cs):
    for c in cs:
        if isinstance(c, (list, tuple)):
            for d in _flat(c):
                yield d
        else:
            yield c


def Not(c):
    return z3.Not(c) if is_z3(c) else (not c)


def Implies(a, b):
    return Or(Not(a), b)


def Iff(a, b):
    if not _sym(a, b):
        return bool(a) == bool(b)
    return tobool(a) == tobool(b)


def tobool(b):
    return b if is_z3(b) else z3.BoolVal(bool(b))


def If(c, a, b):
    if not is_z3(c):
        return a if c else b
    if not is_z3(a) and not is_z3(b):
        if isinstance(a, bool) and isinstance(b, bool):
            a, b = z3.BoolVal(a), z3.BoolVal(b)
        elif isinstance(a, int) and isinstance(b, int):
            a, b = z3.IntVal(a), z3.IntVal(b)
        else:
            a, b = z3.RealVal(a), z3.RealVal(b)
    return z3.If(c, a, b)


def Min(a, b):
    if not _sym(a, b):
        return min(a, b)
    return If(b < a, b, a)        # Python: min(a, b) returns a unless b < a


def Max(a, b):
    if not _sym(a, b):
        return max(a, b)
    return If(b > a, b, a)


def floordiv(a, b):
    """Python `a // b` on ints (b != 0 is the caller's obligation)."""
    if not _sym(a, b):
        return a // b
    if not is_z3(b):
        if b > 0:
            return a / z3.IntVal(b) if is_z3(a) else z3.IntVal(a) / b
        return (-a) / z3.IntVal(-b)
    a_ = a if is_z3(a) else z3.IntVal(a)
    return z3.If(b > 0, a_ / b, (-a_) / (-b))


def mod(a, b):
    """Python `a % b` on ints (result has the sign of b)."""
    if not _sym(a, b):
        return a % b
    if not is_z3(b):
        if b > 0:
            return (a if is_z3(a) else z3.IntVal(a)) % z3.IntVal(b)
        return -((-a) % z3.IntVal(-b))
    a_ = a if is_z3(a) else z3.IntVal(a)
    return z3.If(b > 0, a_ % b, -((-a_) % (-b)))


def prod(xs):
    r = 1
    for x in xs:
        r = r * x
    return r


# ---------------------------------------------------------------------------------------------
# slices (CPython PySlice_Unpack + PySlice_AdjustIndices)

def _opt(v, dflt):
    """value of an optional int with default"""
    if v is None:
        return dflt
    if isinstance(v, OptInt):
        return If(v.is_none, dflt, v.val)
    return v


def _opt_is_none(v):
    if v is None:
        return True
    if isinstance(v, OptInt):
        return v.is_none
    return False


def slice_indices(sl, n):
    """(beg, end, step) = sl.indices(n); step == 0 is the caller's obligation (ValueError)."""
    step = _opt(sl.step, 1)
    pos = step > 0
    lo = If(pos, 0, -1)
    hi = If(pos, n, n - 1)

    def norm(v, dflt):
        if v is None:
            return dflt
        if isinstance(v, OptInt):
            return If(v.is_none, dflt, norm(v.val, dflt))
        return If(v < 0, Max(v + n, lo), Min(v, hi))

    beg = norm(sl.start, If(pos, lo, hi))
    end = norm(sl.stop, If(pos, hi, lo))
    return beg, end, step


def range_len(beg, end, step):
    """len(range(beg, end, step)) for step > 0"""
    return If(end <= beg, 0, floordiv(end - beg + step - 1, step))


def in_range(x, beg, end, step):
    """x in range(beg, end, step) for step > 0"""
    return And(beg <= x, x < end, mod(x - beg, step) == 0)


def view_len(sl, n):
    return range_len(*slice_indices(sl, n))


def lex_le(a, b):
    """Python list/tuple comparison a <= b for equal-length int lists."""
    assert len(a) == len(b)
    r = True
    for x, y in reversed(list(zip(a, b))):
        r = Or(x < y, And(x == y, r))
    return r


def lex_lt(a, b):
    assert len(a) == len(b)
    r = False
    for x, y in reversed(list(zip(a, b))):
        r = Or(x < y, And(x == y, r))
    return r


def gcd(a, b):
    while b:
        a, b = b, a % b
    return a


def lcm(a, b):
    return a * b // gcd(a, b)
