"""Forward symbolic executor over Python `ast` nodes (the real function text from /repo).

Path exploration is by re-execution: a path is identified by its list of decisions at symbolic
branches; `Engine.explore` re-runs the function with every feasible decision prefix.  At each
assertion point (postcondition, loop invariant, callee precondition, yield condition) a verification
condition `path-condition => goal` is recorded; VCs are discharged by `pyvc.solver`.
"""
import ast
import z3

from .values import (Unsupported, PathEnd, PyRaise, ExcVal, PType, PList, PSlice, OptInt, PObj, SeqBox, MapBox,
                     RangeVal, ModRef, Builtin, BoundMethod, PFunc, PLambda, is_z3, is_int, is_num, is_boolv,
                     exc_isinstance)
from . import spec as S
from .extract import is_droppable

MAX_UNROLL = 64


class _Return(Exception):
    def __init__(self, value):
        self.value = value


class _Break(Exception):
    pass


class _Continue(Exception):
    pass


class VC:
    __slots__ = ('name', 'pc', 'goal', 'note', 'path_id')

    def __init__(self, name, pc, goal, note='', path_id=None):
        self.name, self.pc, self.goal, self.note, self.path_id = name, pc, goal, note, path_id


class Path:
    """State of one execution path: path condition, decisions, recorded VCs, ghost state."""

    def __init__(self, prefix, engine):
        self.prefix = list(prefix)
        self.decisions = []
        self.pc = []
        self.vcs = []
        self.engine = engine
        self.counter = {}
        self.ghost = {}
        self.solver = z3.Solver()
        self.solver.set('timeout', engine.feas_timeout_ms)
        self.covers = set()

    def fresh(self, name, sort):
        n = self.counter.get(name, 0)
        self.counter[name] = n + 1
        return z3.Const("%s!%d" % (name, n), sort)

    def fresh_int(self, name):
        return self.fresh(name, z3.IntSort())

    def assume(self, cond):
        if cond is True:
            return
        if cond is False:
            raise PathEnd("assumed false")
        cond = z3.simplify(cond)
        if z3.is_true(cond):
            return
        if z3.is_false(cond):
            raise PathEnd("assumed false")
        self.pc.append(cond)
        self.solver.add(cond)

    def check(self, name, goal, note=''):
        """record a VC:  pc => goal"""
        if goal is True:
            goal = z3.BoolVal(True)
        elif goal is False:
            goal = z3.BoolVal(False)
        self.vcs.append(VC(name, list(self.pc), goal, note, tuple(self.decisions)))

    def cover(self, name):
        self.covers.add(name)

    def feasible(self, cond):
        r = self.solver.check(cond)
        return r != z3.unsat            # unknown counts as feasible (more paths, never fewer)

    def branch(self, cond):
        """Decide a (possibly symbolic) condition; forks by re-execution."""
        if isinstance(cond, bool):
            return cond
        if not is_z3(cond):
            raise Unsupported("branch on non-boolean %r" % (cond,))
        cond = z3.simplify(cond)
        if z3.is_true(cond):
            return True
        if z3.is_false(cond):
            return False
        i = len(self.decisions)
        if i < len(self.prefix):
            d = self.prefix[i]
        else:
            t = self.feasible(cond)
            f = self.feasible(z3.Not(cond))
            if t and f:
                self.engine.push(self.decisions + [False])
                d = True
            elif t:
                d = True
            elif f:
                d = False
            else:
                raise PathEnd("infeasible")
        self.decisions.append(d)
        c = cond if d else z3.Not(cond)
        self.pc.append(c)
        self.solver.add(c)
        return d


class Engine:
    def __init__(self, feas_timeout_ms=2000, max_paths=4000):
        self.feas_timeout_ms = feas_timeout_ms
        self.max_paths = max_paths
        self.work = []
        self.paths = 0

    def push(self, prefix):
        self.work.append(prefix)

    def explore(self, run):
        """run(path) executes one path. Returns (vcs, covers, n_paths)."""
        self.work = [[]]
        vcs, covers = [], set()
        self.paths = 0
        while self.work:
            prefix = self.work.pop()
            self.paths += 1
            if self.paths > self.max_paths:
                raise Unsupported("path explosion (> %d paths)" % self.max_paths)
            p = Path(prefix, self)
            try:
                run(p)
            except PathEnd:
                pass
            vcs.extend(p.vcs)
            covers |= p.covers
        return vcs, covers, self.paths


class LoopSpec:
    """Inductive loop contract.
    inv(L) -> z3 Bool (or list of (label, Bool));  decreases(L) -> Int expr (>= 0, strictly decreasing);
    modifies: extra names havocked;  seq: names converted from concrete list to z3 Seq at loop entry."""

    def __init__(self, inv, decreases=None, modifies=(), seq=(), seq_sort=None, on_iter=None, at_exit=None):
        self.inv, self.decreases, self.modifies, self.seq = inv, decreases, tuple(modifies), tuple(seq)
        self.seq_sort = seq_sort
        self.on_iter = on_iter
        self.at_exit = at_exit


class LoopView:
    """What a loop invariant may talk about: current locals (attributes), `it` (the hidden iterator
    position of a for loop), `entry` (locals at loop entry), `ghost`."""

    def __init__(self, env, it, entry, ghost, interp):
        object.__setattr__(self, '_env', env)
        object.__setattr__(self, 'it', it)
        object.__setattr__(self, 'entry', entry)
        object.__setattr__(self, 'ghost', ghost)
        object.__setattr__(self, 'interp', interp)

    def __getattr__(self, k):
        try:
            return self._env[k]
        except KeyError:
            raise AttributeError(k)


def _mkey(m, k):
    """a Python str used as key of a map whose keys are z3 strings"""
    if isinstance(k, str) and m.dom.sort().domain() == z3.StringSort():
        return z3.StringVal(k)
    return k


def _is_zstr(v):
    return is_z3(v) and v.sort() == z3.StringSort()


class AbstractGen:
    """The result of calling a generator that is under a contract of its own (modular use): the loop consuming it sees an
    arbitrary next item satisfying the per-yield postconditions (`next_item(I)` returns it, assuming them and updating ghost
    state), and, when the generator is exhausted, the generator's final postcondition (`finish(I)` assumes it).
    `havoc(I)` forgets the ghost state the generator accumulates (called at the loop head)."""

    def __init__(self, next_item, finish, havoc):
        self.next_item, self.finish, self.havoc = next_item, finish, havoc


class Hooks:
    """Per-function verification hooks supplied by the contract."""

    def __init__(self, loops=None, on_yield=None, name=''):
        self.loops = loops or {}
        self.on_yield = on_yield
        self.name = name


def loop_ordinals(fnode):
    """For/While statements of a function in source order -> ordinal (nested defs excluded)."""
    out = {}

    def visit(stmts):
        for st in stmts:
            if isinstance(st, (ast.For, ast.While)):
                out[id(st)] = len(out)
            for field in ('body', 'orelse', 'finalbody'):
                sub = getattr(st, field, None)
                if sub and not isinstance(st, (ast.FunctionDef, ast.ClassDef)):
                    visit(sub)
            if isinstance(st, ast.Try):
                for h in st.handlers:
                    visit(h.body)
    visit(fnode.body)
    return out


MUTATING_LEN = {'append', 'extend', 'pop', 'insert', 'remove', 'clear'}
MUTATING = MUTATING_LEN | {'update', 'add', 'discard', 'setdefault', 'sort', 'reverse'}


def assigned_names(stmts):
    """Syntactic modified set of a loop body: names bound, and names whose object is mutated through
    subscript/attribute stores or mutating method calls (base name)."""
    names, mutated, lenmut = set(), set(), set()

    def base(n):
        while isinstance(n, (ast.Subscript, ast.Attribute)):
            n = n.value
        return n.id if isinstance(n, ast.Name) else None

    def target(t):
        if isinstance(t, ast.Name):
            names.add(t.id)
        elif isinstance(t, (ast.Tuple, ast.List)):
            for e in t.elts:
                target(e)
        elif isinstance(t, (ast.Subscript, ast.Attribute)):
            b = base(t)
            if b:
                mutated.add(b)
        elif isinstance(t, ast.Starred):
            target(t.value)

    for st in stmts:
        for n in ast.walk(st):
            if isinstance(n, ast.Assign):
                for t in n.targets:
                    target(t)
            elif isinstance(n, (ast.AugAssign, ast.AnnAssign)):
                target(n.target)
            elif isinstance(n, (ast.For, ast.comprehension)):
                target(n.target)
            elif isinstance(n, ast.With):
                for it in n.items:
                    if it.optional_vars is not None:
                        target(it.optional_vars)
            elif isinstance(n, ast.NamedExpr):
                target(n.target)
            elif isinstance(n, ast.Call) and isinstance(n.func, ast.Attribute) and n.func.attr in MUTATING:
                b = base(n.func.value)
                if b:
                    mutated.add(b)
                    if n.func.attr in MUTATING_LEN:
                        lenmut.add(b)
    return names, mutated, lenmut


class _Nested:
    """a function defined inside the function under verification (closure over the enclosing locals)"""

    def __init__(self, node, env):
        self.node, self.env = node, env


class _LiveList:
    def __init__(self, plist):
        self.plist = plist

    def __iter__(self):
        i = 0
        while i < len(self.plist.items):
            yield self.plist.items[i]
            i += 1


class Interp:
    def __init__(self, path, globals_, hooks=None, ftext=None):
        self.path = path
        self.globals = globals_
        self.hooks = hooks or Hooks()
        self.ftext = ftext
        self.loop_ord = loop_ordinals(ftext.node) if ftext is not None else {}
        self.skipped = []

    # ------------------------------------------------------------------ function entry
    def run_function(self, ftext, args, kwargs=None):
        """Bind parameters and execute the body. Returns the value (None for a bare return).
        Python exceptions propagate as PyRaise."""
        env = self.bind(ftext.node, list(args), dict(kwargs or {}))
        try:
            self.exec_block(ftext.body, env)
        except _Return as r:
            return r.value
        return None

    def bind(self, fnode, args, kwargs):
        a = fnode.args
        env = {}
        params = [p.arg for p in a.posonlyargs + a.args]
        defaults = [None] * (len(params) - len(a.defaults)) + list(a.defaults)
        if len(args) > len(params) and a.vararg is None:
            raise PyRaise(ExcVal('TypeError', ('too many positional arguments',)))
        for i, p in enumerate(params):
            if i < len(args):
                env[p] = args[i]
            elif p in kwargs:
                env[p] = kwargs.pop(p)
            elif defaults[i] is not None:
                env[p] = self.eval(defaults[i], {})
            else:
                raise PyRaise(ExcVal('TypeError', ('missing argument %s' % p,)))
        if a.vararg is not None:
            env[a.vararg.arg] = tuple(args[len(params):])
        for p, d in zip(a.kwonlyargs, a.kw_defaults):
            if p.arg in kwargs:
                env[p.arg] = kwargs.pop(p.arg)
            elif d is not None:
                env[p.arg] = self.eval(d, {})
            else:
                raise PyRaise(ExcVal('TypeError', ('missing keyword argument',)))
        if a.kwarg is not None:
            env[a.kwarg.arg] = dict(kwargs)
        elif kwargs:
            raise PyRaise(ExcVal('TypeError', ('unexpected keyword argument',)))
        return env

    # ------------------------------------------------------------------ statements
    def exec_block(self, stmts, env):
        for st in stmts:
            self.exec_stmt(st, env)

    def exec_stmt(self, node, env):
        m = getattr(self, 'st_' + type(node).__name__, None)
        if m is None:
            raise Unsupported("statement %s (line %d)" % (type(node).__name__, node.lineno))
        return m(node, env)

    def st_Expr(self, node, env):
        if is_droppable(node):
            return
        if isinstance(node.value, ast.Constant) and isinstance(node.value.value, str):
            return
        self.eval(node.value, env)

    def st_Pass(self, node, env):
        pass

    def st_AnnAssign(self, node, env):
        if node.value is not None:
            self.assign(node.target, self.eval(node.value, env), env)

    def st_Assign(self, node, env):
        v = self.eval(node.value, env)
        for t in node.targets:
            self.assign(t, v, env)

    def st_AugAssign(self, node, env):
        t = node.target
        if isinstance(t, ast.Name):
            cur = self.load_name(t.id, env)
            if isinstance(cur, PObj):
                nm = {ast.BitOr: '__ior__', ast.BitAnd: '__iand__', ast.BitXor: '__ixor__', ast.Add: '__iadd__'}.get(type(node.op))
                if nm and nm in cur.methods:
                    env[t.id] = self.call(cur.methods[nm], [cur, self.eval(node.value, env)], {})
                    return
            if isinstance(cur, (PList, SeqBox)) and isinstance(node.op, ast.Add):
                self.call_method(cur, 'extend', [self.eval(node.value, env)], {})
                return
            env[t.id] = self.binop(node.op, cur, self.eval(node.value, env))
        elif isinstance(t, ast.Subscript):
            obj = self.eval(t.value, env)
            idx = self.eval_index(t.slice, env)
            cur = self.getitem(obj, idx)
            self.setitem(obj, idx, self.binop(node.op, cur, self.eval(node.value, env)))
        elif isinstance(t, ast.Attribute):
            obj = self.eval(t.value, env)
            cur = self.getattr(obj, t.attr)
            self.setattr(obj, t.attr, self.binop(node.op, cur, self.eval(node.value, env)))
        else:
            raise Unsupported("augmented assignment target")

    def assign(self, t, v, env):
        if isinstance(t, ast.Name):
            env[t.id] = v
        elif isinstance(t, (ast.Tuple, ast.List)):
            if is_z3(v) and v.sort().kind() == z3.Z3_DATATYPE_SORT and v.sort().num_constructors() == 1:
                ctor = v.sort()
                items = [ctor.accessor(0, k)(v) for k in range(ctor.constructor(0).arity())]
            else:
                items = self.iterate_concrete(v)
            if any(isinstance(e, ast.Starred) for e in t.elts):
                raise Unsupported("starred assignment")
            if len(items) != len(t.elts):
                raise PyRaise(ExcVal('ValueError', ('unpack',)))
            for e, x in zip(t.elts, items):
                self.assign(e, x, env)
        elif isinstance(t, ast.Subscript):
            self.setitem(self.eval(t.value, env), self.eval_index(t.slice, env), v)
        elif isinstance(t, ast.Attribute):
            self.setattr(self.eval(t.value, env), t.attr, v)
        else:
            raise Unsupported("assignment target %s" % type(t).__name__)

    def st_Return(self, node, env):
        raise _Return(self.eval(node.value, env) if node.value is not None else None)

    def st_Raise(self, node, env):
        if node.exc is None:
            cur = env.get('__exc__')
            if cur is None:
                raise Unsupported("bare raise outside handler")
            raise PyRaise(cur)
        v = self.eval(node.exc, env)
        if isinstance(v, PType):
            v = ExcVal(v.name)
        if not isinstance(v, ExcVal):
            raise Unsupported("raise of non-exception %r" % (v,))
        raise PyRaise(v)

    def st_Assert(self, node, env):
        c = self.truth(self.eval(node.test, env))
        if not self.path.branch(c):
            raise PyRaise(ExcVal('AssertionError'))

    def st_If(self, node, env):
        if self.path.branch(self.truth(self.eval(node.test, env))):
            self.exec_block(node.body, env)
        else:
            self.exec_block(node.orelse, env)

    def st_Break(self, node, env):
        raise _Break()

    def st_Continue(self, node, env):
        raise _Continue()

    def st_Global(self, node, env):
        raise Unsupported("global statement")

    def st_Import(self, node, env):
        for a in node.names:
            env[(a.asname or a.name).split('.')[0]] = ModRef(a.name if a.asname else a.name.split('.')[0])

    def st_ImportFrom(self, node, env):
        for a in node.names:
            nm = a.asname or a.name
            full = "%s.%s" % (node.module, a.name)
            if a.name in self.globals:
                env[nm] = self.globals[a.name]
            else:
                env[nm] = ModRef(full)

    def st_FunctionDef(self, node, env):
        if node.decorator_list:
            raise Unsupported("decorated nested function definition")
        env[node.name] = _Nested(node, env)

    def st_Delete(self, node, env):
        for t in node.targets:
            if isinstance(t, ast.Name):
                env.pop(t.id, None)
            elif isinstance(t, ast.Subscript):
                self.delitem(self.eval(t.value, env), self.eval_index(t.slice, env))
            else:
                raise Unsupported("del target")

    def st_Try(self, node, env):
        try:
            try:
                self.exec_block(node.body, env)
            except PyRaise as e:
                for h in node.handlers:
                    if self.handler_matches(h, e.exc, env):
                        if h.name:
                            env[h.name] = e.exc
                        saved = env.get('__exc__')
                        env['__exc__'] = e.exc
                        try:
                            self.exec_block(h.body, env)
                        finally:
                            env['__exc__'] = saved
                        break
                else:
                    raise
            else:
                self.exec_block(node.orelse, env)
        except (PathEnd, Unsupported):
            raise
        except BaseException:
            # finally runs on every exit (exception, return, break, continue)
            if node.finalbody:
                self.exec_block(node.finalbody, env)
            raise
        else:
            if node.finalbody:
                self.exec_block(node.finalbody, env)

    def handler_matches(self, h, exc, env):
        if h.type is None:
            return True
        t = self.eval(h.type, env)
        ts = t if isinstance(t, tuple) else (t,)
        for x in ts:
            if not isinstance(x, PType):
                raise Unsupported("except clause type")
            if exc_isinstance(exc.cls, x.name):
                return True
        return False

    def st_With(self, node, env):
        if len(node.items) != 1:
            raise Unsupported("multi-item with")
        item = node.items[0]
        cm = self.eval(item.context_expr, env)
        if not (isinstance(cm, tuple) and len(cm) == 3 and cm[0] == '__cm__'):
            raise Unsupported("with on unmodelled context manager")
        _, enter, exit_ = cm
        v = enter()
        if item.optional_vars is not None:
            self.assign(item.optional_vars, v, env)
        try:
            self.exec_block(node.body, env)
        except (PathEnd, Unsupported):
            raise
        except PyRaise as e:
            exit_(e.exc)
            raise
        except BaseException:
            exit_(None)
            raise
        else:
            exit_(None)

    # -- loops
    def st_While(self, node, env):
        ordn = self.loop_ord.get(id(node))
        spec = self.hooks.loops.get(ordn)
        if spec is not None:
            return self.loop_with_spec(node, env, spec, ordn, kind='while')
        n = 0
        while True:
            if not self.path.branch(self.truth(self.eval(node.test, env))):
                self.exec_block(node.orelse, env)
                return
            n += 1
            if n > MAX_UNROLL:
                raise Unsupported("while loop (line %d) needs an invariant: more than %d iterations"
                                  % (node.lineno, MAX_UNROLL))
            try:
                self.exec_block(node.body, env)
            except _Break:
                return
            except _Continue:
                continue

    def st_For(self, node, env):
        ordn = self.loop_ord.get(id(node))
        spec = self.hooks.loops.get(ordn)
        it = self.eval(node.iter, env)
        if spec is not None:
            return self.loop_with_spec(node, env, spec, ordn, kind='for', iterable=it)
        if isinstance(it, PObj) and '__iter__' in it.methods:
            it = self.call(it.methods['__iter__'], [it], {})
        if isinstance(it, PList):
            items = _LiveList(it)          # CPython iterates a list by index over the LIVE list
        else:
            items = self.iterate_concrete(it, what="for loop (line %d) needs an invariant" % node.lineno)
        for x in items:
            self.assign(node.target, x, env)
            try:
                self.exec_block(node.body, env)
            except _Break:
                return
            except _Continue:
                continue
        self.exec_block(node.orelse, env)

    def loop_with_spec(self, node, env, spec, ordn, kind, iterable=None):
        P = self.path
        tag = "%s/loop%d" % (self.hooks.name, ordn)
        names, mutated, lenmut = assigned_names(node.body)
        # convert lists whose length changes in the loop into z3 sequences
        for nm in set(spec.seq) | lenmut:
            v = env.get(nm)
            if isinstance(v, PList):
                sort = spec.seq_sort or z3.IntSort()
                e = z3.Empty(z3.SeqSort(sort))
                for x in v.items:
                    e = z3.Concat(e, z3.Unit(x if is_z3(x) else z3.IntVal(x)))
                env[nm] = SeqBox(z3.simplify(e) if v.items else e)
        entry = dict(env)
        it = None
        if kind == 'for':
            if isinstance(iterable, RangeVal):
                it = iterable.start
                step = iterable.step
                if is_z3(step):
                    if not P.branch(step > 0):
                        raise Unsupported("loop over range with non-positive symbolic step")
                elif step <= 0:
                    raise Unsupported("loop contract over range with non-positive step")
            elif isinstance(iterable, SeqBox):
                it = 0
            elif isinstance(iterable, AbstractGen):
                it = None
            else:
                raise Unsupported("loop contract on a for loop over %s" % type(iterable).__name__)
        ghost = P.ghost

        def view(itv):
            return LoopView(env, itv, entry, ghost, self)

        def check_inv(label, itv):
            inv = spec.inv(view(itv))
            if isinstance(inv, (list, tuple)):
                for i, (lbl, c) in enumerate(inv):
                    P.check("%s.%s[%s]" % (tag, label, lbl), c)
            else:
                P.check("%s.%s" % (tag, label), inv)

        def assume_inv(itv):
            inv = spec.inv(view(itv))
            if isinstance(inv, (list, tuple)):
                for lbl, c in inv:
                    P.assume(c)
            else:
                P.assume(inv)

        # 1. establish
        check_inv('establish', it)
        # 2. havoc
        for nm in sorted(names | mutated | set(spec.modifies)):
            if nm in env:
                env[nm] = self.havoc(env[nm], nm, rebind=(nm in names or nm in spec.modifies))
        if spec.on_iter is not None:
            spec.on_iter('havoc', view(it))
        if isinstance(iterable, AbstractGen):
            iterable.havoc(self)
        if it is not None:
            it = P.fresh_int('it')
            if isinstance(iterable, RangeVal):
                P.assume(S.And(it >= iterable.start, S.mod(it - iterable.start, iterable.step) == 0))
            else:
                P.assume(it >= 0)
        # 3. assume invariant
        assume_inv(it)
        P.cover(tag + '.head')
        dec0 = spec.decreases(view(it)) if spec.decreases else None
        # 4. one arbitrary iteration
        if kind == 'while':
            cond = self.truth(self.eval(node.test, env))
        elif isinstance(iterable, RangeVal):
            cond = True if iterable.stop is None else it < iterable.stop      # stop None: itertools.count
        elif isinstance(iterable, AbstractGen):
            cond = P.fresh('more_items', z3.BoolSort())
        else:
            cond = it < z3.Length(iterable.expr)
        if P.branch(cond):
            P.cover(tag + '.body')
            if kind == 'for':
                if isinstance(iterable, RangeVal):
                    self.assign(node.target, it, env)
                    it = it + iterable.step
                elif isinstance(iterable, AbstractGen):
                    self.assign(node.target, iterable.next_item(self), env)
                else:
                    self.assign(node.target, iterable.expr[it], env)
                    it = it + 1
            try:
                self.exec_block(node.body, env)
            except _Break:
                P.cover(tag + '.break')
                if spec.at_exit is not None:
                    spec.at_exit('break', view(it))
                return
            except _Continue:
                pass
            check_inv('preserve', it)
            if dec0 is not None:
                dec1 = spec.decreases(view(it))
                if isinstance(dec0, (tuple, list)):
                    # lexicographic variant, every component bounded below by 0
                    alts, eqs = [], []
                    for a0, a1 in zip(dec0, dec1):
                        alts.append(S.And(*(eqs + [a1 < a0, a0 >= 0])))
                        eqs = eqs + [a1 == a0]
                    P.check("%s.decreases" % tag, S.Or(*alts))
                else:
                    P.check("%s.decreases" % tag, S.And(dec0 >= 0, dec1 < dec0))
            raise PathEnd("loop iteration checked")
        else:
            P.cover(tag + '.exit')
            if isinstance(iterable, AbstractGen):
                iterable.finish(self)
            if spec.at_exit is not None:
                spec.at_exit('exit', view(it))
            self.exec_block(node.orelse, env)

    def havoc(self, v, name, rebind=True):
        P = self.path
        if isinstance(v, bool) or (is_z3(v) and v.sort() == z3.BoolSort()):
            return P.fresh(name, z3.BoolSort())
        if isinstance(v, int) or (is_z3(v) and v.sort() == z3.IntSort()):
            return P.fresh(name, z3.IntSort())
        if isinstance(v, float) or (is_z3(v) and v.sort() == z3.RealSort()):
            return P.fresh(name, z3.RealSort())
        if is_z3(v):
            return P.fresh(name, v.sort())
        if isinstance(v, PList):
            v.items = [self.havoc(x, name, True) for x in v.items]
            return v
        if isinstance(v, SeqBox):
            v.expr = P.fresh(name, v.expr.sort())
            return v
        if isinstance(v, MapBox):
            v.arr = P.fresh(name + '_arr', v.arr.sort())
            v.dom = P.fresh(name + '_dom', v.dom.sort())
            return v
        if isinstance(v, tuple):
            return tuple(self.havoc(x, name, True) for x in v)
        if v is None or isinstance(v, (str, PType, Builtin, ModRef, PFunc, PLambda)):
            if rebind and v is None:
                raise Unsupported("loop rebinds %s which is None at loop entry" % name)
            return v
        if isinstance(v, PSlice):
            return PSlice(*[self.havoc(x, name, True) for x in (v.start, v.stop, v.step)])
        if isinstance(v, PObj):
            return v     # object fields are havocked through LoopSpec.on_iter('havoc')
        raise Unsupported("cannot havoc %s of kind %s" % (name, type(v).__name__))

    # ------------------------------------------------------------------ expressions
    def eval(self, node, env):
        m = getattr(self, 'ev_' + type(node).__name__, None)
        if m is None:
            raise Unsupported("expression %s (line %d)" % (type(node).__name__, getattr(node, 'lineno', 0)))
        return m(node, env)

    def ev_Constant(self, node, env):
        v = node.value
        if isinstance(v, (int, bool, str, float)) or v is None or v is Ellipsis:
            return v
        raise Unsupported("constant %r" % (v,))

    def load_name(self, name, env):
        if name in env:
            return env[name]
        if name in self.globals:
            return self.globals[name]
        from .builtins import BUILTINS
        if name in BUILTINS:
            return BUILTINS[name]
        imp = self.module_imports()
        if name in imp:
            full = imp[name]
            from .builtins import MODULE_ATTRS
            if full in self.globals:
                return self.globals[full]
            if full in MODULE_ATTRS:
                return MODULE_ATTRS[full]
            return ModRef(full)
        if self.ftext is not None:
            from .extract import module_constant
            c = module_constant(self.ftext.relpath, name)
            if isinstance(c, ast.Constant) and isinstance(c.value, (int, str, bool, float)):
                return c.value
        raise Unsupported("name %s is not modelled" % name)

    def module_imports(self):
        if getattr(self, '_imports', None) is None:
            imp = {}
            tree = self.ftext.module if self.ftext is not None else None
            for st in (tree.body if tree is not None else []):
                if isinstance(st, ast.Import):
                    for a in st.names:
                        if a.asname:
                            imp[a.asname] = a.name
                        else:
                            imp[a.name.split('.')[0]] = a.name.split('.')[0]
                elif isinstance(st, ast.ImportFrom) and st.module:
                    for a in st.names:
                        imp[a.asname or a.name] = "%s.%s" % (st.module, a.name)
            self._imports = imp
        return self._imports

    def ev_Name(self, node, env):
        return self.load_name(node.id, env)

    def ev_Tuple(self, node, env):
        out = []
        for e in node.elts:
            if isinstance(e, ast.Starred):
                out.extend(self.iterate_concrete(self.eval(e.value, env)))
            else:
                out.append(self.eval(e, env))
        return tuple(out)

    def ev_List(self, node, env):
        return PList(self.ev_Tuple(node, env))

    def ev_Dict(self, node, env):
        out = {}
        for k, v in zip(node.keys, node.values):
            if k is None:
                raise Unsupported("** in a dict literal")
            kv = self.eval(k, env)
            if not isinstance(kv, (str, int)) or isinstance(kv, bool):
                raise Unsupported("dict literal with a non-constant key")
            out[kv] = self.eval(v, env)
        return out

    def ev_Slice(self, node, env):
        g = lambda n: None if n is None else self.eval(n, env)
        return PSlice(g(node.lower), g(node.upper), g(node.step))

    def ev_JoinedStr(self, node, env):
        return "<fstring>"

    def ev_Lambda(self, node, env):
        return PLambda(node, env)

    def ev_IfExp(self, node, env):
        if self.path.branch(self.truth(self.eval(node.test, env))):
            return self.eval(node.body, env)
        return self.eval(node.orelse, env)

    def ev_BoolOp(self, node, env):
        is_and = isinstance(node.op, ast.And)
        v = None
        for i, e in enumerate(node.values):
            v = self.eval(e, env)
            if i == len(node.values) - 1:
                return v
            t = self.path.branch(self.truth(v))
            if is_and and not t:
                return v
            if not is_and and t:
                return v
        return v

    def ev_UnaryOp(self, node, env):
        v = self.eval(node.operand, env)
        if isinstance(node.op, ast.Not):
            return S.Not(self.truth(v))
        if isinstance(node.op, ast.USub):
            if isinstance(v, PObj) and '__neg__' in v.methods:
                return self.call(v.methods['__neg__'], [v], {})
            if is_num(v):
                return -v
        if isinstance(node.op, ast.UAdd):
            if is_num(v):
                return v
        if isinstance(node.op, ast.Invert):
            return self.invert(v)
        raise Unsupported("unary %s on %r" % (type(node.op).__name__, v))

    def invert(self, v):
        if isinstance(v, PObj) and '__invert__' in v.methods:
            return self.call(v.methods['__invert__'], [v], {})
        if is_int(v):
            return -v - 1
        raise Unsupported("~ on %r" % (v,))

    def ev_BinOp(self, node, env):
        return self.binop(node.op, self.eval(node.left, env), self.eval(node.right, env))

    def binop(self, op, a, b):
        t = type(op)
        if isinstance(a, str) and t is ast.Mod:
            args = b if isinstance(b, tuple) else (b,)
            if any(_is_zstr(x) for x in args) and all(isinstance(x, str) or _is_zstr(x) or is_int(x) for x in args):
                return self.format_symbolic(a, args)     # a name is being built from a symbolic string
            return a                  # message formatting: opaque
        if t is ast.Add and (_is_zstr(a) or _is_zstr(b)) and (isinstance(a, str) or _is_zstr(a)) and (isinstance(b, str) or _is_zstr(b)):
            return z3.Concat(a if _is_zstr(a) else z3.StringVal(a), b if _is_zstr(b) else z3.StringVal(b))
        if isinstance(a, PObj) or isinstance(b, PObj):
            nm = {ast.BitAnd: '__and__', ast.BitOr: '__or__', ast.BitXor: '__xor__', ast.Add: '__add__',
                  ast.Sub: '__sub__', ast.Mult: '__mul__', ast.MatMult: '__matmul__', ast.Mod: '__mod__', ast.Div: '__truediv__'}.get(t)
            if nm and isinstance(a, PObj) and nm in a.methods:
                return self.call(a.methods[nm], [a, b], {})
            raise Unsupported("operator %s on object" % t.__name__)
        if isinstance(a, str):
            if t is ast.Mod:
                return a              # message formatting: opaque
            if t is ast.Add and isinstance(b, str):
                return a + b
        if isinstance(a, PList) and t is ast.Mult and isinstance(b, int):
            return PList(list(a.items) * b)
        if isinstance(a, PList) and isinstance(b, PList) and getattr(a, 'is_set', False) and getattr(b, 'is_set', False) and t in (ast.Sub, ast.BitAnd, ast.BitOr):
            if t is ast.Sub:
                r = PList([x for x in a.items if x not in b.items])
            elif t is ast.BitAnd:
                r = PList([x for x in a.items if x in b.items])
            else:
                r = PList(a.items + [x for x in b.items if x not in a.items])
            r.is_set = True
            return r
        if isinstance(a, PList) and isinstance(b, PList) and t is ast.Add:
            return PList(a.items + b.items)
        if isinstance(a, tuple) and isinstance(b, tuple) and t is ast.Add:
            return a + b
        if isinstance(a, SeqBox) and t is ast.Add:
            if isinstance(b, SeqBox):
                return SeqBox(z3.Concat(a.expr, b.expr))
            if isinstance(b, PList):
                e = a.expr
                for x in b.items:
                    e = z3.Concat(e, z3.Unit(x))
                return SeqBox(e)
        if is_boolv(a) and is_boolv(b) and t in (ast.BitAnd, ast.BitOr, ast.BitXor):
            if t is ast.BitAnd:
                return S.And(a, b)
            if t is ast.BitOr:
                return S.Or(a, b)
            return z3.Xor(S.tobool(a), S.tobool(b)) if (is_z3(a) or is_z3(b)) else (a ^ b)
        if is_boolv(a) and not isinstance(a, bool):
            a = z3.If(a, 1, 0)
        if is_boolv(b) and not isinstance(b, bool):
            b = z3.If(b, 1, 0)
        if not (is_num(a) or isinstance(a, bool)) or not (is_num(b) or isinstance(b, bool)):
            raise Unsupported("binary %s on %r, %r" % (t.__name__, a, b))
        if t is ast.Add:
            return a + b
        if t is ast.Sub:
            return a - b
        if t is ast.Mult:
            return a * b
        if t in (ast.FloorDiv, ast.Mod, ast.Div):
            if not self.path.branch(b != 0 if is_z3(b) else (b != 0)):
                raise PyRaise(ExcVal('ZeroDivisionError'))
            if t is ast.Div:
                if is_int(a) and is_int(b):
                    a = z3.ToReal(a) if is_z3(a) else z3.RealVal(a)
                return a / b
            if not (is_int(a) and is_int(b)):
                raise Unsupported("// or % on non-integers")
            return S.floordiv(a, b) if t is ast.FloorDiv else S.mod(a, b)
        if t is ast.Pow:
            if isinstance(b, int) and 0 <= b <= 4:
                r = 1
                for _ in range(b):
                    r = r * a
                return r
        raise Unsupported("binary operator %s" % t.__name__)

    def format_symbolic(self, fmt, args):
        """'%s_%i' % (name, i) with symbolic arguments: z3 string built from the literal pieces, %s of a string value and
        %i / %d of a non-negative integer (str.from_int); anything else is outside the executor"""
        import re
        pieces = re.split(r'(%[sid])', fmt)
        out, k = [], 0
        for p in pieces:
            if p in ('%s', '%i', '%d'):
                if k >= len(args):
                    raise Unsupported("format string %r: too few arguments" % fmt)
                v = args[k]
                k += 1
                if p == '%s' and isinstance(v, str):
                    out.append(z3.StringVal(v))
                elif p == '%s' and _is_zstr(v):
                    out.append(v)
                elif p in ('%i', '%d') and is_int(v):
                    if not self.path.branch(v >= 0 if is_z3(v) else (v >= 0)):
                        raise Unsupported("formatting a negative symbolic integer")
                    out.append(z3.IntToStr(v if is_z3(v) else z3.IntVal(v)))
                else:
                    raise Unsupported("format %s of %r" % (p, v))
            elif '%' in p:
                raise Unsupported("format string %r" % fmt)
            elif p:
                out.append(z3.StringVal(p))
        if k != len(args):
            raise Unsupported("format string %r: too many arguments" % fmt)
        return out[0] if len(out) == 1 else z3.Concat(*out)

    def ev_Compare(self, node, env):
        left = self.eval(node.left, env)
        res = True
        for i, (op, rn) in enumerate(zip(node.ops, node.comparators)):
            right = self.eval(rn, env)
            c = self.compare(op, left, right)
            if i == len(node.ops) - 1:
                return S.And(res, c) if res is not True else c
            # chained comparison short-circuits
            if not self.path.branch(self.truth(c)):
                return False
            left = right
        return res

    def compare(self, op, a, b):
        t = type(op)
        if t is ast.Is:
            return self.identical(a, b)
        if t is ast.IsNot:
            return S.Not(self.identical(a, b))
        if t is ast.In:
            return self.contains(b, a)
        if t is ast.NotIn:
            return S.Not(self.contains(b, a))
        if t is ast.Eq:
            return self.equal(a, b)
        if t is ast.NotEq:
            return S.Not(self.equal(a, b))
        if isinstance(a, PObj) or isinstance(b, PObj):
            nm = {ast.Lt: ('__lt__', '__gt__'), ast.LtE: ('__le__', '__ge__'), ast.Gt: ('__gt__', '__lt__'), ast.GtE: ('__ge__', '__le__')}.get(t)
            if nm and isinstance(a, PObj) and nm[0] in a.methods:
                return self.call(a.methods[nm[0]], [a, b], {})
            if nm and isinstance(b, PObj) and nm[1] in b.methods:
                return self.call(b.methods[nm[1]], [b, a], {})
            raise Unsupported("ordering comparison on object")
        if isinstance(a, (PList, tuple)) and isinstance(b, (PList, tuple)) and type(a) is type(b):
            xa = a.items if isinstance(a, PList) else list(a)
            xb = b.items if isinstance(b, PList) else list(b)
            if len(xa) != len(xb):
                raise Unsupported("ordering of sequences of different length")
            if t is ast.LtE:
                return S.lex_le(xa, xb)
            if t is ast.Lt:
                return S.lex_lt(xa, xb)
            if t is ast.GtE:
                return S.lex_le(xb, xa)
            if t is ast.Gt:
                return S.lex_lt(xb, xa)
        if isinstance(a, bool):
            a = int(a)
        if isinstance(b, bool):
            b = int(b)
        if not (is_num(a) and is_num(b)):
            raise Unsupported("ordering comparison of %r and %r" % (a, b))
        if t is ast.Lt:
            return a < b
        if t is ast.LtE:
            return a <= b
        if t is ast.Gt:
            return a > b
        if t is ast.GtE:
            return a >= b
        raise Unsupported("comparison %s" % t.__name__)

    def identical(self, a, b):
        if a is Ellipsis or b is Ellipsis:
            return a is b
        if a is None or b is None:
            if isinstance(a, OptInt):
                return a.is_none
            if isinstance(b, OptInt):
                return b.is_none
            return a is b
        if is_z3(a) and is_z3(b) and a.sort() == b.sort() and a.sort().kind() == z3.Z3_UNINTERPRETED_SORT:
            return a == b
        if isinstance(a, bool) and isinstance(b, bool):
            return a is b
        if is_boolv(a) and is_boolv(b):
            return S.Iff(a, b)
        if isinstance(a, (PObj, PList, SeqBox, MapBox, PType, Builtin, PFunc)) or \
                isinstance(b, (PObj, PList, SeqBox, MapBox, PType, Builtin, PFunc)):
            if isinstance(a, PType) and isinstance(b, PType):
                return a == b
            return a is b
        raise Unsupported("`is` on %r, %r" % (a, b))

    def equal(self, a, b):
        if a is None or b is None:
            if isinstance(a, OptInt) or isinstance(b, OptInt):
                return self.identical(a, b)
            return a is b
        if isinstance(a, PObj) and '__eq__' in a.methods:
            return self.call(a.methods['__eq__'], [a, b], {})
        if isinstance(a, (PList, tuple)) and isinstance(b, (PList, tuple)):
            if isinstance(a, PList) != isinstance(b, PList):
                return False
            xa = a.items if isinstance(a, PList) else list(a)
            xb = b.items if isinstance(b, PList) else list(b)
            if len(xa) != len(xb):
                return False
            return S.And(*[self.equal(x, y) for x, y in zip(xa, xb)])
        if isinstance(a, SeqBox) and isinstance(b, SeqBox):
            return a.expr == b.expr
        if isinstance(a, SeqBox) and isinstance(b, PList):
            if not b.items:
                return z3.Length(a.expr) == 0
        if isinstance(a, str) or isinstance(b, str):
            if isinstance(a, str) and isinstance(b, str):
                return a == b
            if _is_zstr(a) or _is_zstr(b):
                return (a if _is_zstr(a) else z3.StringVal(a)) == (b if _is_zstr(b) else z3.StringVal(b))
            return False
        if is_boolv(a) and is_boolv(b):
            return S.Iff(a, b)
        if (is_num(a) or isinstance(a, bool)) and (is_num(b) or isinstance(b, bool)):
            if isinstance(a, bool):
                a = int(a)
            if isinstance(b, bool):
                b = int(b)
            return a == b
        if is_z3(a) and is_z3(b) and a.sort() == b.sort():
            return a == b
        if isinstance(a, (PObj, PType)) or isinstance(b, (PObj, PType)):
            if isinstance(a, PType) and isinstance(b, PType):
                return a == b
            return a is b
        raise Unsupported("== on %r, %r" % (a, b))

    def contains(self, cont, x):
        if isinstance(cont, (PList, tuple)):
            items = cont.items if isinstance(cont, PList) else cont
            return S.Or(*[self.equal(y, x) for y in items]) if items else False
        if isinstance(cont, SeqBox):
            return z3.Contains(cont.expr, z3.Unit(x))
        if isinstance(cont, MapBox):
            return z3.Select(cont.dom, _mkey(cont, x))
        if isinstance(cont, dict):
            return x in cont
        if isinstance(cont, PObj) and '__contains__' in cont.methods:
            return self.call(cont.methods['__contains__'], [cont, x], {})
        raise Unsupported("`in` on %r" % (cont,))

    def truth(self, v):
        if isinstance(v, bool):
            return v
        if v is None:
            return False
        if is_z3(v):
            if v.sort() == z3.BoolSort():
                return v
            if v.sort() in (z3.IntSort(), z3.RealSort()):
                return v != 0
            if v.sort().kind() == z3.Z3_UNINTERPRETED_SORT:
                return True
        if isinstance(v, (int, float)):
            return v != 0
        if isinstance(v, str):
            return len(v) > 0
        if isinstance(v, (PList,)):
            return len(v.items) > 0
        if isinstance(v, (tuple, dict)):
            return len(v) > 0
        if isinstance(v, SeqBox):
            return z3.Length(v.expr) > 0
        if isinstance(v, OptInt):
            return S.And(S.Not(v.is_none), v.val != 0)
        if isinstance(v, PObj):
            if '__bool__' in v.methods:
                return self.truth(self.call(v.methods['__bool__'], [v], {}))
            if '__len__' in v.methods:
                return self.call(v.methods['__len__'], [v], {}) > 0
            return True
        if isinstance(v, (PType, Builtin, PFunc, PLambda, BoundMethod, PSlice, ModRef)):
            return True
        raise Unsupported("truth value of %r" % (v,))

    # -- comprehension-like
    def ev_ListComp(self, node, env):
        return PList(self.comprehension(node.elt, node.generators, env))

    def ev_GeneratorExp(self, node, env):
        return PList(self.comprehension(node.elt, node.generators, env))

    def ev_SetComp(self, node, env):
        raise Unsupported("set comprehension")

    def comprehension(self, elt, gens, env):
        out = []
        env2 = dict(env)

        def rec(i):
            if i == len(gens):
                out.append(self.eval(elt, env2))
                return
            g = gens[i]
            for x in self.iterate_concrete(self.eval(g.iter, env2), what="comprehension over symbolic-length iterable"):
                self.assign(g.target, x, env2)
                ok = True
                for cond in g.ifs:
                    if not self.path.branch(self.truth(self.eval(cond, env2))):
                        ok = False
                        break
                if ok:
                    rec(i + 1)
        rec(0)
        return out

    def iterate_concrete(self, v, what="iteration over symbolic-length iterable"):
        if isinstance(v, PList):
            return list(v.items)
        if isinstance(v, tuple):
            return list(v)
        if isinstance(v, RangeVal):
            if all(isinstance(x, int) for x in (v.start, v.stop, v.step)):
                return list(range(v.start, v.stop, v.step))
            raise Unsupported(what)
        if isinstance(v, dict):
            return list(v.keys())
        if isinstance(v, PObj) and '__iter__' in v.methods:
            return self.iterate_concrete(self.call(v.methods['__iter__'], [v], {}), what)
        raise Unsupported("%s (%s)" % (what, type(v).__name__))

    # -- attribute / subscript
    def ev_Attribute(self, node, env):
        return self.getattr(self.eval(node.value, env), node.attr)

    def getattr(self, obj, attr):
        if isinstance(obj, PObj):
            if attr in obj.fields:
                return obj.fields[attr]
            if attr in obj.methods:
                m = obj.methods[attr]
                if isinstance(m, tuple) and m[0] == '__property__':
                    return m[1](self, obj)
                return BoundMethod(obj, attr)
            if getattr(obj, 'closed', False):
                raise PyRaise(ExcVal('AttributeError', (attr,)))
            raise Unsupported("attribute %s of %s is not modelled" % (attr, obj.cls))
        if isinstance(obj, ModRef):
            full = obj.name + '.' + attr
            from .builtins import MODULE_ATTRS
            if full in self.globals:
                return self.globals[full]
            if full in MODULE_ATTRS:
                return MODULE_ATTRS[full]
            return ModRef(full)
        if isinstance(obj, PSlice):
            if attr in ('start', 'stop', 'step'):
                return getattr(obj, attr)
            if attr == 'indices':
                return BoundMethod(obj, attr)
        if isinstance(obj, (PList, SeqBox, MapBox, tuple, dict, str)):
            return BoundMethod(obj, attr)
        if isinstance(obj, ExcVal) and attr == 'args':
            return obj.args
        if isinstance(obj, PType) and attr == '__name__':
            return obj.name
        if is_z3(obj) and '__getattr_symbolic__' in self.globals:
            return self.globals['__getattr_symbolic__'](self, obj, attr)
        if _is_zstr(obj):
            return BoundMethod(obj, attr)
        raise Unsupported("attribute %s of %r" % (attr, obj))

    def setattr(self, obj, attr, v):
        if isinstance(obj, PObj):
            setter = obj.methods.get(attr + '.setter')
            if setter is not None:
                return self.call(setter, [obj, v], {})
            kind = getattr(obj, 'field_kinds', {}).get(attr)
            if kind is not None and kind[0] == 'seq' and isinstance(v, PList):
                # a list freshly built by the expression on the right-hand side (no other alias is modelled)
                e = z3.Empty(z3.SeqSort(kind[1]))
                for x in v.items:
                    e = z3.Concat(e, z3.Unit(x))
                v = SeqBox(e)
            obj.fields[attr] = v
            return
        raise Unsupported("attribute store on %r" % (obj,))

    def eval_index(self, node, env):
        return self.eval(node, env)

    def ev_Subscript(self, node, env):
        return self.getitem(self.eval(node.value, env), self.eval_index(node.slice, env))

    def norm_index(self, idx, n, what='list'):
        """bounds check + negative index normalisation for a sequence of length n"""
        ok = S.And(-n <= idx, idx < n)
        if not self.path.branch(ok):
            raise PyRaise(ExcVal('IndexError', ('%s index out of range' % what,)))
        if isinstance(idx, int):
            return idx + n if idx < 0 else idx
        return S.If(idx < 0, idx + n, idx)

    def getitem(self, obj, idx):
        if isinstance(obj, (PList, tuple)):
            items = obj.items if isinstance(obj, PList) else obj
            if isinstance(idx, PSlice):
                sl = self.concrete_slice(idx)
                r = list(items)[sl]
                return PList(r) if isinstance(obj, PList) else tuple(r)
            if isinstance(idx, int) and not isinstance(idx, bool):
                i = self.norm_index(idx, len(items))
                return items[i]
            if is_int(idx):
                i = self.norm_index(idx, len(items))
                if not items:
                    raise PathEnd("infeasible")
                r = items[-1]
                for k in range(len(items) - 2, -1, -1):
                    r = self.ite(i == k, items[k], r)
                return r
        if isinstance(obj, SeqBox):
            n = z3.Length(obj.expr)
            if isinstance(idx, PSlice):
                return SeqBox(self.seq_slice(obj.expr, idx))
            if is_int(idx):
                i = self.norm_index(idx, n)
                return obj.expr[i]
        if isinstance(obj, MapBox):
            return self.map_get(obj, _mkey(obj, idx))
        if isinstance(obj, dict):
            if idx in obj:
                return obj[idx]
            raise PyRaise(ExcVal('KeyError'))
        if isinstance(obj, PObj) and '__getitem__' in obj.methods:
            return self.call(obj.methods['__getitem__'], [obj, idx], {})
        raise Unsupported("subscript of %r with %r" % (obj, idx))

    def ite(self, c, a, b):
        if isinstance(a, tuple) and isinstance(b, tuple) and len(a) == len(b):
            return tuple(self.ite(c, x, y) for x, y in zip(a, b))
        if (is_z3(a) or isinstance(a, (int, bool, float))) and (is_z3(b) or isinstance(b, (int, bool, float))):
            return S.If(c, a, b)
        if a is b:
            return a
        raise Unsupported("symbolic choice between %r and %r" % (a, b))

    def concrete_slice(self, sl):
        def g(v):
            if v is None or (isinstance(v, int) and not isinstance(v, bool)):
                return v
            raise Unsupported("symbolic slice bound on a concrete-length list")
        return slice(g(sl.start), g(sl.stop), g(sl.step))

    def seq_slice(self, e, sl):
        n = z3.Length(e)
        if sl.step not in (None, 1):
            raise Unsupported("stepped slice of unbounded list")
        beg, end, _ = S.slice_indices(PSlice(sl.start, sl.stop, None), n)
        ln = S.If(end > beg, end - beg, 0)
        return z3.SubSeq(e, beg if is_z3(beg) else z3.IntVal(beg), ln if is_z3(ln) else z3.IntVal(ln))

    def map_get(self, m, k):
        present = z3.Select(m.dom, k)
        if m.kind == 'counter':
            return z3.If(present, z3.Select(m.arr, k), 0)
        if self.path.branch(present):
            return z3.Select(m.arr, k)
        if m.kind == 'defaultdict':
            raise Unsupported("defaultdict insertion on read of a symbolic map")
        raise PyRaise(ExcVal('KeyError'))

    def setitem(self, obj, idx, v):
        if isinstance(obj, PList) and isinstance(idx, PSlice):
            obj.items[self.concrete_slice(idx)] = self.iterate_concrete(v)
            return
        if isinstance(obj, PList):
            if isinstance(idx, int) and not isinstance(idx, bool):
                i = self.norm_index(idx, len(obj.items), 'list assignment')
                obj.items[i] = v
                return
            if is_int(idx):
                i = self.norm_index(idx, len(obj.items), 'list assignment')
                obj.items = [self.ite(i == k, v, old) for k, old in enumerate(obj.items)]
                return
        if isinstance(obj, SeqBox) and is_int(idx):
            n = z3.Length(obj.expr)
            i = self.norm_index(idx, n, 'list assignment')
            i = i if is_z3(i) else z3.IntVal(i)
            obj.expr = z3.Concat(z3.SubSeq(obj.expr, z3.IntVal(0), i), z3.Unit(v),
                                 z3.SubSeq(obj.expr, i + 1, n - i - 1))
            return
        if isinstance(obj, MapBox):
            idx = _mkey(obj, idx)
            obj.arr = z3.Store(obj.arr, idx, v)
            obj.dom = z3.Store(obj.dom, idx, z3.BoolVal(True))
            return
        if isinstance(obj, dict):
            obj[idx] = v
            return
        if isinstance(obj, PObj) and '__setitem__' in obj.methods:
            return self.call(obj.methods['__setitem__'], [obj, idx, v], {})
        raise Unsupported("item store on %r" % (obj,))

    def delitem(self, obj, idx):
        if isinstance(obj, MapBox):
            if not self.path.branch(z3.Select(obj.dom, idx)):
                raise PyRaise(ExcVal('KeyError'))
            obj.dom = z3.Store(obj.dom, idx, z3.BoolVal(False))
            return
        if isinstance(obj, dict):
            if idx not in obj:
                raise PyRaise(ExcVal('KeyError'))
            del obj[idx]
            return
        raise Unsupported("del item on %r" % (obj,))

    # -- calls
    def ev_Call(self, node, env):
        fv = self.eval(node.func, env)
        args = []
        for a in node.args:
            if isinstance(a, ast.Starred):
                args.extend(self.iterate_concrete(self.eval(a.value, env)))
            else:
                args.append(self.eval(a, env))
        kwargs = {}
        for k in node.keywords:
            if k.arg is None:
                d = self.eval(k.value, env)
                if not isinstance(d, dict):
                    raise Unsupported("** of non-dict")
                kwargs.update(d)
            else:
                kwargs[k.arg] = self.eval(k.value, env)
        return self.call(fv, args, kwargs)

    def call(self, fv, args, kwargs):
        if isinstance(fv, Builtin):
            return fv.fn(self, *args, **kwargs)
        if isinstance(fv, BoundMethod):
            return self.call_method(fv.obj, fv.name, args, kwargs)
        if isinstance(fv, PFunc):
            sub = Interp(self.path, fv.globals if fv.globals is not None else self.globals,
                         fv.hooks, fv.ftext)
            a = ([fv.self_obj] if fv.self_obj is not None else []) + list(args)
            return sub.run_function(fv.ftext, a, kwargs)
        if isinstance(fv, _Nested):
            env = dict(fv.env)
            env[fv.node.name] = fv
            env.update(self.bind(fv.node, list(args), dict(kwargs)))
            body = fv.node.body
            if body and isinstance(body[0], ast.Expr) and isinstance(body[0].value, ast.Constant) and isinstance(body[0].value.value, str):
                body = body[1:]
            try:
                self.exec_block(body, env)
            except _Return as r:
                return r.value
            return None
        if isinstance(fv, PLambda):
            env = dict(fv.env)
            env.update(self.bind(fv.node, list(args), dict(kwargs)))
            return self.eval(fv.node.body, env)
        if isinstance(fv, PType):
            if exc_isinstance(fv.name, 'BaseException') or fv.name in ('ClientException',):
                return ExcVal(fv.name, args)
            from .builtins import BUILTINS
            if fv.name in BUILTINS and not isinstance(BUILTINS[fv.name], PType):
                return self.call(BUILTINS[fv.name], args, kwargs)
            if fv.name == 'dict':
                # dict(k=v, ...), dict(mapping) and dict(iterable of (concrete key, value) pairs)
                out = {}
                if args:
                    src = args[0]
                    if isinstance(src, dict):
                        out.update(src)
                    else:
                        for pair in self.iterate_concrete(src, what="dict() of a symbolic-length iterable"):
                            k, v = self.iterate_concrete(pair)
                            out[k] = v
                out.update(kwargs)
                return out
        if is_z3(fv) and '__call_symbolic__' in self.globals:
            return self.globals['__call_symbolic__'](self, fv, args, kwargs)
        if isinstance(fv, PObj) and '__call__' in fv.methods:
            return self.call(fv.methods['__call__'], [fv] + list(args), kwargs)
        if callable(fv) and not is_z3(fv):
            return fv(self, *args, **kwargs)
        raise Unsupported("call of %r" % (fv,))

    def call_method(self, obj, name, args, kwargs):
        from .builtins import call_method
        return call_method(self, obj, name, args, kwargs)

    def ev_Yield(self, node, env):
        v = self.eval(node.value, env) if node.value is not None else None
        if self.hooks.on_yield is None:
            raise Unsupported("yield without a generator contract")
        return self.hooks.on_yield(self, v, env)

    def ev_Starred(self, node, env):
        raise Unsupported("starred expression")

    def ev_NamedExpr(self, node, env):
        v = self.eval(node.value, env)
        env[node.target.id] = v
        return v
