"""Contracts on real functions and the job runner that generates and discharges their VCs.

A `FnContract` is a sidecar contract of one function of /repo (keyed by `relpath:qualname`):

  configs(tier)           structure configurations (what stays concrete: rank, concrete steps, ...)
  inputs(cfg, P)          symbolic inputs -> Inputs(args, kwargs, st)  (`st`: named inputs for the clauses)
  requires(cfg, st)       [(label, cond)]   preconditions (assumed on entry; checked at call sites)
  ensures(cfg, st, res)   [(label, cond)]   postconditions on normal return
  raises                  {ExcName: cond(cfg, st)}  exceptional exits that are allowed, and when
  loops(cfg, st)          {ordinal: LoopSpec}
  on_yield(cfg, st)       generator hook
  globals_(cfg, st)       module-level names visible to the body: callee contracts, inlined functions
  finish(cfg, st, P, outcome)  extra end-of-path obligations (ghost state)
  native(cfg, val)        run the REAL function on a concrete valuation and evaluate the same clauses
                          natively -> (ok, detail); used for counterexample replay and as bounded stand-in

The clauses use the polymorphic spec functions of pyvc.spec, so `ensures` is the same text in the
VC and in the native replay.
"""
import importlib
import json
import multiprocessing
import os
import sys
import time
import traceback

import z3

from .extract import FunctionText, ExtractError, REPO
from .interp import Engine, Interp, Hooks, Path
from .values import Unsupported, PathEnd, PyRaise, ExcVal
from . import solver as SV
from . import spec as S


class Inputs:
    def __init__(self, args, kwargs=None, st=None, symbols=None):
        self.args, self.kwargs, self.st = list(args), dict(kwargs or {}), st
        self.symbols = symbols or {}      # name -> z3 const (for model extraction)


class St(object):
    """namespace of named inputs (plain attribute storage: names such as `items`/`keys` are fine)"""

    def __init__(self, **kw):
        self.__dict__.update(kw)

    def __getitem__(self, k):
        return self.__dict__[k]

    def __setitem__(self, k, v):
        self.__dict__[k] = v

    def get(self, k, default=None):
        return self.__dict__.get(k, default)

    def __contains__(self, k):
        return k in self.__dict__


class FnContract:
    property_ids = ()
    target = None          # "glue/utils/array.py:qualname"
    title = ''
    budget_s = None        # per-VC solver budget override
    tactic = None

    def configs(self, tier):
        return [{}]

    def inputs(self, cfg, P):
        raise NotImplementedError

    def requires(self, cfg, st):
        return []

    def ensures(self, cfg, st, result):
        return []

    raises = {}

    def loops(self, cfg, st):
        return {}

    def on_yield(self, cfg, st):
        return None

    def globals_(self, cfg, st):
        return {}

    def finish(self, cfg, st, P, outcome):
        pass

    def native(self, cfg, val):
        return None

    # ---------------------------------------------------------------------------------------
    @property
    def relpath(self):
        return self.target.split(':')[0]

    @property
    def qualname(self):
        return self.target.split(':')[1]

    def ftext(self):
        return FunctionText(self.relpath, self.qualname)

    def cfg_name(self, cfg):
        return ','.join("%s=%s" % (k, cfg[k]) for k in sorted(cfg)) or '-'


def run_job(contract, cfg, tier, budget_s):
    """Generate and discharge all VCs of one (contract, config). Returns a plain dict."""
    t0 = time.time()
    res = {"function": contract.target, "config": contract.cfg_name(cfg), "obligations": {}, "paths": 0,
           "status": "ok", "undecided": [], "refuted": [], "solver_s": 0.0, "covers": [], "vcs": 0}
    try:
        ft = contract.ftext()
    except (ExtractError, OSError, SyntaxError) as e:
        res["status"] = "missing"
        res["undecided"].append({"obligation": contract.target, "reason": "extract: %s" % e})
        return res
    res["sha256"] = ft.sha256[:16]
    res["line"] = ft.lineno
    res["dropped"] = ft.dropped
    res["decorators"] = ft.decorators
    qn = "%s[%s]" % (contract.qualname, contract.cfg_name(cfg))
    holder = {}

    def run(P):
        inp = contract.inputs(cfg, P)
        st = inp.st
        holder['inp'] = inp
        for lbl, c in contract.requires(cfg, st):
            P.assume(c)
        # vacuity guard: the precondition must be satisfiable, and a false assertion placed
        # right after it must be refuted
        P.check("%s/canary" % qn, False)
        hooks = Hooks(loops=contract.loops(cfg, st), on_yield=contract.on_yield(cfg, st), name=qn)
        I = Interp(P, contract.globals_(cfg, st), hooks, ft)
        try:
            result = I.run_function(ft, inp.args, inp.kwargs)
            outcome = ('return', result)
        except PyRaise as e:
            outcome = ('raise', e.exc)
        if outcome[0] == 'return':
            P.cover(qn + '/return')
            for lbl, c in contract.ensures(cfg, st, outcome[1]):
                P.check("%s/ensures:%s" % (qn, lbl), c)
        else:
            exc = outcome[1]
            P.cover(qn + '/raise:' + exc.cls)
            cond = contract.raises.get(exc.cls)
            if cond is None:
                P.check("%s/raises:unexpected-%s" % (qn, exc.cls), False)
            else:
                P.check("%s/raises:%s" % (qn, exc.cls), cond(cfg, st))
        contract.finish(cfg, st, P, outcome)

    eng = Engine()
    try:
        vcs, covers, npaths = eng.explore(run)
    except Unsupported as e:
        res["status"] = "unsupported"
        res["undecided"].append({"obligation": qn, "reason": "unsupported: %s" % e})
        res["wall_s"] = time.time() - t0
        return res
    except (AttributeError, KeyError, IndexError, TypeError, z3.Z3Exception) as e:
        # a contract clause (loop invariant, ghost hook) refers to a local or a shape that the current
        # function text no longer has: the contract does not apply -> undecided, never a violation
        tb = traceback.extract_tb(sys.exc_info()[2])
        where = "%s:%d" % (os.path.basename(tb[-1].filename), tb[-1].lineno) if tb else '?'
        res["status"] = "unsupported"
        res["undecided"].append({"obligation": qn, "reason": "contract does not fit the current function text (%s: %s at %s)"
                                 % (type(e).__name__, e, where)})
        res["wall_s"] = time.time() - t0
        return res
    res["paths"] = npaths
    res["covers"] = sorted(covers)
    res["vcs"] = len(vcs)
    b = contract.budget_s or budget_s
    obl = res["obligations"]
    for vc in vcs:
        is_canary = vc.name.endswith('/canary')
        if z3.is_true(vc.goal) and not is_canary:
            # the clause was decided by evaluation on concrete structure (finite-universe / [E] obligations)
            st_, backend, dt, model = 'unsat', 'evaluation', 0.0, None
        else:
            st_, backend, dt, model = SV.discharge(vc.pc, vc.goal, b, use_cli=not is_canary, tactic=contract.tactic)
        res["solver_s"] += dt
        o = obl.setdefault(vc.name, {"vcs": 0, "unsat": 0, "sat": 0, "unknown": 0, "backends": {}, "max_s": 0.0,
                                     "canary": is_canary})
        o["vcs"] += 1
        o[st_] += 1
        o["backends"][backend.split(':')[0]] = o["backends"].get(backend.split(':')[0], 0) + 1
        o["max_s"] = max(o["max_s"], dt)
        if is_canary:
            continue
        if st_ == 'sat':
            val = {}
            inp = holder.get('inp')
            if inp is not None:
                for nm, sym in inp.symbols.items():
                    try:
                        val[nm] = SV.model_value(model, sym)
                    except Exception:
                        val[nm] = None
            res["refuted"].append({"obligation": vc.name, "valuation": val, "path": list(vc.path_id or ()),
                                   "model": str(model)[:2000]})
        elif st_ == 'unknown':
            res["undecided"].append({"obligation": vc.name, "reason": "solver: " + backend})
    res["wall_s"] = time.time() - t0
    return res


def _job(args):
    modname, idx, cfg, tier, budget_s = args
    try:
        mod = importlib.import_module(modname)
        contract = mod.CONTRACTS[idx]
        return run_job(contract, cfg, tier, budget_s)
    except Exception:
        return {"function": "%s#%d" % (modname, idx), "config": str(cfg), "status": "crash",
                "trace": traceback.format_exc(), "obligations": {}, "undecided": [], "refuted": [],
                "solver_s": 0.0, "paths": 0, "covers": [], "vcs": 0}


def run_contracts(modname, tier='quick', budget_s=10.0, procs=None, only=None):
    """Run every contract of module `modname` (attribute CONTRACTS) over its configs in a pool."""
    mod = importlib.import_module(modname)
    jobs = []
    for i, c in enumerate(mod.CONTRACTS):
        if only and not any(o in c.target for o in only):
            continue
        for cfg in c.configs(tier):
            jobs.append((modname, i, cfg, tier, budget_s))
    procs = procs or min(len(jobs), int(os.environ.get('VERIF_PROCS', '16'))) or 1
    if procs <= 1 or len(jobs) <= 1:
        return [_job(j) for j in jobs]
    ctx = multiprocessing.get_context('fork')
    with ctx.Pool(procs) as pool:
        return pool.map(_job, jobs, chunksize=1)


def summarize(results):
    """Aggregate job results into obligation counts."""
    n_obl = n_dis = 0
    canaries = canaries_ok = 0
    refuted, undecided, crashed = [], [], []
    functions = {}
    backends = {}
    solver_s = 0.0
    samples = []
    for r in results:
        if r.get("status") == "crash":
            crashed.append(r)
            continue
        solver_s += r.get("solver_s", 0.0)
        f = functions.setdefault(r["function"], {"configs": [], "sha256": r.get("sha256"), "line": r.get("line"),
                                                 "dropped": r.get("dropped", []), "obligations": 0, "discharged": 0,
                                                 "paths": 0, "decorators": r.get("decorators", [])})
        f["configs"].append(r["config"])
        f["paths"] += r.get("paths", 0)
        for name, o in r["obligations"].items():
            if o["canary"]:
                canaries += 1
                if o["sat"] == o["vcs"]:
                    canaries_ok += 1
                continue
            n_obl += 1
            f["obligations"] += 1
            if o["unsat"] == o["vcs"]:
                n_dis += 1
                f["discharged"] += 1
            for b, k in o["backends"].items():
                backends[b] = backends.get(b, 0) + k
            if len(samples) < 8:
                samples.append({"obligation": name, "path_vcs": o["vcs"], "max_solver_s": round(o["max_s"], 3)})
        for u in r["undecided"]:
            undecided.append(dict(u, function=r["function"], config=r["config"]))
            if r.get("status") in ("unsupported", "missing"):
                n_obl += 1           # the whole function/config is one undecided obligation
                f["obligations"] += 1
        for x in r["refuted"]:
            refuted.append(dict(x, function=r["function"], config=r["config"]))
    return {"obligations": n_obl, "discharged": n_dis, "canaries": canaries, "canaries_refuted": canaries_ok,
            "refuted": refuted, "undecided": undecided, "crashed": crashed, "functions": functions,
            "backends": backends, "solver_s": round(solver_s, 2), "samples": samples}


def callee(contract, label=None):
    """Modular use of a contract at a call site: check `requires`, return a fresh result, assume `ensures`.
    The callee's body is verified separately against the same clauses."""
    from .values import Builtin
    name = label or contract.qualname

    def model(I, *args, **kwargs):
        cfg, st = contract.bind_call(I, args, kwargs)
        for lbl, c in contract.requires(cfg, st):
            I.path.check("%s/call:%s.requires:%s" % (I.hooks.name, name, lbl), c)
        for exc, cond in contract.raises.items():
            if I.path.branch(cond(cfg, st)):
                raise PyRaise(ExcVal(exc))
        result = contract.fresh_result(cfg, st, I.path)
        for lbl, c in contract.ensures(cfg, st, result):
            I.path.assume(c)
        return result
    return Builtin('contract:' + name, model)
