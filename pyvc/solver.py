"""Discharging verification conditions: z3 (python API, z3-solver wheel 5.1.0) first; `unknown`
is retried on /usr/bin/cvc5 and /usr/bin/z3 (4.8.12) through SMT-LIB text.  unknown on all back ends
is *undecided*, never a violation."""
import os
import shutil
import subprocess
import tempfile
import time

import z3


def _smt2(pc, goal):
    s = z3.Solver()
    for c in pc:
        s.add(c)
    s.add(z3.Not(goal))
    return s.to_smt2()


def _run_cli(cmd, text, timeout_s):
    with tempfile.NamedTemporaryFile('w', suffix='.smt2', delete=False, dir=os.environ.get('PYVC_TMP')) as f:
        f.write(text)
        fn = f.name
    try:
        r = subprocess.run(cmd + [fn], capture_output=True, text=True, timeout=timeout_s + 5)
        out = (r.stdout or '').strip().splitlines()
        return out[0].strip() if out else 'unknown'
    except subprocess.TimeoutExpired:
        return 'unknown'
    finally:
        try:
            os.unlink(fn)
        except OSError:
            pass


def discharge(pc, goal, budget_s=10.0, use_cli=True, tactic=None):
    """returns (status, backend, seconds, model) with status in unsat/sat/unknown."""
    t0 = time.time()
    s = z3.Solver() if tactic is None else z3.Then(*tactic).solver() if isinstance(tactic, (list, tuple)) \
        else z3.Tactic(tactic).solver()
    s.set('timeout', int(budget_s * 1000))
    for c in pc:
        s.add(c)
    s.add(z3.Not(goal))
    r = s.check()
    dt = time.time() - t0
    if r == z3.unsat:
        return 'unsat', 'z3-5.1.0(py)', dt, None
    if r == z3.sat:
        return 'sat', 'z3-5.1.0(py)', dt, s.model()
    reason = s.reason_unknown()
    if use_cli:
        text = _smt2(pc, goal)
        if shutil.which('cvc5'):
            t1 = time.time()
            r2 = _run_cli(['cvc5', '--tlimit=%d' % int(budget_s * 1000), '--strings-exp'], text, budget_s)
            if r2 == 'unsat':
                return 'unsat', 'cvc5-1.0.3', time.time() - t0, None
        if os.path.exists('/usr/bin/z3'):
            r3 = _run_cli(['/usr/bin/z3', '-T:%d' % max(1, int(budget_s))], text, budget_s)
            if r3 == 'unsat':
                return 'unsat', 'z3-4.8.12(cli)', time.time() - t0, None
    return 'unknown', 'z3-5.1.0(py):' + str(reason), time.time() - t0, None


def model_value(model, e):
    v = model.eval(e, model_completion=True)
    if z3.is_int_value(v):
        return v.as_long()
    if z3.is_true(v):
        return True
    if z3.is_false(v):
        return False
    if z3.is_rational_value(v):
        return float(v.numerator_as_long()) / float(v.denominator_as_long())
    if z3.is_string_value(v):
        return v.as_string()
    return str(v)
