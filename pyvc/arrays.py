"""Abstract theory of whole numpy arrays (A-NP): an array *object* is a PObj('ndarray') with identity;
its content is a z3 Array Idx -> Bool (masks) and its shape an abstract Shape value.

  a & b, a | b, a ^ b, ~a      fresh object, content = element-wise combination
  a |= b (also &=, ^=)         in place: the same object, content rewritten, flagged `written`
  a.copy()                     fresh object, same content
  np.broadcast_to(False, shp)  fresh all-False array of that shape

`borrowed` arrays are those handed out by a callee contract (they may alias a cache entry): writing
one is a frame violation, checked through the `written` flag.  Trusted: numpy implements these
element-wise semantics (listed as A-NP in every evidence file that uses this module).
"""
import z3

from .values import PObj, Builtin, Unsupported, is_z3

Idx = z3.DeclareSort('Idx')
Shape = z3.DeclareSort('Shape')
Content = z3.ArraySort(Idx, z3.BoolSort())

_p, _q = z3.Bools('p__ q__')
AND = z3.And(_p, _q).decl()
OR = z3.Or(_p, _q).decl()
XOR = z3.Xor(_p, _q).decl()
NOT = z3.Not(_p).decl()
ALL_FALSE = z3.K(Idx, z3.BoolVal(False))


class ArrayWorld:
    """keeps track of every array object created during one path"""

    def __init__(self):
        self.arrays = []

    def new(self, content, shape, borrowed=False, origin=''):
        a = PObj('ndarray', fields={'content': content, 'shape': shape, 'borrowed': borrowed, 'written': False,
                                    'origin': origin, 'content0': content})
        # whether an array is writeable / owns its memory is unknown to the code that receives it (a cache entry is an ordinary writeable array)
        a.fields['flags'] = PObj('flags', fields={k: z3.Bool('array%d_%s' % (len(self.arrays), k)) for k in ('writeable', 'owndata')})
        a.methods.update({
            '__and__': lambda I, s, o: self.binop(AND, s, o), '__or__': lambda I, s, o: self.binop(OR, s, o),
            '__xor__': lambda I, s, o: self.binop(XOR, s, o), '__invert__': lambda I, s: self.unop(s),
            '__iand__': lambda I, s, o: self.inplace(AND, s, o), '__ior__': lambda I, s, o: self.inplace(OR, s, o),
            '__ixor__': lambda I, s, o: self.inplace(XOR, s, o),
            'copy': lambda I, s: self.new(s.fields['content'], s.fields['shape'], origin='copy'),
        })
        self.arrays.append(a)
        return a

    @staticmethod
    def _is(a):
        return isinstance(a, PObj) and a.cls == 'ndarray'

    def binop(self, f, a, b):
        if not (self._is(a) and self._is(b)):
            raise Unsupported("array operator on non-arrays")
        return self.new(z3.Map(f, a.fields['content'], b.fields['content']), a.fields['shape'], origin='op')

    def unop(self, a):
        return self.new(z3.Map(NOT, a.fields['content']), a.fields['shape'], origin='op')

    def inplace(self, f, a, b):
        if not (self._is(a) and self._is(b)):
            raise Unsupported("in-place array operator on non-arrays")
        a.fields['content'] = z3.Map(f, a.fields['content'], b.fields['content'])
        a.fields['written'] = True
        return a

    def borrowed_untouched(self):
        """no array handed out by a callee (possibly a cache entry) was written through"""
        return all(not (a.fields['borrowed'] and a.fields['written']) for a in self.arrays)

    def operator_models(self):
        return {
            'operator.and_': Builtin('operator.and_', lambda I, a, b: self.binop(AND, a, b)),
            'operator.or_': Builtin('operator.or_', lambda I, a, b: self.binop(OR, a, b)),
            'operator.xor': Builtin('operator.xor', lambda I, a, b: self.binop(XOR, a, b)),
            'operator.invert': Builtin('operator.invert', lambda I, a: self.unop(a)),
        }
