"""Value domain of the symbolic executor.

Python-side (concrete structure) values hold z3 expressions as leaves:

  int / bool / None / str / float     concrete Python values
  z3.ArithRef / z3.BoolRef / other z3 symbolic leaves (Int, Real, Bool, uninterpreted sorts)
  tuple                               immutable, concrete length
  PList                               mutable list, concrete length, identity = Python identity
  PSlice                              slice(start, stop, step); fields may be OptInt
  OptInt                              "int or None" with a symbolic None-flag (only inside PSlice)
  PObj                                heap object: concrete identity, dict of fields
  SeqBox                              mutable list of unbounded length: z3 Seq in a box
  MapBox                              mutable dict: z3 Array + domain set in a box
  RangeVal                            range(start, stop, step)
  ExcVal / PType                      exception instance / class object
  PFunc / PLambda / Builtin / BoundMethod / ModRef   callables and module references
"""
import z3


class Unsupported(Exception):
    """Construct outside the executor: the obligation becomes *undecided*, never passed."""


class PathEnd(Exception):
    """The current path is deliberately terminated (after a loop-preservation check, or infeasible)."""


class PyRaise(Exception):
    def __init__(self, exc):
        Exception.__init__(self, exc.cls)
        self.exc = exc


class ExcVal:
    def __init__(self, cls, args=()):
        self.cls = cls
        self.args = tuple(args)

    def __repr__(self):
        return "%s%r" % (self.cls, self.args)


# exception hierarchy known to the executor (child -> parents)
EXC_PARENTS = {
    'IndexError': ('LookupError',), 'KeyError': ('LookupError',), 'LookupError': ('Exception',),
    'ValueError': ('Exception',), 'TypeError': ('Exception',), 'ZeroDivisionError': ('ArithmeticError',),
    'ArithmeticError': ('Exception',), 'AttributeError': ('Exception',), 'RuntimeError': ('Exception',),
    'NotImplementedError': ('RuntimeError',), 'StopIteration': ('Exception',), 'AssertionError': ('Exception',),
    'Exception': ('BaseException',), 'BaseException': (),
    'IncompatibleAttribute': ('Exception',), 'InvalidSubscriber': ('Exception',), 'InvalidMessage': ('Exception',),
    'GlueSerializeError': ('RuntimeError',), 'UndefinedROI': ('Exception',), 'IncompatibleDataException': ('Exception',),
    'ClientException': ('Exception',),   # an unspecified exception thrown by client code
}


def exc_isinstance(cls, target):
    if cls == target:
        return True
    for p in EXC_PARENTS.get(cls, ()):
        if exc_isinstance(p, target):
            return True
    return False


class PType:
    """A class object used as a value (exception classes, `int`, ...)."""

    def __init__(self, name):
        self.name = name

    def __repr__(self):
        return "<type %s>" % self.name

    def __eq__(self, other):
        return isinstance(other, PType) and other.name == self.name

    def __hash__(self):
        return hash(('PType', self.name))


class PList:
    def __init__(self, items=()):
        self.items = list(items)

    def __repr__(self):
        return "PList(%r)" % (self.items,)


class PSlice:
    def __init__(self, start, stop, step):
        self.start, self.stop, self.step = start, stop, step

    def __repr__(self):
        return "PSlice(%r, %r, %r)" % (self.start, self.stop, self.step)


class OptInt:
    def __init__(self, is_none, val):
        self.is_none, self.val = is_none, val

    def __repr__(self):
        return "OptInt(%r, %r)" % (self.is_none, self.val)


class PObj:
    def __init__(self, cls, fields=None, methods=None):
        self.cls = cls
        self.fields = dict(fields or {})
        self.methods = dict(methods or {})

    def __repr__(self):
        return "<PObj %s>" % self.cls


class SeqBox:
    """A Python list of unbounded (symbolic) length.  `expr` is a z3 Seq expression."""

    def __init__(self, expr):
        self.expr = expr

    @property
    def elem_sort(self):
        return self.expr.sort().basis()

    def __repr__(self):
        return "SeqBox(%s)" % self.expr


class MapBox:
    """A Python dict: z3 Array K->V plus a domain set K->Bool.
    kind: 'dict' | 'counter' (missing key reads 0, no insertion) | 'defaultdict'."""

    def __init__(self, arr, dom, kind='dict', default=None):
        self.arr, self.dom, self.kind, self.default = arr, dom, kind, default

    def __repr__(self):
        return "MapBox(%s)" % self.kind


class RangeVal:
    def __init__(self, start, stop, step):
        self.start, self.stop, self.step = start, stop, step


class ModRef:
    def __init__(self, name):
        self.name = name

    def __repr__(self):
        return "<module-ref %s>" % self.name


class Builtin:
    def __init__(self, name, fn):
        self.name, self.fn = name, fn

    def __repr__(self):
        return "<builtin %s>" % self.name


class BoundMethod:
    def __init__(self, obj, name):
        self.obj, self.name = obj, name


class PFunc:
    """A real function of the repository executed by walking its own AST (inlined callee)."""

    def __init__(self, ftext, globals_=None, hooks=None, self_obj=None):
        self.ftext, self.globals, self.hooks, self.self_obj = ftext, globals_, hooks, self_obj


class PLambda:
    def __init__(self, node, env):
        self.node, self.env = node, env


def is_z3(v):
    return isinstance(v, z3.ExprRef)


def is_sym(v):
    return isinstance(v, z3.ExprRef)


def is_int(v):
    return (isinstance(v, int) and not isinstance(v, bool)) or (is_z3(v) and v.sort() == z3.IntSort())


def is_num(v):
    return (isinstance(v, (int, float)) and not isinstance(v, bool)) or \
        (is_z3(v) and v.sort() in (z3.IntSort(), z3.RealSort()))


def is_boolv(v):
    return isinstance(v, bool) or (is_z3(v) and v.sort() == z3.BoolSort())
