"""Mechanical extraction of the real function text from /repo (re-read on every run).

Nothing is re-typed: the symbolic executor walks the `ast` nodes returned here.  What extraction
drops is a closed list, reported per function in the evidence (`dropped`):

  * the docstring,
  * `logging.getLogger(...).debug/info/warning(...)` expression statements,
  * `warnings.warn(...)` / `warn(...)` expression statements,
  * annotation-only statements (`x: int`),
  * the repository's own `@contract(...)` decorator (glue/core/contracts.py; a no-op unless
    PyContracts is installed, which it is not) - the decorator list is not executed at all,
    `@memoize`, `@property`, `@contextmanager`, `@x.setter` are reported as `decorators`.
"""
import ast
import hashlib
import os

REPO = os.environ.get("GLUE_REPO", "/repo")


class ExtractError(Exception):
    pass


_cache = {}


def module_ast(relpath):
    path = os.path.join(REPO, relpath)
    key = (path, os.path.getmtime(path), os.path.getsize(path))
    if key not in _cache:
        with open(path) as f:
            src = f.read()
        _cache[key] = (src, ast.parse(src, filename=path))
    return _cache[key]


def _find(body, parts, setter=False):
    name = parts[0]
    for node in body:
        if isinstance(node, (ast.FunctionDef, ast.ClassDef)) and node.name == name:
            if len(parts) == 1:
                if isinstance(node, ast.FunctionDef):
                    is_setter = any(isinstance(d, ast.Attribute) and d.attr == 'setter'
                                    for d in node.decorator_list)
                    if is_setter != setter:
                        continue
                return node
            if isinstance(node, (ast.ClassDef, ast.FunctionDef)):
                r = _find(node.body, parts[1:], setter)
                if r is not None:
                    return r
    return None


def _is_logging_call(node):
    """logging.getLogger(...).<level>(...)  or  warnings.warn(...) / warn(...)"""
    if not (isinstance(node, ast.Expr) and isinstance(node.value, ast.Call)):
        return None
    f = node.value.func
    if isinstance(f, ast.Attribute) and f.attr in ('debug', 'info', 'warning', 'error'):
        v = f.value
        if isinstance(v, ast.Call) and isinstance(v.func, ast.Attribute) and v.func.attr == 'getLogger':
            return 'logging call'
    if isinstance(f, ast.Attribute) and f.attr in ('debug', 'info', 'warning', 'error') and isinstance(f.value, ast.Name) \
            and f.value.id == 'logging':
        return 'logging call'
    if isinstance(f, ast.Attribute) and f.attr == 'warn' and isinstance(f.value, ast.Name) and f.value.id == 'warnings':
        return 'warnings.warn'
    if isinstance(f, ast.Name) and f.id == 'warn':
        return 'warn'
    return None


class FunctionText:
    """The real function: its ast node, its source segment, the hash of that segment."""

    def __init__(self, relpath, qualname):
        self.relpath = relpath
        self.qualname = qualname
        src, tree = module_ast(relpath)
        setter = False
        q = qualname
        if q.endswith('.setter'):
            setter = True
            q = q[:-len('.setter')]
        node = _find(tree.body, q.split('.'), setter)
        if node is None or not isinstance(node, ast.FunctionDef):
            raise ExtractError("function %s not found in %s" % (qualname, relpath))
        self.node = node
        self.module = tree
        self.source = ast.get_source_segment(src, node)
        self.sha256 = hashlib.sha256(self.source.encode()).hexdigest()
        self.lineno = node.lineno
        self.dropped = []
        self.decorators = [ast.unparse(d) for d in node.decorator_list]
        body = list(node.body)
        if body and isinstance(body[0], ast.Expr) and isinstance(body[0].value, ast.Constant) \
                and isinstance(body[0].value.value, str):
            self.dropped.append("docstring (line %d)" % body[0].lineno)
            body = body[1:]
        self.body = body
        for d in node.decorator_list:
            if isinstance(d, ast.Call) and isinstance(d.func, ast.Name) and d.func.id == 'contract':
                self.dropped.append("@contract decorator (line %d)" % d.lineno)
        # nested droppable statements are recorded when the executor skips them
        for sub in ast.walk(node):
            why = _is_logging_call(sub)
            if why:
                self.dropped.append("%s (line %d)" % (why, sub.lineno))
            if isinstance(sub, ast.AnnAssign) and sub.value is None:
                self.dropped.append("annotation-only statement (line %d)" % sub.lineno)

    def key(self):
        return "%s:%s" % (self.relpath, self.qualname)

    def describe(self):
        return {"function": self.key(), "line": self.lineno, "sha256": self.sha256[:16],
                "decorators": self.decorators, "dropped": self.dropped}


def is_droppable(stmt):
    return _is_logging_call(stmt) is not None or (isinstance(stmt, ast.AnnAssign) and stmt.value is None)


def class_attr(relpath, classname, attr):
    """Return the ast expression assigned to a class attribute (e.g. AndState.op)."""
    src, tree = module_ast(relpath)
    for node in tree.body:
        if isinstance(node, ast.ClassDef) and node.name == classname:
            for st in node.body:
                if isinstance(st, ast.Assign) and len(st.targets) == 1 and isinstance(st.targets[0], ast.Name) \
                        and st.targets[0].id == attr:
                    return st.value
    return None


def module_constant(relpath, name):
    src, tree = module_ast(relpath)
    for st in tree.body:
        if isinstance(st, ast.Assign) and len(st.targets) == 1 and isinstance(st.targets[0], ast.Name) \
                and st.targets[0].id == name:
            return st.value
    return None
