"""Built-in models (A-PY: CPython semantics of these built-ins; differential-tested in pyvc/selftest.py)."""
import z3

from .values import (Unsupported, PathEnd, PyRaise, ExcVal, PType, PList, PSlice, OptInt, PObj, SeqBox, MapBox,
                     RangeVal, ModRef, Builtin, BoundMethod, PFunc, PLambda, is_z3, is_int, is_num, is_boolv)
from . import spec as S


def _items(I, v):
    return I.iterate_concrete(v)


def b_len(I, v):
    if isinstance(v, PList):
        return len(v.items)
    if isinstance(v, (tuple, dict, str, list)):      # a raw Python list: harness-side field exposed to the code (read-only use)
        return len(v)
    if isinstance(v, SeqBox):
        return z3.Length(v.expr)
    if isinstance(v, RangeVal):
        return S.range_len(v.start, v.stop, v.step)
    if isinstance(v, PObj) and '__len__' in v.methods:
        return I.call(v.methods['__len__'], [v], {})
    raise Unsupported("len of %r" % (v,))


def _minmax(I, args, kwargs, is_min):
    key = kwargs.get('key')
    if len(args) == 1:
        xs = _items(I, args[0])
    else:
        xs = list(args)
    if not xs:
        if 'default' in kwargs:
            return kwargs['default']
        raise PyRaise(ExcVal('ValueError', ('empty sequence',)))
    ks = [I.call(key, [x], {}) for x in xs] if key is not None else xs
    best, bk = xs[0], ks[0]
    for x, k in zip(xs[1:], ks[1:]):
        better = (k < bk) if is_min else (k > bk)       # first extremum wins on ties
        best = I.ite(better, x, best)
        bk = S.If(better, k, bk)
    return best


def b_min(I, *args, **kwargs):
    return _minmax(I, args, kwargs, True)


def b_max(I, *args, **kwargs):
    return _minmax(I, args, kwargs, False)


def b_abs(I, v):
    if is_z3(v):
        return z3.If(v >= 0, v, -v)
    return abs(v)


def b_range(I, *args):
    if len(args) == 1:
        return RangeVal(0, args[0], 1)
    if len(args) == 2:
        return RangeVal(args[0], args[1], 1)
    if not I.path.branch(args[2] != 0):
        raise PyRaise(ExcVal('ValueError', ('range() arg 3 must not be zero',)))
    return RangeVal(*args)


def b_tuple(I, v=()):
    return tuple(_items(I, v))


def b_list(I, v=()):
    if isinstance(v, SeqBox):
        return SeqBox(v.expr)
    return PList(_items(I, v))


def b_any(I, v):
    return S.Or(*[I.truth(x) for x in _items(I, v)]) if _items(I, v) else False


def b_all(I, v):
    return S.And(*[I.truth(x) for x in _items(I, v)]) if _items(I, v) else True


def b_zip(I, *vs):
    return PList(list(zip(*[_items(I, v) for v in vs])))


def b_enumerate(I, v, start=0):
    return PList([(i + start, x) for i, x in enumerate(_items(I, v))])


def b_reversed(I, v):
    return PList(list(reversed(_items(I, v))))


def b_sum(I, v, start=0):
    r = start
    for x in _items(I, v):
        r = r + x
    return r


def b_slice(I, *args):
    if len(args) == 1:
        return PSlice(None, args[0], None)
    if len(args) == 2:
        return PSlice(args[0], args[1], None)
    return PSlice(*args)


def b_int(I, v=0):
    if is_int(v):
        return v
    if isinstance(v, bool):
        return int(v)
    if is_boolv(v):
        return z3.If(v, 1, 0)
    if is_z3(v) and v.sort() == z3.RealSort():
        # int() truncates towards zero; reals stand for floats (machine rounding not modelled)
        return z3.If(v >= 0, z3.ToInt(v), -z3.ToInt(-v))
    raise Unsupported("int() of %r" % (v,))


def b_bool(I, v=False):
    return I.truth(v)


def b_isinstance(I, v, t):
    ts = t if isinstance(t, tuple) else (t,)
    for x in ts:
        if isinstance(x, Builtin) and x.name in ('list', 'tuple', 'int', 'slice', 'bool', 'type'):
            x = PType(x.name)
        if isinstance(x, PType):
            nm = x.name
            if nm == 'int' and is_int(v):
                return True
            if nm == 'list' and isinstance(v, (PList, SeqBox)):
                return True
            if nm == 'tuple' and isinstance(v, tuple):
                return True
            if nm == 'slice' and isinstance(v, PSlice):
                return True
            if nm == 'str' and isinstance(v, str):
                return True
            if isinstance(v, PObj) and (v.cls == nm or nm in v.fields.get('__bases__', ())):
                return True
            if isinstance(v, ExcVal):
                from .values import exc_isinstance
                if exc_isinstance(v.cls, nm):
                    return True
        else:
            raise Unsupported("isinstance against %r" % (x,))
    return False


def b_set(I, v=()):
    """set(...) of concrete integers / strings only: the distinct values (as a list; callers sort or test membership)"""
    xs = _items(I, v)
    if not all(isinstance(x, (int, str)) and not isinstance(x, bool) for x in xs):
        raise Unsupported("set() of symbolic or non-scalar elements")
    out = []
    for x in xs:
        if x not in out:
            out.append(x)
    r = PList(out)
    r.is_set = True          # a concrete set: -, &, | between two of them are the set operations (iteration order: first occurrence)
    return r


def b_sorted(I, v, key=None, reverse=False):
    """Stable sort of a concrete-length list with symbolic keys: insertion network."""
    xs = _items(I, v)
    if key is None and all(isinstance(x, int) and not isinstance(x, bool) for x in xs):
        return PList(sorted(xs, reverse=bool(reverse)))
    ks = [I.call(key, [x], {}) for x in xs] if key is not None else list(xs)
    n = len(xs)
    if n <= 1:
        return PList(xs)
    if n > 4:
        raise Unsupported("sorted() of more than 4 symbolic elements")
    # rank[i] = number of elements that come before i in the stable order
    out = []
    ranks = []
    for i in range(n):
        r = 0
        for j in range(n):
            if i == j:
                continue
            if reverse:
                before = S.Or(ks[j] > ks[i], S.And(ks[j] == ks[i], j < i))
            else:
                before = S.Or(ks[j] < ks[i], S.And(ks[j] == ks[i], j < i))
            r = r + S.If(before, 1, 0)
        ranks.append(r)
    for pos in range(n):
        cur = xs[n - 1]
        for i in range(n - 2, -1, -1):
            cur = I.ite(ranks[i] == pos, xs[i], cur)
        out.append(cur)
    return PList(out)


def np_prod(I, v):
    return S.prod(_items(I, v))


def b_type(I, v):
    if isinstance(v, PObj):
        t = v.fields.get('__type__')
        if t is not None:
            return t
        return PType(v.cls)
    if isinstance(v, ExcVal):
        return PType(v.cls)
    if is_z3(v):
        return PType('type-of-%s' % v.sort())
    raise Unsupported("type() of %r" % (v,))


def b_map(I, f, *vs):
    return PList([I.call(f, list(a), {}) for a in zip(*[_items(I, v) for v in vs])])


def b_filter(I, f, v):
    out = []
    for x in _items(I, v):
        if I.path.branch(I.truth(I.call(f, [x], {}) if f is not None else x)):
            out.append(x)
    return PList(out)


def b_getattr(I, obj, name, *default):
    try:
        return I.getattr(obj, name)
    except Unsupported:
        if default:
            return default[0]
        raise


def b_id(I, v):
    """id(): an opaque number per object - equal for one object, and not the object (it keeps nothing alive, so a number stored
    in place of an object can later denote a different one: contracts that want 'the object itself' reject it)"""
    if isinstance(v, PObj):
        if '__id_token__' not in v.fields:
            v.fields['__id_token__'] = PObj('identity-number', fields={'desc': ('id-of', v.cls)})
        return v.fields['__id_token__']
    raise Unsupported("id() of %r" % (v,))


def b_setattr(I, obj, name, value):
    if isinstance(obj, PObj) and isinstance(name, str):
        if (name + '.setter') in obj.methods:
            return I.call(obj.methods[name + '.setter'], [obj, value], {})
        obj.fields[name] = value
        return None
    raise Unsupported("setattr on %r" % (obj,))


BUILTINS = {
    'setattr': Builtin('setattr', b_setattr), 'id': Builtin('id', b_id), 'len': Builtin('len', b_len), 'min': Builtin('min', b_min), 'max': Builtin('max', b_max),
    'abs': Builtin('abs', b_abs), 'range': Builtin('range', b_range), 'tuple': Builtin('tuple', b_tuple),
    'list': Builtin('list', b_list), 'any': Builtin('any', b_any), 'all': Builtin('all', b_all),
    'zip': Builtin('zip', b_zip), 'enumerate': Builtin('enumerate', b_enumerate),
    'reversed': Builtin('reversed', b_reversed), 'sum': Builtin('sum', b_sum), 'slice': Builtin('slice', b_slice),
    'int': Builtin('int', b_int), 'bool': Builtin('bool', b_bool), 'isinstance': Builtin('isinstance', b_isinstance),
    'sorted': Builtin('sorted', b_sorted), 'type': Builtin('type', b_type), 'map': Builtin('map', b_map),
    'filter': Builtin('filter', b_filter), 'getattr': Builtin('getattr', b_getattr), 'set': Builtin('set', b_set),
    'None': None, 'True': True, 'False': False, 'Ellipsis': Ellipsis,
}
for _t in ('str', 'float', 'dict', 'set', 'object', 'bytes', 'frozenset'):
    BUILTINS.setdefault(_t, PType(_t))
for _e in ('ValueError', 'TypeError', 'KeyError', 'IndexError', 'Exception', 'RuntimeError', 'AttributeError',
           'ZeroDivisionError', 'NotImplementedError', 'StopIteration', 'AssertionError', 'LookupError',
           'BaseException'):
    BUILTINS[_e] = PType(_e)

def it_count(I, start=0, step=1):
    if step != 1:
        raise Unsupported("itertools.count with a step")
    return RangeVal(start, None, 1)          # stop None: never exhausted


MODULE_ATTRS = {
    'itertools.count': Builtin('itertools.count', it_count),
    'np.prod': Builtin('np.prod', np_prod),
    'numpy.prod': Builtin('np.prod', np_prod),
}


# --------------------------------------------------------------------------------------------- methods

def call_method(I, obj, name, args, kwargs):
    P = I.path
    if (is_z3(obj) and obj.sort() == z3.StringSort()) or (isinstance(obj, str) and any(is_z3(a) for a in args)):
        sv = lambda x: x if is_z3(x) else z3.StringVal(x)
        if name == 'startswith' and len(args) == 1:
            return z3.PrefixOf(sv(args[0]), sv(obj))
        if name == 'endswith' and len(args) == 1:
            return z3.SuffixOf(sv(args[0]), sv(obj))
        raise Unsupported("string method %s" % name)
    if isinstance(obj, PObj):
        m = obj.methods.get(name)
        if m is None:
            raise Unsupported("method %s of %s is not modelled" % (name, obj.cls))
        return I.call(m, [obj] + list(args), kwargs)
    if isinstance(obj, PSlice) and name == 'indices':
        (n,) = args
        step = S._opt(obj.step, 1)
        if not P.branch(step != 0):
            raise PyRaise(ExcVal('ValueError', ('slice step cannot be zero',)))
        if not P.branch(n >= 0):
            raise PyRaise(ExcVal('ValueError', ('length should not be negative',)))
        return tuple(S.slice_indices(obj, n))
    if isinstance(obj, PList):
        if name == 'append':
            obj.items.append(args[0])
            return None
        if name == 'extend':
            obj.items.extend(_items(I, args[0]))
            return None
        if name == 'copy':
            return PList(obj.items)
        if name == 'insert' and isinstance(args[0], int):
            obj.items.insert(args[0], args[1])
            return None
        if name == 'pop':
            if not obj.items:
                raise PyRaise(ExcVal('IndexError', ('pop from empty list',)))
            if not args:
                return obj.items.pop()
            if isinstance(args[0], int):
                i = I.norm_index(args[0], len(obj.items), 'pop')
                return obj.items.pop(i)
        if name == 'clear':
            obj.items = []
            return None
        if name == 'index':
            for i, y in enumerate(obj.items):
                if P.branch(I.truth(I.equal(y, args[0]))):
                    return i
            raise PyRaise(ExcVal('ValueError', ('not in list',)))
        if name == 'remove':
            for i, y in enumerate(obj.items):
                if P.branch(I.truth(I.equal(y, args[0]))):
                    del obj.items[i]
                    return None
            raise PyRaise(ExcVal('ValueError', ('list.remove(x): x not in list',)))
        if name == 'reverse':
            obj.items.reverse()
            return None
    if isinstance(obj, SeqBox):
        n = z3.Length(obj.expr)
        if name == 'append':
            obj.expr = z3.Concat(obj.expr, z3.Unit(args[0] if is_z3(args[0]) else z3.IntVal(args[0])))
            return None
        if name == 'extend':
            other = args[0]
            if isinstance(other, SeqBox):
                obj.expr = z3.Concat(obj.expr, other.expr)
                return None
            for x in _items(I, other):
                obj.expr = z3.Concat(obj.expr, z3.Unit(x))
            return None
        if name == 'pop':
            if args and isinstance(args[0], int) and args[0] == 0:
                if not P.branch(n > 0):
                    raise PyRaise(ExcVal('IndexError', ('pop from empty list',)))
                first = obj.expr[0]
                x = P.fresh('popped', obj.elem_sort)
                P.assume(x == first)
                obj.expr = z3.SubSeq(obj.expr, z3.IntVal(1), n - 1)
                return x
            if args:
                raise Unsupported("pop(i) on unbounded list")
            if not P.branch(n > 0):
                raise PyRaise(ExcVal('IndexError', ('pop from empty list',)))
            last = obj.expr[n - 1]
            # name the popped element so later formulas stay small
            x = P.fresh('popped', obj.elem_sort)
            P.assume(x == last)
            obj.expr = z3.SubSeq(obj.expr, z3.IntVal(0), n - 1)
            return x
        if name == 'clear':
            obj.expr = z3.Empty(obj.expr.sort())
            return None
        if name == 'copy':
            return SeqBox(obj.expr)
        if name == 'insert' and args[0] == 0:
            obj.expr = z3.Concat(z3.Unit(args[1]), obj.expr)
            return None
    if isinstance(obj, MapBox):
        if name == 'get':
            k = args[0]
            d = args[1] if len(args) > 1 else None
            present = z3.Select(obj.dom, k)
            if d is None:
                if P.branch(present):
                    return z3.Select(obj.arr, k)
                return None
            return z3.If(present, z3.Select(obj.arr, k), d)
        if name == 'pop':
            k = args[0]
            present = z3.Select(obj.dom, k)
            if P.branch(present):
                v = z3.Select(obj.arr, k)
                obj.dom = z3.Store(obj.dom, k, z3.BoolVal(False))
                return v
            if len(args) > 1:
                return args[1]
            raise PyRaise(ExcVal('KeyError'))
        if name == 'clear':
            obj.dom = z3.K(obj.dom.sort().domain(), z3.BoolVal(False))
            return None
    if isinstance(obj, dict):
        if name == 'get':
            return obj.get(args[0], args[1] if len(args) > 1 else None)
        if name == 'items':
            return PList([(k, v) for k, v in obj.items()])
        if name == 'keys':
            return PList(list(obj.keys()))
        if name == 'values':
            return PList(list(obj.values()))
        if name == 'pop':
            if args[0] in obj:
                return obj.pop(args[0])
            if len(args) > 1:
                return args[1]
            raise PyRaise(ExcVal('KeyError'))
        if name == 'setdefault':
            return obj.setdefault(args[0], args[1] if len(args) > 1 else None)
        if name == 'copy':
            return dict(obj)
    if isinstance(obj, tuple):
        if name == 'index':
            for i, y in enumerate(obj):
                if P.branch(I.truth(I.equal(y, args[0]))):
                    return i
            raise PyRaise(ExcVal('ValueError'))
    if isinstance(obj, str):
        if name == 'format':
            return obj
    raise Unsupported("method %s on %s" % (name, type(obj).__name__))
