"""C13 - undo restores the previous session state and redo restores the undone one."""
PROPERTY = 'C13'
THOROUGH_SEEDS = 1      # the thorough enumeration of this driver is already minutes long
LEVEL = 'proof'
DEDUCTIVE = ['contracts.c13_command']
BUDGET_S = {'quick': 30.0, 'thorough': 90.0}
MIN_OBLIGATIONS = {'quick': 100, 'thorough': 100}
BOUNDED_FLOOR = {'quick': 500, 'thorough': 2000}
CONFIG_NOTE = {'quick': "CommandStack: history and redo history of unbounded symbolic length (requires len <= MAX_UNDO), arbitrary commands; "
                        "ApplySubsetState/ApplyROI do+undo: finite-universe heap, 1-2 datasets x 0-1 existing groups x (update creates a group or not)",
               'thorough': "same"}
TRUSTED_BASE = [
    "commands are external code: cmd.do/cmd.undo have the contract 'some effect on the session' recorded in a ghost trace; they do not re-enter the command stack",
    "model of the collection API used by ApplySubsetState/ApplyROI (subset_groups, remove_subset_group, Subset.delete, edit_subset property) - these functions are under their own contracts in C06",
    "z3 sequence theory (z3 5.1.0), the VC generator (pyvc)",
]
ASSUMPTIONS = [
    "an exception raised by cmd.do leaves the command on the history (corner the statement does not settle; not flagged)",
    "the position of a dataset re-appended by RemoveData.undo is not compared (the statement does not mention order)",
]


def bounded(tier, seed, R):
    from bounded import c13_command
    c13_command.run(tier, seed, R)


MANIFEST_ENTRY = {
    "level": "proof",
    "technique": "contract-based deductive verification of CommandStack and the command classes (pyvc: z3 sequences for the unbounded stacks, ghost trace, finite-universe heap for do+undo pairs); bounded do/undo/redo sequences on a real Session",
    "text": "CommandStack.do/undo/redo/can_undo_redo/undo_label/redo_label are proved for histories of any length: do executes once, appends, truncates to the last MAX_UNDO in order, clears redo; undo/redo move exactly the last "
            "command between the stacks, call it once, and raise IndexError changing nothing when empty. AddData/RemoveData are proved to be one append/remove. ApplySubsetState/ApplyROI: do, an arbitrary application (may create a group), "
            "undo restores groups, each dataset's subsets, all selections, the edit subset and the group counter (finite-universe heap). Real command sequences up to a length bound are a bounded stand-in.",
    "note": "Trusted: external commands do not re-enter the stack; collection API model for the Apply* commands (2 datasets, 1 group); z3 sequences. The equivalence 'snapshot after undo == snapshot before do' on real sessions is bounded (length <= 4/5).",
}
