"""C10 - statistics and histograms equal their definition regardless of chunking or views."""
PROPERTY = 'C10'
THOROUGH_SEEDS = 2      # the thorough enumeration of this driver is already minutes long
LEVEL = 'exploration'
DEDUCTIVE = ['contracts.c10_stats', 'contracts.c20_array', 'contracts.c01_frames']
BUDGET_S = {'quick': 200.0, 'thorough': 600.0}
MIN_OBLIGATIONS = {'quick': 1500, 'thorough': 1500}
BOUNDED_FLOOR = {'quick': 10000, 'thorough': 30000}
CONFIG_NOTE = {'quick': "chunked path of Data.compute_statistic for ranks 2-4, every kept axis, with and without a selection; extents, size, chunk limit and the observed index symbolic; "
                        "iterate_chunks / find_chunk_shape / combine_slices: the C20 contracts; selection path of Data.compute_statistic for 15 view shapes (None, slices, integers, short tuples, stepped slices; ranks 1-3) x axis "
                        "choices x something / nothing selected, with symbolic extents, slice bounds, integer indices and bounding box", 'thorough': "same, rank 4 chunking with every kept axis, every axis choice for rank-3 views"}
TRUSTED_BASE = [
    "the recursive (non-chunked) compute_statistic call is specified, not proved: on a view that covers the reduced axes entirely and [a, b) on the kept axis it returns the b-a row statistics ROW(a..b-1) (bounded stand-in)",
    "np.zeros(n) is an array of n entries; result[a:b] = values needs b-a == len(values) (numpy assignment), represented point-wise at an arbitrary index",
    "selection path: arrays are opaque tokens; the mask has the shape of the viewed array (contract of to_mask, C04) and its bounding box is any box 0 <= lo < hi <= extent per axis "
    "(np.any / np.where / np.min / np.max on the projected mask); get_data, the reducer utils.compute_statistic and np.full / item assignment record their arguments",
    "float division and int() over mathematical reals (machine rounding not modelled); data.size is only known to exceed n_chunk_max (it is not tied to the product of the extents)",
    "the VC generator (pyvc) and z3 5.1.0",
]
ASSUMPTIONS = [
    "utils.compute_statistic (numpy nan-reducers) and compute_histogram (numpy boolean indexing, fast_histogram) are numpy code out of reach of the VC generator: bounded stand-in only, never counted as proved; "
    "of the minimal-subarray / view recombination / padding code the index bookkeeping is proved, what numpy does with those indices is swept",
    "views of zero elements are not generated (no documented shape); with finite=False both NaN-ignoring and NaN-propagating results are accepted and cells whose qualifying values contain an infinity are not compared for mean/median/percentile/sum",
    "histogram cases in which a data value lies within 1e-7 bin widths of an interior bin edge are not generated",
]


def bounded(tier, seed, R):
    from bounded import c10_stats
    c10_stats.run(tier, seed, R)


MANIFEST_ENTRY = {
    "level": "exploration",
    "technique": "contract-based deductive verification of the chunk loop of Data.compute_statistic against the iterate_chunks contract (pyvc + z3, modular: abstract generator with per-yield and exhaustion postconditions) "
                 "and of the index bookkeeping of its selection path (bounding box, view recombination, padding; arrays as opaque tokens, slice arithmetic symbolic); "
                 "bounded differential sweep of compute_statistic / compute_histogram and of the profile / histogram layer states against an independent textbook reference",
    "text": "Proved for every view made of slices, integers and missing trailing entries (ranks 1-3, all bounds and extents): with a selection the mask is cut to its bounding box, the values are fetched on exactly that box "
            "of the viewed array (normalised view start + box; integers kept), the reducer receives both with the caller's axis and filters, the reduced result is placed at the box in a NaN array of the reduced shape of the viewed "
            "array (returned as is when no axis is given), stepped views are reduced whole, and an empty selection gives NaN of the reduced shape. Proved for ranks 2-4 and all extents, sizes and chunk limits: the chunk shape given to iterate_chunks is admissible and whole on the reduced axes, every recursive call gets a view covering the reduced axes entirely with the "
            "same statistic arguments, every assignment into the result is in range and of matching length, and every entry of the result is the statistic of its row (given the contract of the unchunked call). iterate_chunks itself "
            "is proved in C20. Everything numpy-based (reducers, minimal sub-array, view recombination, padding, histograms, viewer layers) is explored only: shapes to 4-d, every axis subset, a view catalogue, 13 selection kinds, "
            "filters, chunk limits from 1 up, ranges/bins/log/weights for histograms.",
    "note": "Level is exploration because the end-to-end statement rests on numpy code that is only swept, not proved. Trusted: contract of the unchunked call, np.zeros / slice assignment model, real arithmetic for floats.",
}

MANIFEST_ENTRY['text'] += ' The statistic kernel glue/utils/array.py:compute_statistic is proved to apply the requested (NaN-ignoring when filtered) function to the values restricted to a fresh keep = [finite] & [positive] & [mask], with neither array handed in written.'
TRUSTED_BASE.append('statistic kernel contract: numpy calls are provenance-recording stubs (see C01); what the numpy reducers compute is explored by the bounded sweep')
