"""C09 - a drawn region becomes a selection of exactly the points the region contains."""
PROPERTY = 'C09'
LEVEL = 'proof'
DEDUCTIVE = ['contracts.c09_roi2state', 'contracts.c08_roi']
BUDGET_S = {'quick': 120.0, 'thorough': 300.0}
MIN_OBLIGATIONS = {'quick': 50, 'thorough': 50}
BOUNDED_FLOOR = {'quick': 500, 'thorough': 500}
CONFIG_NOTE = {'quick': "from_range: real bounds and the integer category position symbolic; roi_to_subset_state: every (region kind, axis kinds) pair of the range / rectangle / categorical / "
                        "numeric paths; region containment itself: the C08 contracts", 'thorough': "same"}
TRUSTED_BASE = [
    "np.ceil(v) = the integer c with c-1 < v <= c; np.intp mathematical (A-INT); slicing per the slice.indices model",
    "contracts of the selection classes built by the dispatch (RangeSubsetState = closed range on the attribute, CategoricalROISubsetState = membership in the region's categories, "
    "AndState = conjunction (C01), RoiSubsetState = region.contains on the two attributes (C08))",
    "the VC generator (pyvc) and z3 5.1.0",
]
ASSUMPTIONS = [
    "polygon-like regions over categorical axes (per-category np.arange/np.repeat/contains loops, polygon_line_intersections, CategoricalROISubsetState2D / CategoricalMultiRangeSubsetState.to_mask) are numpy code: bounded stand-in only",
    "RangeSubsetState is inclusive while RangeROI.contains is strict: they differ only on the boundary band, which the property excludes",
    "boundary band = 1e-6, except for circles / ellipses / annuli over a categorical axis, which glue evaluates through their 100-vertex polygon: band = 6e-4 x radius (the polygon's sagitta)",
]


def bounded(tier, seed, R):
    from bounded import c09_roi2state
    c09_roi2state.run(tier, seed, R)


MANIFEST_ENTRY = {
    "level": "proof",
    "technique": "contract-based deductive verification of CategoricalROI.from_range (ceil arithmetic over reals and integer positions) and of the roi_to_subset_state dispatch (pyvc + z3), on top of the C08 containment contracts; bounded sweep of all region kinds over category positions and orderings",
    "text": "CategoricalROI.from_range is proved for all real bounds: the category at integer position k is selected iff lo <= k < hi, with negative bounds clamped. roi_to_subset_state is proved, per (region kind, axis kinds), to build the prescribed selection "
            "class from the region's own parameters and the right attribute (ranges, unrotated rectangle on categorical axes as the and of two range conversions, categorical regions, region selections on numeric axes). Containment of the closed-form regions "
            "is the C08 proof. Polygon-like regions over categorical axes and all end-to-end masks are swept over every region kind, category position, category set/order and axis-kind combination (bounded).",
    "note": "Trusted: ceil/intp models, contracts of the selection classes produced by the dispatch, C08's trusted base. Polygon x categorical paths are bounded only.",
}
