"""C11 - key joins propagate selections by key membership, in all four join shapes."""
PROPERTY = 'C11'
LEVEL = 'proof'
DEDUCTIVE = ['contracts.c11_joins']
BUDGET_S = {'quick': 20.0, 'thorough': 60.0}
MIN_OBLIGATIONS = {'quick': 90, 'thorough': 90}
BOUNDED_FLOOR = {'quick': 200, 'thorough': 200}
CONFIG_NOTE = {'quick': "key tuples of 1-3 columns per side (all four shapes + the invalid m-n case), other datasets ok / on the recursion stack / incompatible / absent; "
                        "arrays are abstract descriptor terms, row counts and key values unbounded", 'thorough': "same"}
TRUSTED_BASE = [
    "A-NP: np.isin(a, b)[i] <=> a[i] equals (by value) some element of b; |= accumulates; reshape/ravel keep element order",
    "concatenate_arrays (byte concatenation of key columns equals tuple equality once both sides share a dtype) is numpy dtype code: bounded stand-in only",
    "Data.get_mask of the other dataset returns its mask of the selection or raises IncompatibleAttribute (its own contract, C01)",
    "the executor (pyvc); obligations are structural equations decided by evaluation",
]
ASSUMPTIONS = [
    "termination on cyclic joins is checked by the bounded stand-in (cycles of 2-4 datasets), not by a decreases clause",
]


def bounded(tier, seed, R):
    from bounded import c11_joins
    c11_joins.run(tier, seed, R)


MANIFEST_ENTRY = {
    "level": "proof",
    "technique": "contract-based verification of get_mask_with_key_joins / join_on_key on abstract array descriptors (pyvc; structural postconditions per join shape, recursion guard on every exit); bounded by-value oracle over dtypes, views, chains and cycles",
    "text": "For each join shape the returned mask is proved to be the statement's key-membership formula over the rows selected in the other dataset (1-1, n-n column-paired, 1-n and n-1 as unions), with the left keys taken under the "
            "requested view and the right keys under the selection mask; the recursion guard is proved set during the recursive question and cleared on every exit, guarded datasets are skipped, and IncompatibleAttribute is raised when nothing "
            "is evaluable. join_on_key is proved to register both directions with swapped tuples. Storage dtypes, string widths, NaN, duplicates, views, chains and cycles are compared with a naive by-value oracle (bounded).",
    "note": "Trusted: np.isin by-value semantics, other datasets' get_mask contract. concatenate_arrays and dtype handling are bounded. Known finding: n-n joins match NaN keys with NaN keys (raw bytes).",
}
