"""C06 - every dataset in a collection carries exactly one subset per subset group."""
PROPERTY = 'C06'
THOROUGH_SEEDS = 1      # the thorough enumeration of this driver is already minutes long
LEVEL = 'proof'
DEDUCTIVE = ['contracts.c06_groups', 'contracts.c06_commands']
BUDGET_S = {'quick': 20.0, 'thorough': 60.0}
MIN_OBLIGATIONS = {'quick': 1000, 'thorough': 1000}
BOUNDED_FLOOR = {'quick': 1000, 'thorough': 5000}
CONFIG_NOTE = {'quick': "finite universe: 3 datasets (all 8 membership configurations) x 0..2 live groups x every argument choice; the real function text is "
                        "executed on an abstract heap against callee contracts (hub = its C07 contract); obligations are decided by evaluation, exhaustively over this universe",
               'thorough': "same universe"}
TRUSTED_BASE = [
    "finite universe (3 datasets, 2 groups): the per-operation obligations are exhaustive over it, not unbounded",
    "callee contracts used on the abstract heap: Hub (C07 contract: synchronous delivery, delay block queues and flushes), BaseData.add_subset (idempotent attach), "
    "Subset.delete (detach), GroupedSubset constructor, Registry.unregister (no effect on the heap)",
    "the executor (pyvc); no SMT reasoning is needed for these obligations (back end: evaluation)",
]
ASSUMPTIONS = [
    "DataCollection.merge and the Pointer properties of GroupedSubset (shared selection/label/style) are covered by the bounded histories on real objects only",
    "a removed group may keep listing its (detached) subsets: the statement's 'no live membership' is read as 'no subset attached to a member dataset and no subscription'",
]


def bounded(tier, seed, R):
    from bounded import c06_groups
    c06_groups.run(tier, seed, R)


MANIFEST_ENTRY = {
    "level": "proof",
    "technique": "contract-based verification on a finite-universe abstract heap: the real functions are executed by the symbolic executor against callee contracts and WF is evaluated after each, exhaustively over all membership configurations; bounded WF histories on real collections",
    "text": "SubsetGroup._add_data/_remove_data/register/register_to_hub and DataCollection.append/remove/new_subset_group/remove_subset_group/clear each carry a contract 'requires WF ensures WF + the view update'. "
            "The obligations are generated from the function text in /repo on every run and decided by evaluation on an abstract heap for every configuration of a finite universe (3 datasets, 0-2 groups); "
            "they are exhaustive for that universe, not unbounded - stated as such. Histories on real collections (append/remove/groups/merge/undo/redo/delay blocks/save-restore) with WF after every step are the bounded stand-in.",
    "note": "Finite universe, callee contracts for hub/add_subset/delete, executor trusted. The unbounded claim (any number of datasets and groups) is NOT made; merge and pointer properties are bounded only.",
}

MANIFEST_ENTRY['text'] += ' ApplySubsetState / ApplyROI do+undo are proved to leave the registry symmetric, also when a pre-existing group was removed between do and undo.'
TRUSTED_BASE.append('command contracts (shared with C13): finite heap model of the collection API (<= 2 datasets, <= 2 pre-existing groups, the applied update may create one group)')
