"""C02 - a saved session restores to an observationally equivalent session."""
PROPERTY = 'C02'
LEVEL = 'exploration'
DEDUCTIVE = ['contracts.c02_serializer', 'contracts.c12_state', 'contracts.c02_pairs']
BUDGET_S = {'quick': 200.0, 'thorough': 600.0}
MIN_OBLIGATIONS = {'quick': 30, 'thorough': 30}
BOUNDED_FLOOR = {'quick': 250, 'thorough': 500}
CONFIG_NOTE = {'quick': "naming registry of GlueSerializer (_disambiguate, _label, id) over z3 strings and an uninterpreted object sort; saver / loader dispatch and do(): the C12 contracts", 'thorough': "same"}
TRUSTED_BASE = [
    "id() is injective on live objects (the serializer keeps every registered object alive in _objs): objects are represented by their identity",
    "'%s_%i' % (name, i) = name ++ '_' ++ str.from_int(i) for i >= 0; str.startswith = prefix; dict membership / item assignment per the map model",
    "the registry invariant is instantiated by hand at an arbitrary name and an arbitrary object (both directions), not quantified",
    "termination of the numbering loop in _disambiguate is not proved",
    "the VC generator (pyvc) and z3 5.1.0 (sequence theory for strings)",
]
ASSUMPTIONS = [
    "the per-class savers / loaders (__gluestate__ / __setgluestate__ pairs, _save_data_*, _load_data_*, LoadLog) build numpy arrays, astropy objects and glue objects: out of reach of the VC generator; "
    "the end-to-end statement is decided by the bounded round-trip sweep only (never counted as proved)",
    "a save that raises is accepted as 'fails loudly'; metadata is compared through repr of the values",
    "attributes of the same dataset that the link manager lists as externally derivable (targets of the dataset's own derived-component links) are not compared as 'accessible linked attributes'",
]


def bounded(tier, seed, R):
    from bounded import c02_session
    c02_session.run(tier, seed, R)


MANIFEST_ENTRY = {
    "level": "exploration",
    "technique": "contract-based deductive verification of the serializer's naming registry and dispatch (pyvc + z3 strings / uninterpreted objects); bounded save-load-compare sweep over every selection, region, link and coordinate "
                 "class found by introspection, component kinds, labels, styles, metadata, key joins and file-backed datasets, with idempotence",
    "text": "Proved: GlueSerializer.id gives a new object a name that was free, records it in both directions and changes nothing else, gives a known object its existing name, keeps the name<->object registry a bijection, and never hands "
            "out a name that is read back as a string literal; _disambiguate / _label return free admissible names; saver and loader dispatch pick the saver of the first class in the MRO and the loader of exactly the recorded "
            "version (C12 contracts). The observational equivalence of restored sessions is explored: one collection per class of the introspected universe and per variant, random composition trees, link helpers, join shapes, "
            "coordinates, component/label/style/metadata variants through GlueSerializer and Application.save_session, include_data on and off, each saved twice.",
    "note": "Level is exploration: the statement quantifies over per-class savers that are numpy/astropy code. Known findings are listed in known_findings.json.",
}
MANIFEST_ENTRY['text'] += (" Twenty-three saver / loader pairs (plain subsets, element and 3-d region selections; the four closed-form regions and the range regions of glue/core/roi.py; in glue/core/state.py: range, region, n-d region, inequality and composite selections, slices, lists, styles; the __gluestate__ / __setgluestate__ methods of seven selection classes in glue/core/subset.py) are proved to be inverse of one another: "
                           "the real saver is run on an object with opaque field values and the real loader on the record it returned, with the serialization context abstracted to id / object as "
                           "inverse functions; the loader must hand the constructor exactly the saved values (by identity, so falsy values are not swapped for defaults) in the right positions.")
TRUSTED_BASE.append("saver/loader pair contracts: context.id / context.object are inverse functions, context.do an inline record; class constructors are stubs recording their arguments; "
                    "pairs that go through numpy, astropy or matplotlib (arrays, components, units, coordinates, Data itself) are decided by the bounded round trips only")
