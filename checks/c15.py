"""C15 - world coordinates, their links and inverses agree with the coordinate object."""
PROPERTY = 'C15'
LEVEL = 'exploration'
DEDUCTIVE = ['contracts.c15_coords']
BUDGET_S = {'quick': 120.0, 'thorough': 300.0}
MIN_OBLIGATIONS = {'quick': 3000, 'thorough': 3000}
BOUNDED_FLOOR = {'quick': 5000, 'thorough': 20000}
CONFIG_NOTE = {'quick': "pixel2world_single_axis / world2pixel_single_axis for 1-3 inputs and every requested axis, values point-wise symbolic; CoordinateComponentLink.using for ndim 1-3, every index, every "
                        "non-empty from_needed subset, both directions; CoordinateComponent._calculate for 19 view shapes (slices with steps 1, 2, -1, integers, short tuples, bare slice / integer; ranks 1-3) x world axis, "
                        "bounds, indices, extents and the observed output position symbolic", 'thorough': "same"}
TRUSTED_BASE = [
    "numpy facts: unbroadcast(a) re-broadcast equals a; broadcast_arrays / broadcast_to / ravel / reshape keep the value at corresponding elements; a.flat[0] is the first element (arrays are represented by their value at an arbitrary element and at the first element)",
    "contract of the coordinate object: component k of the transformation does not depend on inputs its correlation matrix marks as unrelated (instantiated at the shortcut's point and the true point); "
    "for the inverse the set of needed world axes is the result of _connected_axes, which is under its own contract (proved for every matrix size up to 4x4 / 6x6 with symbolic entries: the least closed set of axes containing the requested one)",
    "_connected_axes contract: numpy facts - zeros(n, bool) is all False; v[list] = True sets those entries; m[:, p].any(axis=1)[w] <=> some j has p[j] and m[w, j]; m[w, :].any(axis=0)[j] <=> some i has w[i] and m[i, j]; "
    "| and == are element-wise; np.all is the conjunction; np.asarray(m, dtype=bool) keeps the truth value of every entry",
    "dependent_axes contract: m[::-1, ::-1][i, j] = m[nw-1-i, np-1-j]; np.nonzero(v)[0] are the indices of the True entries in increasing order; set | set is the union; sorted() gives increasing order; "
    "CPython iterates a set of non-negative integers below 8 in increasing order (so a body without sorted() is not reported); _connected_axes is used through its proved contract (contains the starting axes, closed)",
    "_calculate: np.arange(n) and its indexing are index sequences start + step * position (slice.indices arithmetic); np.meshgrid(indexing='ij') gives grid i the value of input i along axis i; "
    "indexing the converted array with 0 / slice(None) removes / keeps an axis; np.broadcast_to fixes the shape; the world axis is a function of the pixel axes in dependent_axes only (built into the model)",
    "link construction contracts: the base constructor ComponentLink.__init__ (called through super()) and the class CoordinateComponentLink (called by _set_up_coordinate_component_links) are stubs that record their arguments; "
    "dependent_axes is used through its contract (any non-empty subset of the axes)",
    "the VC generator (pyvc) and z3 5.1.0",
]
ASSUMPTIONS = [
    "AffineCoordinates (np.matmul), CoordinateComponent._calculate for views with index arrays, masks or Ellipsis (fancy indexing of the full grid), astropy WCS and the link evaluation machinery are numpy code out of reach of the VC generator: bounded stand-in only",
    "world->pixel links are compared within 1e-9 relative tolerance and skipped for the degenerate 1e-17-step matrices (ill-conditioned inverse)",
]


def bounded(tier, seed, R):
    from bounded import c15_coords
    c15_coords.run(tier, seed, R)


MANIFEST_ENTRY = {
    "level": "exploration",
    "technique": "contract-based deductive verification of CoordinateComponent._calculate for integer / slice views (index sequences, symbolic slice arithmetic), of the single-axis shortcuts and of the link's argument placement (pyvc + z3, arrays point-wise); _connected_axes proved with an inductive loop contract (least closed set of axes, termination by a variant) for every matrix size up to 4x4 (6x6 thorough) with symbolic entries; exhaustive evaluation of dependent_axes on all boolean correlation "
                 "matrices up to 3x3 (4x4 thorough); bounded sweep of world attributes and pixel<->world links against the matrix applied to the pixel grid",
    "text": "Proved for views made of integers and slices (steps 1, 2, -1, negative bounds, short tuples): the world attribute at output position q is the world coordinate of the pixel the view selects there "
            "(slice start + step * q; negative integers counted from the end), with the shape of the view. Proved for 1-3 axes: pixel2world_single_axis and world2pixel_single_axis call the transformation once with every axis, each input being the array or its first element, and return the requested component at the "
            "given inputs in the input shape, given that the correlation information is sound; CoordinateComponentLink.using places supplied arguments by from_needed, fills the other axes with the broadcast default world "
            "coordinate, reverses to (x, y, z) order and asks for axis ndim-1-index. _connected_axes - the search that decides which axes a shortcut may drop - is proved to return exactly the axes connected to the requested ones (contains them, closed under the correlation matrix, inside every closed superset) and to terminate, for symbolic matrices of every size up to 4x4 (6x6 thorough), rectangular ones included; dependent_axes is proved, against that contract, to hand over the matrix in numpy order on both sides, to start from the pixel and the world axis with the given index and to return the increasing tuple of the axes marked on either side. CoordinateComponentLink.__init__ is proved to take as inputs the identifiers at exactly the positions dependent_axes returns (the tuple using() later places arguments by) and Data._set_up_coordinate_component_links to create, per axis, the pixel->world and the world->pixel link with the right identifiers, index and direction on the dataset's coordinate object. dependent_axes is also evaluated on every boolean matrix (complete up to the stated size). World attributes, both link directions and the "
            "inverse are swept over an affine catalogue (diagonal, coupled, triangular, all permutations, rotations, block, chain), identity and WCS coordinates x a view catalogue.",
    "note": "Level is exploration: the end-to-end statement depends on numpy code (matmul, meshgrid, indexing) that is only swept.",
}

CONFIG_NOTE = {k: v + ("; _connected_axes for every matrix size n_world x n_pixel up to %s, every requested axis, started from the pixel axis, the world axis or both, all entries symbolic; "
                       "dependent_axes for the same sizes and axes plus legacy coordinates; CoordinateComponentLink.__init__ for ndim 1-3 x index x every non-empty needed subset x direction given / defaulted; "
                       "_set_up_coordinate_component_links for 0-4 axes with and without a coordinate object" % ('4x4' if k == 'quick' else '6x6')) for k, v in CONFIG_NOTE.items()}
CONFIG_NOTE['thorough'] = CONFIG_NOTE['thorough'].replace('same;', 'as quick;', 1)
