"""C12 - every serialisation protocol version ever registered still loads what it saved."""
PROPERTY = 'C12'
LEVEL = 'proof'
DEDUCTIVE = ['contracts.c12_state']
BUDGET_S = {'quick': 20.0, 'thorough': 60.0}
MIN_OBLIGATIONS = {'quick': 60, 'thorough': 60}
BOUNDED_FLOOR = {'quick': 200, 'thorough': 200}
CONFIG_NOTE = {'quick': "VersionedDict: arbitrary table contents, items, versions; dispatch functions: MRO length 1..4 (savers) / 1..3 (loaders), "
                        "registry contents symbolic", 'thorough': "same"}
TRUSTED_BASE = [
    "model of defaultdict(dict)/dict (two-level z3 arrays; a missing key read through the defaultdict inserts an empty entry)",
    "max() over dict keys specified as 'largest present key' (instantiated at the needed terms)",
    "quantifier instantiation by hand: VI assumed at finitely many version terms, proved at one arbitrary version and item",
    "lookup_class (importlib) and the ranking function of the rename table: the per-row obligation rank(after) < rank(before) is discharged on the real table by evaluation ([E])",
    "the VC generator (pyvc) and z3 5.1.0",
]
ASSUMPTIONS = [
    "VersionedDict.get_version on an unknown key leaves an empty entry in the defaultdict (observed, allowed by the contract: values and version sets are unchanged); "
    "__getitem__/__contains__ contracts require 'no empty entry', which __setitem__ preserves",
    "old-format round trips ([B]) use one generated sample collection per (join, coords) variant; object generators are those of C02",
]


def bounded(tier, seed, R):
    from bounded import c12_state
    c12_state.run(tier, seed, R)


MANIFEST_ENTRY = {
    "level": "proof",
    "technique": "contract-based deductive verification of VersionedDict and the dispatch functions (pyvc + z3), exhaustive evaluation over the registries and the rename table, bounded old-format round trips",
    "text": "VersionedDict.__setitem__/__getitem__/get_version/__contains__/__delitem__ are proved against the representation invariant 'versions of every item are exactly 1..n' with a whole-map frame "
            "(consecutive from 1, never overwritten, a rejected assignment changes nothing). GlueSerializer._dispatch/do are proved to stamp the newest version, GlueUnSerializer._dispatch to select the loader "
            "of exactly the recorded protocol, lookup_class_with_patches to terminate under a ranking function whose per-row obligations are evaluated on the real 89-row table ([E]), together with importability and "
            "'captures a live class' per row. Old-format round trips for every (Data, DataCollection) version pair are a bounded stand-in.",
    "note": "Trusted: dict/defaultdict model, max-over-keys spec, hand instantiation of the invariant, importlib. [E] parts are evaluations on the current tree. Old-format equivalence is bounded (one sample collection, 4 variants x 20 version pairs).",
}

MANIFEST_ENTRY['text'] += ' registry.disable (wrapped around the recursive GlueUnSerializer.object) is proved to switch label disambiguation off for the call and to put the flag back as it found it, on return and on exceptions.'
TRUSTED_BASE.append('registry.disable contract: Registry() is the process-wide singleton; the wrapped function is any function (may raise)')
