"""C16 - a fixed-resolution buffer equals nearest-pixel resampling through the links; a cache id never changes a result."""
PROPERTY = 'C16'
LEVEL = 'exploration'
DEDUCTIVE = ['contracts.c16_frb']
BUDGET_S = {'quick': 120.0, 'thorough': 300.0}
MIN_OBLIGATIONS = {'quick': 800, 'thorough': 800}
BOUNDED_FLOOR = {'quick': 1500, 'thorough': 8000}
CONFIG_NOTE = {'quick': "AnyScalar.__eq__, bounds_for_cache for 1-3 axes (scalar-ness and contribution symbolic), translate_pixel per case (pixel attribute, stored/derived, world, unknown, links with 0-3 inputs, nested link) "
                        "with the real function re-entered for the recursion; compute_fixed_resolution_buffer walked from its first statement for 24 cache situations (no cache id / array-cache hit / array cache for another "
                        "request / per-axis entries matching, stale or absent per source axis / per-axis cache built for another dataset pair with and without an array-cache entry) x scalar and ranged bounds x values and masks",
               'thorough': "same, bounds_for_cache up to 4 axes"}
TRUSTED_BASE = [
    "np.isscalar as a predicate on bounds; Python list equality compares element-wise with the left operand's __eq__ (the wildcard is always on the cached, left side)",
    "contracts of the callees of translate_pixel: data._get_external_link, component._calculate, dependent_axes (C15), link._using, broadcast_arrays_minimal, np.broadcast_to are opaque operations recorded by the harness",
    "in the cache-protocol contract every numpy step of compute_fixed_resolution_buffer (linspace, meshgrid, round, unbroadcast, comparisons, |, masked assignment, broadcast_to, get_data / get_mask, astype, indexing) is an "
    "opaque operation that records its operands (provenance terms); translate_pixel and bounds_for_cache are used through their own contracts / real text; np.any is an arbitrary boolean",
    "the VC generator (pyvc) and z3 5.1.0",
]
ASSUMPTIONS = [
    "what the numpy steps of compute_fixed_resolution_buffer compute (rounding to the nearest pixel, the bounds check, fancy indexing) is out of reach of the VC generator: the nearest-pixel definition, and that a key match "
    "implies an equal result (a scalar bound on a non-contributing axis does not influence the buffer), are bounded stand-ins, never counted as proved",
    "request histories do not change data values, selections objects or links between requests (the property is stated for unchanged data); samples within 1e-6 of a half pixel are not compared",
]


def bounded(tier, seed, R):
    from bounded import c16_frb
    c16_frb.run(tier, seed, R)


MANIFEST_ENTRY = {
    "level": "exploration",
    "technique": "contract-based deductive verification of the cache protocol of compute_fixed_resolution_buffer (real function, numpy steps as provenance-recording opaque operations), of the cache-key helpers and of "
                 "translate_pixel (pyvc + z3, real function re-entered for the recursion); bounded differential sweep of compute_fixed_resolution_buffer "
                 "against nearest-pixel resampling through known pixel maps, and of cached against uncached requests over random viewer-like request histories",
    "text": "Proved: without a cache id neither cache is read or written; an array-cache hit returns the stored array and recomputes nothing; a per-axis cache built for another dataset pair is dropped before use; each source "
            "axis is taken from its per-axis entry exactly when the stored bounds match and is otherwise translated and stored with its own out-of-range mask, reported axes and bounds whose wildcards stand only for scalar bounds "
            "on non-contributing axes; the values / membership are fetched once at these coordinates; afterwards the array cache holds this result under (dataset, bounds, frame, attribute uuid or selection, broadcast). "
            "The wildcard equals exactly scalars; bounds_for_cache replaces bound i by the wildcard iff it is a scalar and axis i did not contribute, and keeps every other bound; translate_pixel returns the coordinate "
            "array and axis of a pixel attribute, follows links recursively applying the link function to the minimally broadcast inputs, reports the sorted union of contributing axes, and raises for attributes it cannot "
            "derive. Explored: 9 linked sources (identity, offset+scale, permuted, lower-dimensional, coupled, world-linked, unlinked, half-linked) x bounds (scalar / ranged, inside / partly / wholly outside, reversed) x "
            "values and selections against the definition; request histories sharing a cache id against uncached requests; planes shown by image layer states.",
    "note": "Level is exploration: the nearest-pixel arithmetic is numpy code that is only swept, and 'equal keys imply equal buffers' rests on it.",
}

MANIFEST_ENTRY['text'] += " The array-cache key is proved to hold the selection object itself (not a number standing for it) and a bounds entry that is not the caller's own list."
TRUSTED_BASE.append('id(obj) is an opaque number per object that keeps nothing alive: a key made of it is not the object')

MANIFEST_ENTRY['text'] += (" The image layer's view-to-bounds helper (slice_to_bound, nested in BaseImageLayerState.get_sliced_data) is proved, for every size, start, stop and steps None / 1-8 (1-16 thorough), to give "
                           "(first selected pixel, last selected pixel, number of selected pixels) for a non-empty view with a positive step.")
MANIFEST_ENTRY['technique'] = MANIFEST_ENTRY['technique'].replace("of the cache-key helpers and of ", "of the cache-key helpers, of the image layer's view-to-bounds arithmetic and of ")
TRUSTED_BASE.append("slice_to_bound contract: slice.indices model (pyvc spec), mathematical integers; the nested function is located in the text of get_sliced_data on every run")
ASSUMPTIONS.append("slice_to_bound is under contract for views with a positive step that select at least one pixel; an empty view (negative count) and negative steps are outside the contract and not claimed; "
                   "the rest of get_sliced_data (aggregation, transpose) is covered by the bounded image-layer sweep only")

MANIFEST_ENTRY['text'] += (" ImageViewerState.numpy_slice_aggregation_transpose is proved for ranks 2-4, every pair of displayed axes and every mix of scalar and aggregated remaining axes: whole axis for the displayed "
                           "axes, the stored slice for aggregated axes, the index for scalar axes, one aggregation entry per surviving axis in axis order, transposed iff the y axis follows the x axis.")
TRUSTED_BASE.append("numpy_slice_aggregation_transpose contract: the viewer state is a record of reference_data.ndim, slices, x_att.axis, y_att.axis (echo callback properties read as plain attributes); AggregateSlice is a class tag")

CONFIG_NOTE = {k: v + ("; slice_to_bound for steps None / 1-%s with size, start and stop symbolic (None or any integer); numpy_slice_aggregation_transpose for ranks 2-4 x every ordered pair of displayed axes x "
                       "every scalar / aggregated assignment of the other axes" % ('8' if k == 'quick' else '16')) for k, v in CONFIG_NOTE.items()}
