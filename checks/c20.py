"""C20 - chunk, slice and broadcast helpers are exact."""
import itertools
import random

PROPERTY = 'C20'
THOROUGH_SEEDS = 1      # the thorough enumeration of this driver is already minutes long
LEVEL = 'proof'
DEDUCTIVE = ['contracts.c20_array']
BUDGET_S = {'quick': 30.0, 'thorough': 90.0}
MIN_OBLIGATIONS = {'quick': 400, 'thorough': 1200}
BOUNDED_FLOOR = {'quick': 2000, 'thorough': 5000}
CONFIG_NOTE = {
    'quick': "find_chunk_shape/iterate_chunks: rank 1..3, all extents/chunk shapes/limits symbolic; combine_slices: "
             "concrete steps {None,1..6}^2 (+negative-step cases), length and all starts/stops (incl. None, negative, "
             "out of range) symbolic",
    'thorough': "rank 1..4; combine_slices steps {None,1..12}^2",
}
TRUSTED_BASE = [
    "A-INT: numpy/Python integers are mathematical integers",
    "A-PY: CPython semantics of the modelled built-ins (slice.indices, min/max, range, list comparison, np.prod on a tuple); "
    "differential-tested against CPython by the engine self-test",
    "the VC generator (pyvc) and the SMT solvers z3 5.1.0 / z3 4.8.12 / cvc5 1.0.3",
    "termination: proved for the loops that carry a `decreases` clause (iterate_chunks while-loop, combine_slices for-loop)",
]
ASSUMPTIONS = [
    "find_chunk_shape/iterate_chunks: requires n_max >= 1 and chunk extents >= 1 (n_max <= 0 or a zero chunk extent is outside the contract; in-repo call sites pass positive literals)",
    "combine_slices: step values are a structure configuration (concrete per VC set); symbolic steps make the VCs non-linear (z3/cvc5 unknown)",
    "unbroadcast, broadcast_arrays_minimal, view_shape, categorical_ndarray, unique, index_lookup: numpy stride/dtype code outside the executor - "
    "checked by the bounded stand-in only (labelled bounded, never counted as proved)",
]


def bounded(tier, seed, R):
    import numpy as np
    from contracts import c20_array as C
    from glue.utils import array as A
    rng = random.Random(seed)
    R.rule = ("exhaustive small-scope enumeration on the real functions: (a) all shapes with extents 0..3 (rank<=3) x all chunk "
              "shapes and all n_max 1..prod+1 for iterate_chunks/find_chunk_shape; (b) all pairs of slices with start/stop in "
              "{None,-n-1..n+1}, step in {None,1..n} for lengths n<=N (N=4 quick, 6 thorough) for combine_slices against numpy "
              "indexing; (c) all stride patterns rank<=3 sizes 1..3 for unbroadcast/broadcast_arrays_minimal; (d) view_shape "
              "against numpy for shapes<=3^3 x view catalogue; (e) categorical arrays of length<=5 over a 3-letter alphabet "
              "(+2-d, views, copies). non-trivial = distinct input whose result is neither empty nor the whole array")
    R.exhaustive = True
    # (a) chunks
    ext = (0, 1, 2, 3)
    for d in (1, 2, 3):
        for shape in itertools.product(ext, repeat=d):
            total = int(np.prod(shape))
            cfgc = dict(ndim=d, mode='chunk_shape')
            for chunk in itertools.product(*[range(1, max(s, 1) + 1) for s in shape]):
                val = {'shape%d' % i: s for i, s in enumerate(shape)}
                val.update({'chunk%d' % i: c for i, c in enumerate(chunk)})
                r = C.ITERATE_CHUNKS.native(cfgc, val)
                R.count(('chunks', shape, chunk) if total > 1 and chunk != shape else None, 'iterate_chunks')
                if r is not None and not r[0]:
                    R.fail("iterate_chunks|chunk_shape|rank%d" % d, r[1],
                           "from contracts.c20_array import ITERATE_CHUNKS as c\nr = c.native(%r, %r)\nprint(r); sys.exit(0 if r[0] else 1)\n" % (cfgc, val))
            for n_max in range(1, total + 2):
                val = {'shape%d' % i: s for i, s in enumerate(shape)}
                val['n_max'] = n_max
                r = C.ITERATE_CHUNKS.native(dict(ndim=d, mode='n_max'), val)
                R.count(('nmax', shape, n_max) if 1 < n_max < total else None, 'iterate_chunks')
                if r is not None and not r[0]:
                    R.fail("iterate_chunks|n_max|rank%d" % d, r[1],
                           "from contracts.c20_array import ITERATE_CHUNKS as c\nr = c.native(%r, %r)\nprint(r); sys.exit(0 if r[0] else 1)\n" % (dict(ndim=d, mode='n_max'), val))
                if all(s >= 1 for s in shape):
                    r = C.FIND_CHUNK_SHAPE.native(dict(ndim=d, n_max='int'), val)
                    R.count(None, 'find_chunk_shape')
                    if r is not None and not r[0]:
                        R.fail("find_chunk_shape|rank%d" % d, r[1],
                               "from contracts.c20_array import FIND_CHUNK_SHAPE as c\nr = c.native(%r, %r)\nprint(r); sys.exit(0 if r[0] else 1)\n" % (dict(ndim=d, n_max='int'), val))
    # (b) combine_slices, exhaustive
    N = 4 if tier == 'quick' else 6
    for n in range(0, N + 1):
        bounds = [None] + list(range(-n - 1, n + 2))
        steps = [None] + list(range(1, max(n, 1) + 1))
        slices = [slice(a, b, c) for a in bounds for b in bounds for c in steps]
        for s1 in slices:
            v1 = range(n)[s1]
            for s2 in slices:
                r = C.native_combine(s1, s2, n)
                nt = len(v1) > 1 and 0 < len(set(v1) & set(range(n)[s2])) < len(v1)
                R.count(('cs', n, s1.start, s1.stop, s1.step, s2.start, s2.stop, s2.step) if nt else None, 'combine_slices')
                if r is not None and not r[0]:
                    R.fail("combine_slices|positions", r[1],
                           "from contracts.c20_array import native_combine\nr = native_combine(%r, %r, %r)\nprint(r); sys.exit(0 if r[0] else 1)\n" % (s1, s2, n))
    # random larger cases
    for _ in range(3000 if tier == 'quick' else 30000):
        n = rng.randint(5, 40)
        def rs():
            return slice(rng.choice([None] + list(range(-n - 2, n + 3))), rng.choice([None] + list(range(-n - 2, n + 3))),
                         rng.choice([None] + list(range(1, 14))))
        s1, s2 = rs(), rs()
        r = C.native_combine(s1, s2, n)
        R.count(None, 'combine_slices-random')
        if r is not None and not r[0]:
            R.fail("combine_slices|positions", r[1],
                   "from contracts.c20_array import native_combine\nr = native_combine(%r, %r, %r)\nprint(r); sys.exit(0 if r[0] else 1)\n" % (s1, s2, n))
    # (c) unbroadcast / broadcast_arrays_minimal
    for d in (1, 2, 3):
        for shape in itertools.product((1, 2, 3), repeat=d):
            for bc in itertools.product((False, True), repeat=d):
                base_shape = tuple(1 if b else s for s, b in zip(shape, bc))
                base = np.arange(int(np.prod(base_shape)), dtype=float).reshape(base_shape) + 1
                arr = np.broadcast_to(base, shape)
                u = A.unbroadcast(arr)
                ok = np.array_equal(np.broadcast_to(u, arr.shape), arr) and \
                    all(us in (1, s) for us, s in zip(u.shape, arr.shape)) and \
                    all((us == 1) == (st == 0 or s == 1) for us, s, st in zip(u.shape, arr.shape, arr.strides))
                R.count(('ub', shape, bc) if any(bc) and any(s > 1 for s in shape) else None, 'unbroadcast')
                if not ok:
                    R.fail("unbroadcast|roundtrip-or-minimal", "unbroadcast of broadcast_to(%r -> %r): got shape %r" % (base_shape, shape, u.shape),
                           "import numpy as np\nfrom glue.utils.array import unbroadcast\nbase = np.arange(%d, dtype=float).reshape(%r) + 1\n"
                           "arr = np.broadcast_to(base, %r)\nu = unbroadcast(arr)\nprint(u.shape)\n"
                           "ok = np.array_equal(np.broadcast_to(u, arr.shape), arr) and all((us == 1) == (st == 0 or s == 1) for us, s, st in zip(u.shape, arr.shape, arr.strides))\nsys.exit(0 if ok else 1)\n"
                           % (int(np.prod(base_shape)), base_shape, shape))
                # two-array minimal broadcast
                for bc2 in itertools.product((False, True), repeat=d):
                    b2shape = tuple(1 if b else s for s, b in zip(shape, bc2))
                    arr2 = np.broadcast_to(np.arange(int(np.prod(b2shape)), dtype=float).reshape(b2shape) * 10, shape)
                    o1, o2 = A.broadcast_arrays_minimal(arr, arr2)
                    exp_shape = tuple(1 if (x and y) else s for s, x, y in zip(shape, bc, bc2))
                    exp_shape = tuple(1 if s == 1 else e for s, e in zip(shape, exp_shape))
                    ok = o1.shape == o2.shape == exp_shape and np.array_equal(np.broadcast_to(o1, shape), arr) and \
                        np.array_equal(np.broadcast_to(o2, shape), arr2)
                    R.count(None, 'broadcast_arrays_minimal')
                    if not ok:
                        R.fail("broadcast_arrays_minimal|shape-or-values", "broadcast_arrays_minimal shapes %r %r -> %r expected %r"
                               % (base_shape, b2shape, o1.shape, exp_shape), None)
    # (d) view_shape
    from bounded.views import view_catalogue
    for d in (1, 2, 3):
        for shape in itertools.product((1, 2, 3), repeat=d):
            for view in view_catalogue(shape, rng, small=(tier == 'quick')):
                try:
                    # in glue a view of None means "no view" (numpy would add an axis)
                    exp = tuple(shape) if view is None else np.zeros(shape)[view].shape
                except IndexError:
                    continue
                got = A.view_shape(shape, view)
                R.count(('vs', shape, repr(view)) if exp != tuple(shape) else None, 'view_shape')
                if tuple(got) != tuple(exp):
                    R.fail("view_shape|mismatch", "view_shape(%r, %r) = %r, numpy says %r" % (shape, view, got, exp),
                           "import numpy as np\nfrom numpy import array\nfrom glue.utils.array import view_shape\nshape, view = %r, %r\n"
                           "sys.exit(0 if tuple(view_shape(shape, view)) == (tuple(shape) if view is None else np.zeros(shape)[view].shape) else 1)\n" % (shape, view))
    # (d'') tuples made only of slices, with every sign and size of step (numpy's shape of the view)
    for shape in ((5, 4), (6,), (2, 3, 4), (1, 5)):
        per_axis = [slice(None), slice(None, None, -1), slice(None, None, -2), slice(4, 0, -1), slice(1, None, -3), slice(None, 2, -1), slice(-1, None, -1), slice(0, 5, 2), slice(3, 1), slice(-2, -5, -1)]
        combos = list(itertools.product(per_axis, repeat=len(shape))) if len(shape) < 3 else [tuple(rng.choice(per_axis) for _ in shape) for _ in range(120)]
        combos += [c[:k] for c in combos[:40] for k in range(1, len(shape))]
        for view in combos:
            exp = np.zeros(shape)[view].shape
            got = A.view_shape(shape, view)
            R.count(('vs-slices', shape, repr(view)) if exp != tuple(shape) else None, 'view_shape')
            if tuple(got) != tuple(exp):
                R.fail("view_shape|slices-of-any-step", "view_shape(%r, %r) = %r, numpy says %r" % (shape, view, tuple(got), exp),
                       "import numpy as np\nfrom glue.utils.array import view_shape\nshape, view = %r, %r\nsys.exit(0 if tuple(view_shape(shape, view)) == np.zeros(shape)[view].shape else 1)\n" % (shape, view))
    # (d') the answer does not depend on earlier calls: views that compare (and hash) equal but index differently - an integer and the
    # boolean scalar of equal value (x[1] drops an axis, x[True] adds one) - asked one after the other, in both orders
    twins = [(1, True), (0, False), ((slice(1, 3), 1), (slice(1, 3), True)), ((Ellipsis, 0), (Ellipsis, False)), (np.int64(1), np.bool_(True)), ((0, 1), (False, True))]
    for shape in ((3, 4), (2, 3, 2), (3,)):
        for a_, b_ in twins:
            for first, second in ((a_, b_), (b_, a_)):
                for view in (first, second):
                    try:
                        exp = np.zeros(shape)[view].shape
                    except IndexError:
                        continue
                    got = A.view_shape(shape, view)
                    R.count(('vs-twins', shape, repr(first), repr(second), repr(view)), 'view_shape')
                    if tuple(got) != tuple(exp):
                        R.fail("view_shape|depends-on-earlier-calls", "view_shape(%r, %r) = %r after the calls with %r, numpy says %r" % (shape, view, tuple(got), [first, second], exp),
                               "import numpy as np\nfrom glue.utils.array import view_shape\nshape = %r\nbad = 0\nfor view in (%r, %r):\n    bad += tuple(view_shape(shape, view)) != np.zeros(shape)[view].shape\n"
                               "sys.exit(1 if bad else 0)\n" % (shape, first, second))
    # (e) categorical arrays
    alphabet = ['a', 'b', 'c']
    for n in range(1, 6):
        for vals in itertools.product(alphabet, repeat=n):
            _cat_case(A, np, R, np.array(vals), ('cat', vals))
    for vals in itertools.product(alphabet, repeat=4):
        _cat_case(A, np, R, np.array(vals).reshape(2, 2), ('cat2', vals))
    for vals in itertools.product(alphabet, repeat=6):
        _cat_case(A, np, R, np.array(vals).reshape(2, 3), ('cat23', vals), full=(tier != 'quick'))
    _cat_case(A, np, R, np.array(['b', 1, 2.5, 'a', 1], dtype=object), ('mixed',))
    # memory layouts: transposed / Fortran-ordered / strided 2-d and 3-d inputs (unique and index_lookup must not depend on layout)
    for vals in itertools.product(alphabet, repeat=6):
        base = np.array(vals).reshape(2, 3)
        for nm, arr in (('T', base.T), ('F', np.asfortranarray(base)), ('strided', np.array(vals + vals).reshape(2, 6)[:, ::2])):
            _cat_case(A, np, R, arr, ('layout', nm, vals), full=False)
            U, I_ = A.unique(arr)
            ok = I_.shape == arr.shape and bool(np.all(U[I_] == arr)) and list(U) == sorted(set(arr.ravel().tolist()))
            R.count(('unique', nm, vals) if len(set(vals)) > 1 else None, 'unique')
            if not ok:
                R.fail("unique|layout:%s" % nm, "unique(%s-layout array %r): U[I] != array (U=%r, I=%r)" % (nm, arr.tolist(), U.tolist(), I_.tolist()),
                       "import numpy as np\nfrom glue.utils.array import unique\nbase = np.array(%r).reshape(2, 3)\n"
                       "bad = False\nfor arr in (base.T, np.asfortranarray(base)):\n    U, I = unique(arr)\n    bad = bad or not np.all(U[I] == arr)\nsys.exit(1 if bad else 0)\n" % (list(vals),))
    for n in range(1, 5):
        for vals in itertools.product(alphabet, repeat=n):
            for cats in (['a', 'b', 'c'], ['c', 'a'], ['b']):
                r = A.index_lookup(np.array(vals), np.array(cats))
                exp = [cats.index(v) if v in cats else np.nan for v in vals]
                ok = all((np.isnan(a) and np.isnan(b)) or a == b for a, b in zip(r, exp)) and len(r) == len(exp)
                R.count(('il', vals, tuple(cats)), 'index_lookup')
                if not ok:
                    R.fail("index_lookup|mismatch", "index_lookup(%r, %r) = %r, expected %r" % (vals, cats, r.tolist(), exp),
                           "import numpy as np\nfrom glue.utils.array import index_lookup\nr = index_lookup(np.array(%r), np.array(%r))\nprint(r)\n"
                           "exp = %r\nsys.exit(0 if all((a != a and b != b) or a == b for a, b in zip(r, exp)) else 1)\n" % (list(vals), cats, [None if e != e else e for e in exp]))
    R.samples = [{"iterate_chunks": "shape=(3, 2, 3) chunk_shape=(2, 1, 3) -> every element counted once"},
                 {"combine_slices": "slice(1, None, 2), slice(None, 4, 3), n=4 vs numpy positions"},
                 {"unbroadcast": "broadcast_to((3,1,2) -> (3,3,2))"},
                 {"categorical": "('c','a','c','b') codes/categories; views [::2], [1:], copy"}]


def _cat_case(A, np, R, values, key, full=True):
    c = A.categorical_ndarray(values)
    flat = np.asarray(values).ravel()

    def chk(arr, ref, what):
        cats = arr.categories
        codes = arr.codes
        ok = codes.shape == ref.shape and list(cats) == sorted(set(np.asarray(values).ravel().tolist()), key=lambda x: (str(type(x)), x)) \
            if values.dtype != object else codes.shape == ref.shape
        if ok:
            ok = bool(np.all(np.asarray(cats)[codes.astype(int)] == ref))
        R.count(key + (what,) if len(set(flat.tolist())) > 1 else None, 'categorical_ndarray')
        if not ok:
            R.fail("categorical_ndarray|%s" % what.split(':')[0],
                   "categorical_ndarray(%r) %s: categories=%r codes=%r" % (values.tolist(), what, list(cats), codes.tolist()),
                   "import numpy as np\nfrom glue.utils.array import categorical_ndarray\nv = np.array(%r%s)\nc = categorical_ndarray(v)\n"
                   "print(c.categories, c.codes)\nsys.exit(0 if np.all(np.asarray(c.categories)[c.codes.astype(int)] == v) else 1)\n"
                   % (values.tolist(), ', dtype=object' if values.dtype == object else ''))
    try:
        chk(c, np.asarray(values), 'full')
        if values.dtype == object:
            return
        if full:
            if values.ndim == 1:
                for sl in (slice(None, None, 2), slice(1, None), slice(None, None, -1)):
                    chk(c[sl], np.asarray(values)[sl], 'view:%r' % (sl,))
            else:
                for sl in ((slice(None), slice(1, None)), (0,), (slice(None, None, -1), slice(None, None, 2))):
                    chk(c[sl], np.asarray(values)[sl], 'ndview:%r' % (sl,))
                # views with another memory layout than their shape suggests (they inherit the parent's categories and look their codes up)
                chk(c.T, np.asarray(values).T, 'ndview:transposed')
                chk(c.T[::-1], np.asarray(values).T[::-1], 'ndview:transposed-reversed')
                chk(np.swapaxes(c, 0, -1), np.swapaxes(np.asarray(values), 0, -1), 'ndview:swapaxes')
                fresh2 = A.categorical_ndarray(values)
                chk(fresh2.T, np.asarray(values).T, 'ndview:transposed-before-parent-codes')
                given = A.categorical_ndarray(np.asfortranarray(values), categories=np.array(sorted(set(flat.tolist()))))
                chk(given, np.asarray(values), 'fortran-order-with-given-categories')
            chk(c.copy(), np.asarray(values), 'copy')
            if values.ndim == 1 and values.size > 1:
                # arrays derived with the parent's shape but another element order (the parent's codes are already computed here)
                n = values.size
                perm = np.arange(n)[::-1].copy()
                perm[:2] = perm[:2][::-1]
                for what, der, ref in (('permutation', lambda a: a[perm], np.asarray(values)[perm]), ('roll', lambda a: np.roll(a, 1), np.roll(np.asarray(values), 1)),
                                       ('sort', lambda a: np.sort(a), np.sort(np.asarray(values))), ('repeat-last', lambda a: a[np.full(n, n - 1)], np.asarray(values)[np.full(n, n - 1)]),
                                       ('take', lambda a: np.take(a, perm), np.take(np.asarray(values), perm))):
                    chk(der(c), ref, 'same-shape-derived:' + what)
                fresh = A.categorical_ndarray(values)          # codes of the parent not yet computed
                chk(fresh[perm], np.asarray(values)[perm], 'same-shape-derived:permutation-before-parent-codes')
            c.jitter('uniform')
            ok = list(c.categories) == sorted(set(flat.tolist())) and bool(np.all(np.abs(c.codes - np.round(c.codes)) <= 0.5))
            c.jitter(None)
            if not ok:
                R.fail("categorical_ndarray|jitter", "jitter changed categories for %r" % (values.tolist(),), None)
    except Exception as e:
        R.fail("categorical_ndarray|exception:%s" % type(e).__name__, "categorical_ndarray(%r): %s: %s" % (values.tolist(), type(e).__name__, e),
               "import numpy as np\nfrom glue.utils.array import categorical_ndarray\nc = categorical_ndarray(np.array(%r).reshape(%r))\n"
               "try:\n    c[..., 1:].codes; c[::-1].codes\nexcept Exception as e:\n    print(e); sys.exit(1)\nsys.exit(0)\n" % (flat.tolist(), values.shape))


MANIFEST_ENTRY = {
    "level": "proof",
    "technique": "contract-based deductive verification: VCs generated from the AST of the real functions (pyvc) and discharged by z3/cvc5; bounded stand-in for the numpy stride/dtype helpers",
    "text": "find_chunk_shape, iterate_chunks and combine_slices carry sidecar contracts whose postconditions are the sentences of the property "
            "(every element in exactly one chunk via a ghost counter and an inductive loop invariant; chunk size <= limit; combined slice selects exactly the common positions). "
            "Every VC is generated from the function text in /repo on each run and discharged for all extents/offsets/limits (rank and slice steps are stated structure configurations). "
            "unbroadcast/broadcast_arrays_minimal/view_shape/categorical_ndarray are numpy stride/dtype code outside the executor and are covered by an exhaustive small-scope bounded stand-in, labelled bounded.",
    "note": "Trusted: integers mathematical (A-INT); CPython semantics of modelled built-ins (slice.indices, min/max, list comparison; differential-tested); the VC generator and SMT solvers. "
            "Structure bounds: rank <= 3 (4 thorough), slice steps {None,1..6} (1..12 thorough). requires n_max >= 1, chunk extents >= 1.",
}
