"""C07 - the hub delivers each message exactly once, in order, to the right listeners."""
PROPERTY = 'C07'
THOROUGH_SEEDS = 1      # the thorough enumeration of this driver is already minutes long
LEVEL = 'proof'
DEDUCTIVE = ['contracts.c07_hub']
BUDGET_S = {'quick': 30.0, 'thorough': 90.0}
MIN_OBLIGATIONS = {'quick': 200, 'thorough': 300}
BOUNDED_FLOOR = {'quick': 1000, 'thorough': 5000}
CONFIG_NOTE = {
    'quick': "broadcast/delay_callbacks/ignore_callbacks: queue length, nesting depth, ignore map, subscription state unbounded (symbolic); "
             "_find_handlers: finite-universe expansion, <=2 subscribers x <=3 classes and 3 subscribers x <=2 classes, everything about them symbolic; "
             "subscribe/unsubscribe/...: two-level map with arbitrary contents",
    'thorough': "_find_handlers: <=3 subscribers x <=3 classes",
}
TRUSTED_BASE = [
    "client contract of external code (handlers, with-block bodies): finite sequences of public hub operations with properly nested blocks; handlers do not raise (A-EXC)",
    "A-GC: weakly referenced subscribers stay alive; WeakKeyDictionary/HubCallbackContainer behave as insertion-ordered dicts (modelled, not verified)",
    "A-PY: issubclass is transitive and a strict subclass has a strictly longer MRO; sorted() is stable; max() returns the first maximum; "
    "@contextmanager runs the code after `yield` on normal exit and on exception",
    "the VC generator (pyvc) and z3 5.1.0 (sequence and array theories)",
]
ASSUMPTIONS = [
    "the spec function expected(subscriptions, message) used by Hub.broadcast is the one established by Hub._find_handlers' contract (finite-universe sizes above)",
    "ignoring is by exact message type (as written in Hub.broadcast); the statement's 'ignored message types' is read the same way",
    "tie between equally specific subscribed classes (multiple inheritance): first in dict order - taken from the code, reported as an under-specified corner",
]


def bounded(tier, seed, R):
    from bounded import c07_hub
    c07_hub.run(tier, seed, R)


MANIFEST_ENTRY = {
    "level": "proof",
    "technique": "contract-based deductive verification: VCs from the AST of the real Hub methods (pyvc, heap fields as z3 sequences/arrays, ghost delivery counters, loop invariants) discharged by z3; bounded stand-in for re-entrant schedules",
    "text": "Hub.broadcast, delay_callbacks (enter / exit on normal and exceptional paths), ignore_callbacks, _find_handlers, subscribe, unsubscribe, unsubscribe_all, "
            "is_subscribed and get_handler carry sidecar contracts over the hub invariant HI (open-block counter >= 0, queue empty when no block is open). "
            "Each sentence of the property is a postcondition: ignored -> nothing; block open -> appended to the queue, nothing delivered; otherwise exactly the handlers "
            "selected in the entry state, once each, in order; outermost exit flushes every queued message once in order, inner exit delivers nothing; handler selection "
            "= most specific matching class per subscriber, filter, descending priority. Re-entrant handlers are covered by a client contract (havoc under HI). "
            "A reference hub is additionally compared with the real one on all well-nested schedules up to a length bound (bounded, not counted as proved).",
    "note": "Trusted: client contract for handlers/with-bodies (nested blocks balanced, handlers do not raise), dict/weakref container semantics, stable sort/first-max, "
            "issubclass/MRO axioms, pyvc + z3. _find_handlers is proved for subscription tables up to 3 subscribers x 3 classes (finite-universe expansion).",
}
