"""C08 - region containment is geometrically exact and equivariant under move/rotate/copy."""
PROPERTY = 'C08'
LEVEL = 'proof'
DEDUCTIVE = ['contracts.c08_roi', 'contracts.c02_pairs']
BUDGET_S = {'quick': 120.0, 'thorough': 300.0}
MIN_OBLIGATIONS = {'quick': 30, 'thorough': 30}
BOUNDED_FLOOR = {'quick': 300, 'thorough': 300}
CONFIG_NOTE = {'quick': "all region parameters and the point are symbolic reals; the angle is a pair (c, s) with c^2+s^2=1; three angle classes per rotated region "
                        "(s=0, c=0, unconstrained) stand for the three branches selected by the float tests", 'thorough': "same"}
TRUSTED_BASE = [
    "A-REAL: machine floats treated as reals; decisions within the boundary band are excluded by the property itself",
    "A-LIFT: contains() is element-wise in (x, y): x[keep], inside[keep] = e, zeros_like, flatten/reshape are lifted point-wise (checked by the shape/permutation-independence cases of the bounded layer)",
    "numpy model on reals: np.array of 5 literals as a vector with element-wise * / + and min()/max(); 2x2 matmul expanded; np.sqrt(v) = the r >= 0 with r*r == v",
    "rotation_matrix_2d(alpha) = [[cos, -sin], [sin, cos]] (its own one-line body is np.cos/np.sin: not verified)",
    "which branch np.isclose(theta % pi, 0, atol=1e-9) selects is a configuration; the numeric choice near multiples of pi/2 is decided by the bounded layer",
    "the VC generator (pyvc) and z3 5.1.0 non-linear real arithmetic (nlsat)",
]
ASSUMPTIONS = [
    "PolygonalROI.contains (matplotlib Path + bbox prefilter), Projected3dROI.contains3d (tensordot, chunking), CategoricalROI, to_polygon discretisation, copy/save-restore: bounded stand-in only",
    "requires xmin < xmax, ymin < ymax, radii > 0, 0 < inner < outer",
]


def bounded(tier, seed, R):
    from bounded import c08_roi
    c08_roi.run(tier, seed, R)


MANIFEST_ENTRY = {
    "level": "proof",
    "technique": "contract-based deductive verification over the reals of the closed-form regions (pyvc with point-wise lifting, angles as (c,s) on the unit circle; z3 nlsat); bounded grids vs independent geometric oracles for polygons, projections, float angle tests",
    "text": "RectangularROI.contains (three angle branches, including soundness of the bounding-box pre-filter), to_polygon, move_to, transpose; EllipticalROI.contains with bounds(); CircularROI, CircularAnnulusROI and RangeROI contains; "
            "move_to of every closed-form region are proved for all real parameters and all points off the boundary. Polygons (matplotlib), projected 3-d regions with several evaluation chunks, categorical regions, polygon approximation, copy, "
            "save/restore, array-shape/broadcast independence, move/rotate equivariance and the float angle tests near multiples of pi/2 are covered by parameter/point grids against independently written geometry (bounded).",
    "note": "Trusted: floats as reals, point-wise lifting, numpy-on-reals model, rotation matrix formula, pyvc + z3 nlsat. Branch selection by np.isclose and everything matplotlib/tensordot-based is bounded.",
}

MANIFEST_ENTRY['text'] += ' Roi.rotate_by is proved to make one rotate_to call with exactly current angle + dtheta; accumulated rotate_by sequences on polygons, mixed coordinate dtypes for the projected region and exact label membership for categorical regions are explored.'
TRUSTED_BASE.append('Roi.rotate_by contract: numpy.pi as a real constant; rotate_to of the concrete region classes is explored by the rotate_by sequences, not proved')
MANIFEST_ENTRY['text'] += (" Save/restore of the rectangle, circle, annulus, ellipse and the x / y range regions is proved parameter by parameter (the real __gluestate__ feeds the real __setgluestate__ through an abstract context): "
                           "the restored region is constructed from exactly the saved numbers.")
