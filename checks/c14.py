"""C14 - derived attributes compute their defining expression and go with their inputs."""
PROPERTY = 'C14'
LEVEL = 'exploration'
DEDUCTIVE = ['contracts.c14_derived']
BUDGET_S = {'quick': 20.0, 'thorough': 60.0}
MIN_OBLIGATIONS = {'quick': 100, 'thorough': 100}
BOUNDED_FLOOR = {'quick': 500, 'thorough': 2000}
CONFIG_NOTE = {'quick': "remove_component closure: 2 stored + 0-3 derived attributes, arbitrary symbolic dependency relation; update_id: every position; replace_ids: every subset of inputs",
               'thorough': "same"}
TRUSTED_BASE = [
    "evaluation of expressions (BinaryComponentLink.compute, ComponentLink.compute, ParsedCommand.evaluate) is numpy broadcasting / eval code outside the executor: decided by the bounded stand-in against numpy on the materialised inputs",
    "finite universe of component slots for the closure proof; pyvc + z3",
]
ASSUMPTIONS = [
    "ParsedCommand._validate/_dereference (regex + str.replace) are not under contract: string-theory VCs are the known unstable case; covered by generated command strings (bounded)",
    "views that select nothing from coordinate attributes are excluded here and covered under C04/C15",
]


def bounded(tier, seed, R):
    from bounded import c14_derived
    c14_derived.run(tier, seed, R)


MANIFEST_ENTRY = {
    "level": "exploration",
    "technique": "bounded exploration decides the value half (expression trees, user functions, parsed expressions x view catalogue vs numpy); contract-based deductive obligations (pyvc + z3) decide the dependency closure of remove_component, update_id and replace_ids",
    "text": "Values: all depth-1 arithmetic expression trees over stored/derived/pixel/world/constant operands and random deeper ones, links with user functions (full, ravelled, scalar, 0-d results, inputs of different broadcasting structure) and parsed "
            "text expressions are evaluated on the whole dataset and on every catalogue view and compared with numpy on the materialised inputs. Structure: remove_component + _removed_derived_that_depend_on are proved to remove exactly the transitive "
            "dependents for an arbitrary symbolic dependency relation (finite slots); update_id and ComponentLink.replace_ids are proved to keep position/values and re-point readers.",
    "note": "Level exploration: expression evaluation is numpy/eval code, bounded only. The closure/update_id/replace_ids obligations are proved for finite component slots with symbolic relations.",
}
