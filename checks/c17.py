"""C17 - a dataset stays structurally consistent and announces every structural change."""
PROPERTY = 'C17'
THOROUGH_SEEDS = 1      # the thorough enumeration of this driver is already minutes long
LEVEL = 'proof'
DEDUCTIVE = ['contracts.c17_data', 'contracts.c17_update']
BUDGET_S = {'quick': 20.0, 'thorough': 60.0}
MIN_OBLIGATIONS = {'quick': 200, 'thorough': 200}
BOUNDED_FLOOR = {'quick': 2000, 'thorough': 8000}
CONFIG_NOTE = {'quick': "find_component_id: 4 categories with 0-2 ids each, label matches symbolic; update_id: 1/3 components, every position of the old id; "
                        "reorder_components: 3 components, valid and invalid lists; remove_component: 2 stored + 0-3 derived attributes with an arbitrary symbolic dependency relation",
               'thorough': "same"}
TRUSTED_BASE = [
    "finite universe of component slots (stated in configs); OrderedDict modelled as an insertion-ordered dict; hub = recorder of messages",
    "shapes, pixel/world attribute creation, coords changes, update_components/update_values_from_data and the message multiset are decided by the bounded histories on real datasets",
    "the VC generator (pyvc) and z3 5.1.0",
]
ASSUMPTIONS = [
    "add_component's shape check and pixel/world creation (_check_can_add, _create_pixel_and_world_components, coords setter) are numpy/coordinate code outside the executor: bounded only",
    "renaming a component (ComponentID.label setter) announces a message whose kind is not compared (differs between versions); the structural invariant is still checked after it",
]


def bounded(tier, seed, R):
    from bounded import c17_structure
    c17_structure.run(tier, seed, R)


MANIFEST_ENTRY = {
    "level": "proof",
    "technique": "contract-based deductive verification of the identifier bookkeeping (pyvc + z3, finite component slots with symbolic relations); bounded invariant + message-oracle histories on real datasets",
    "text": "find_component_id (unique match of the first matching category, else nothing), update_id (position, values, pixel/world lists, derived attributes re-pointed, one message iff changed), reorder_components (exact permutation "
            "or ValueError with nothing changed) and remove_component with its recursive dependency closure (removed set = the attribute plus its transitive dependents, for an arbitrary symbolic dependency relation) are proved from the "
            "function text. Shapes, pixel/world attributes, coordinates changes, value updates and the multiset of hub messages are checked after every step of all short operation sequences on real datasets (bounded).",
    "note": "Finite universe of component slots; ordered-dict model; pyvc + z3. Shape/coordinate/message clauses are bounded (sequences <= 2/3 over 22 operations x 8 dataset configurations + random).",
}

MANIFEST_ENTRY['text'] += ' update_components is proved to validate all arrays before any value is replaced (a rejected update changes nothing).'
TRUSTED_BASE.append('update_components contract shared with C05')
MANIFEST_ENTRY['text'] += (" add_component (stored under the given or a new identifier, announced iff the identifier was not present) and _update_world_components (every previous world attribute "
                           "removed and announced, one new one per axis in axis order, links rebuilt from the complete list, inside one delay block) are proved from the function text as well.")
