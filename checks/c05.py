"""C05 - results always reflect the current data, regions and links - never a stale cache."""
PROPERTY = 'C05'
LEVEL = 'proof'
DEDUCTIVE = ['contracts.c05_cache', 'contracts.c05_refresh']
BUDGET_S = {'quick': 20.0, 'thorough': 60.0}
MIN_OBLIGATIONS = {'quick': 100, 'thorough': 100}
BOUNDED_FLOOR = {'quick': 300, 'thorough': 1000}
CONFIG_NOTE = {'quick': "update_components: 1-3 components keyed by id or component, with/without hub, shapes symbolic; class trees of 1, 3 and 9 classes; "
                        "move_to: arity 1/2", 'thorough': "same"}
TRUSTED_BASE = [
    "the cache invariant CI of memoize.wrapper (proved under C01) is what the mutators must re-establish; here the obligations are event-order obligations over a ghost log",
    "type.__subclasses__() returns the direct subclasses (class-tree model); np.asarray is the identity on arrays",
    "the VC generator (pyvc) and z3 5.1.0",
]
ASSUMPTIONS = [
    "read footprints of the numpy-based leaf to_mask functions are not derived deductively; staleness of leaves and composites under every enumerated mutator is decided by the bounded histories",
    "update_values_from_data is under contract on a finite universe of attribute names (3 old x 3 new); what remove_component / add_component / the coords setter do inside it is their own contracts (C17) or the bounded histories",
]


def bounded(tier, seed, R):
    from bounded import c05_cache
    c05_cache.run(tier, seed, R)


MANIFEST_ENTRY = {
    "level": "proof",
    "technique": "contract-based deductive verification of the invalidating mutators as event-order obligations (pyvc + z3); evaluate-mutate-evaluate histories against fresh copies over all mutators enumerated from the source (bounded)",
    "text": "clear_cache, _clear_subset_state_caches (every class of the subclass tree), Data.update_components (validate all, replace, clear caches, then notify; a rejected update changes nothing) and "
            "CompositeSubsetState.move_to (children moved, then own cache invalidated) are proved from the function text. Mutators that do not invalidate are found by enumerating every property setter of every "
            "selection class and every ROI mutator and running evaluate-mutate-evaluate histories against fresh copies; data, move and link histories cover masks, statistics, histograms and derived values.",
    "note": "Trusted: class-tree model of __subclasses__, pyvc + z3. The staleness decision for numpy-based leaves is bounded. Known findings: direct edits of a region object held by a selection nested in a combination "
            "never invalidate memoised masks (one entry per mutator in known_findings.json).",
}

MANIFEST_ENTRY['text'] += " Also proved: update_components skips nothing when the caller hands in the very buffer a component already holds (edited in place), and LinkManager.update_externally_derivable_components leaves every dataset with attributes derived from the links registered on return, also when a listener changes the links from inside a notification (ghost link-set version; the re-entered refresh is used through the function's own postcondition)."
TRUSTED_BASE.append("refresh contract: a listener is modelled as 'may change the registered links after any notification'; the refresh it thereby re-enters is used through this contract's own postcondition (assumed for the inner call, proved for the outer one); discover_links / DerivedComponent / equivalent_pixel_cids are stubs returning tokens")
TRUSTED_BASE.append("update_components contract: np.array_equal / shares_memory style comparisons answer 'equal' for the very buffer a component holds whatever happened to its contents")
MANIFEST_ENTRY['text'] += (" SubsetState.__setattr__ is proved to invalidate the memoised masks whenever an existing attribute is assigned, whatever a comparison of old and new value says, and "
                           "Data.update_values_from_data to invalidate after the last change it makes and before its one notification.")
