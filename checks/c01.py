"""C01 - selections form a faithful Boolean algebra over membership masks."""
PROPERTY = 'C01'
LEVEL = 'proof'
DEDUCTIVE = ['contracts.c01_subset', 'contracts.c01_frames']
BUDGET_S = {'quick': 20.0, 'thorough': 60.0}
MIN_OBLIGATIONS = {'quick': 150, 'thorough': 150}
BOUNDED_FLOOR = {'quick': 1500, 'thorough': 5000}
CONFIG_NOTE = {'quick': "array contents, datasets, views and leaf selections symbolic (uninterpreted MASK); composite subclasses found in the source; "
                        "many-way or with 1..4 members", 'thorough': "many-way or with 1..6 members"}
TRUSTED_BASE = [
    "A-NP: numpy implements &, |, ^, ~, |= (in place) and .copy() element-wise on boolean arrays (pyvc/arrays.py)",
    "contract of every to_mask used for children: a borrowed array with content MASK(child, data, view) and the view's shape",
    "contract of copy() on leaf selections: a fresh independent object selecting the same elements (checked per leaf class by the bounded layer)",
    "model of object construction: composite constructors run the real __init__ inlined; super().__init__() of SubsetState is a no-op",
    "the VC generator (pyvc) and z3 5.1.0 (array map combinators)",
]
ASSUMPTIONS = [
    "leaf selections (range, inequality, ROI, categorical, element, mask, slice, ...) are numpy/matplotlib code outside the executor: their masks are checked by the bounded stand-in against their defining formulas",
    "the cache invariant of memoize.wrapper is an assumption here; its preservation by mutators is property C05",
]


def bounded(tier, seed, R):
    from bounded import c01_subset
    c01_subset.run(tier, seed, R)


MANIFEST_ENTRY = {
    "level": "proof",
    "technique": "contract-based deductive verification of the combinators, constructors, edit modes and the memoize wrapper (pyvc with an abstract element-wise array theory, z3); bounded per-node run-time contracts on real selection trees",
    "text": "For every composite subclass found in the source, to_mask is proved to be the element-wise and/or/xor/not (many-way or) of the children's masks for all array contents, datasets and views, with the children's "
            "(possibly cached) arrays never written; constructors and the &,|,^,~ operators are proved to store copies and leave operands untouched; the six edit modes are proved to assign the stated combination in the stated "
            "operand order; memoize.wrapper is proved to return the function's value and keep the cache invariant. Leaf selection kinds and whole trees on real datasets are covered by a bounded per-node contract check.",
    "note": "Trusted: element-wise numpy semantics (A-NP), copy() contract of leaves, object-construction model, pyvc + z3. Leaves are bounded only (3 datasets, ~15 leaf kinds, trees to depth 3/4).",
}

MANIFEST_ENTRY['text'] += ' The statistic kernel that receives (possibly cached) masks is proved never to write the arrays it is handed.'
TRUSTED_BASE.append('statistic kernel contract: numpy calls are provenance-recording stubs (np.asanyarray returns the object it is given, comparison/isfinite/indexing with an array return fresh arrays, in-place operators and item assignment write the object they are applied to); whether an array is writeable or owns its memory is left open')
