"""C04 - views of masks and attribute values equal the same view of the full array."""
PROPERTY = 'C04'
LEVEL = 'exploration'
DEDUCTIVE = ['contracts.c04_views']
BUDGET_S = {'quick': 60.0, 'thorough': 120.0}
MIN_OBLIGATIONS = {'quick': 250, 'thorough': 300}
BOUNDED_FLOOR = {'quick': 3000, 'thorough': 8000}
CONFIG_NOTE = {'quick': "SliceSubsetState.to_mask: rank 1-2, slice steps 1..3 for the selection and 1..2/3 for the view, every view kind made of slices/integers (incl. negative, short tuples, bare, "
                        "None, Ellipsis); all extents, bounds and the probed position symbolic. _to_original_view: 6 index patterns x every basic view kind", 'thorough': "steps up to 4"}
TRUSTED_BASE = [
    "deciding step = the bounded stand-in (numpy indexing semantics are the specification); the deductive obligations cover slice arithmetic only",
    "contract of combine_slices (proved under C20 for the same step configurations) used modularly; view_shape per its C20 contract; np.zeros + mask[tuple(slices)] = True = 'True exactly on the product of the slices'",
    "A-INT, slice.indices model; pyvc + z3",
]
ASSUMPTIONS = [
    "views in scope: None, Ellipsis, tuples of positive-step slices possibly shorter than ndim, integers mixed with slices (all-integer included), tuples of integer index arrays (also shorter / mixed with slices), boolean masks; an Ellipsis inside a tuple is out of scope",
    "histogram comparisons avoid data values that sit exactly on an interior bin edge (see C10)",
]


def bounded(tier, seed, R):
    from bounded import c04_views
    c04_views.run(tier, seed, R)


MANIFEST_ENTRY = {
    "level": "exploration",
    "technique": "bounded exhaustive cross product (attribute kinds x selection kinds x shapes x view catalogue, IndexedData vs parent slice) decides the property; contract-based deductive obligations (pyvc + z3) for SliceSubsetState.to_mask and IndexedData._to_original_view",
    "text": "values and masks requested with a view are compared with the full result indexed by that view for 8 attribute kinds, 20 selection kinds, shapes (5,), (3,4), (2,3,2) and the whole view catalogue; IndexedData values, masks, statistics and histograms are compared "
            "with the parent slice before and after changing indices. SliceSubsetState.to_mask is additionally proved, for all extents/bounds and an arbitrary position, to be True exactly where the denoted element lies in every slice (via the C20 contract of combine_slices), "
            "and _to_original_view to place fixed indices and view entries correctly.",
    "note": "Level exploration: numpy fancy-indexing semantics are the oracle. Known findings: all-integer (scalar) views of categorical selections. Proved helpers are reported as extra keys.",
}
MANIFEST_ENTRY['text'] += (" The IndexedData.indices setter is proved to rebuild the slice selection it answers histograms with, and the table of kept pixel attributes, from the new indices "
                           "whichever position changed, to refuse tuples of another length or with moved kept positions leaving everything as it was, and to notify iff some index differs.")
