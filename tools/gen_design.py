#!/usr/bin/env python3
"""Generate /verif/DESIGN.md from tools/DESIGN.template.md + check modules + contracts + evidence + known findings + fix commits + catch table."""
import importlib
import json
import os
import re
import subprocess
import sys

HERE = os.path.dirname(os.path.dirname(os.path.abspath(__file__)))
sys.path.insert(0, HERE)
os.environ.setdefault('GLUE_REPO', '/repo')
try:
    import z3  # noqa: F401  (the contract modules need it; the tables would silently come out empty without)
except ImportError:
    venv_py = os.path.join(HERE, '.venv', 'bin', 'python')
    if os.path.exists(venv_py) and os.path.realpath(sys.executable) != os.path.realpath(venv_py) and not os.environ.get('GEN_DESIGN_REEXEC'):
        os.environ['GEN_DESIGN_REEXEC'] = '1'
        os.execv(venv_py, [venv_py] + sys.argv)
    raise SystemExit("gen_design.py needs the check venv (z3): run ./setup.sh, then .venv/bin/python tools/gen_design.py")

PROPS = {json.loads(l)['id']: json.loads(l) for l in open(os.path.join(HERE, 'properties.jsonl'))}
NOTES = json.load(open(os.path.join(HERE, 'tools', 'design_notes.json')))


def check_modules():
    out = {}
    for f in sorted(os.listdir(os.path.join(HERE, 'checks'))):
        if re.match(r'c\d\d\.py$', f):
            m = importlib.import_module('checks.' + f[:-3])
            out[m.PROPERTY] = m
    return out


def evidence(pid):
    p = os.path.join(HERE, 'evidence', pid + '.json')
    return json.load(open(p)) if os.path.exists(p) else None


def contracts_of(mod, pid):
    rows = []
    for name in getattr(mod, 'DEDUCTIVE', []):
        try:
            cm = importlib.import_module(name)
        except Exception as e:
            rows.append((name, '(import failed: %s)' % e, ''))
            continue
        for c in cm.CONTRACTS:
            if pid in getattr(c, 'property_ids', ()) or name.endswith(pid.lower()) or pid.lower() in name:
                rows.append((name.split('.')[-1], c.target, c.title))
    return rows


def summary_table(mods):
    lines = ["| id | title | level | functions under contract | obligations (all discharged) | solver s | bounded evaluations | known | quick wall s |",
             "|---|---|---|---|---|---|---|---|---|"]
    for pid in sorted(PROPS):
        if pid in mods:
            e = evidence(pid)
            c = e['coverage']
            lines.append("| %s | %s | %s | %d | %d / %d | %.1f | %d | %d | %.0f |" % (
                pid, PROPS[pid]['title'], e['level'], len(c['functions_under_contract']), c['discharged'], c['obligations'], c['solver_s'], c['evaluations'],
                len(c['known_findings_hit']), e['wall_s']))
        else:
            lines.append("| %s | %s | not applicable (§3) | – | – | – | – | – | – |" % (pid, PROPS[pid]['title']))
    return '\n'.join(lines)


def per_property(mods, known):
    out = []
    for pid in sorted(mods):
        m = mods[pid]
        e = evidence(pid)
        c = e['coverage']
        me = m.MANIFEST_ENTRY
        out.append("### %s — %s · level: %s\n" % (pid, PROPS[pid]['title'], me['level']))
        out.append("*Statement.* %s\n" % PROPS[pid]['statement'])
        out.append("*Technique.* %s\n" % me['technique'])
        out.append("*What is decided.* %s\n" % me['text'])
        if me.get('note'):
            out.append("*Level note.* %s\n" % me['note'])
        rows = contracts_of(m, pid)
        if rows:
            out.append("*Functions under contract* (`contracts/`; obligations of the last quick run: %d generated, %d discharged, back ends %s):\n" % (
                c['obligations'], c['discharged'], ', '.join("%s %d" % kv for kv in sorted(c['back_ends'].items()))))
            out.append("| module | function | contract (postcondition in words) |\n|---|---|---|")
            for mod, target, title in rows:
                out.append("| `%s` | `%s` | %s |" % (mod, target, title.replace('|', '/')))
            out.append("")
        out.append("*Configurations.* %s\n" % m.CONFIG_NOTE.get('quick', ''))
        b = c['bounded_stand_in']
        out.append("*Bounded stand-in* (never counted as proved; %d evaluations, %d distinct non-trivial cases in the quick tier%s): %s\n" % (
            b['evaluations'], b['distinct_nontrivial'], ', exhaustive for the stated universe' if b.get('exhaustive') else '', b['rule']))
        out.append("*Trusted / assumed.*\n")
        for t in m.TRUSTED_BASE:
            out.append("- trusted: %s" % t)
        for t in m.ASSUMPTIONS:
            out.append("- assumption: %s" % t)
        out.append("")
        n = NOTES.get('per_property', {}).get(pid)
        if n:
            out.append("*Notes.* %s\n" % n)
        kf = [k for k in known['findings'] if k['property'] == pid and k.get('status', 'open') == 'open']
        fx = [f for f in known['fixed'] if 'property=%s ' % pid in f]
        if fx or kf:
            out.append("*Found on the unchanged tree.* %d defect(s) repaired (§4), %d recorded as known findings (§5).\n" % (len(fx), len(kf)))
    return '\n'.join(out)


def fixes(known):
    log = subprocess.run(['git', '-C', '/repo', 'log', '--reverse', '--format=%h %s'], capture_output=True, text=True).stdout.splitlines()
    rows = ["| commit | property | message | what failed |", "|---|---|---|---|"]
    for l in log:
        h, msg = l.split(' ', 1)
        if not msg.startswith('fix:'):
            continue
        prop, what = '?', ''
        for f in known['fixed']:
            if h in f:
                mm = re.match(r'fixed: property=(\S+) (\S+) (.*)', f)
                prop, what = mm.group(1), mm.group(3)
                break
        rows.append("| `%s` | %s | %s | %s |" % (h, prop, msg[5:], what.replace('|', '/')))
    return '\n'.join(rows) + "\n\n(%d fix commits.)" % (len(rows) - 2)


def known_section(known):
    out = []
    by = {}
    for k in known['findings']:
        if k.get('status', 'open') == 'open':
            by.setdefault(k['property'], []).append(k)
    for pid in sorted(by):
        ks = by[pid]
        out.append("**%s** — %d finding(s)\n" % (pid, len(ks)))
        # group identical reasons
        groups = {}
        for k in ks:
            groups.setdefault(k.get('why_not_fixed', ''), []).append(k)
        for why, g in groups.items():
            if len(g) > 6:
                out.append("- %d findings with signatures `%s`, … : %s *Not repaired because:* %s" % (len(g), '`, `'.join(x['signature'] for x in g[:4]), g[0]['what'], why))
            else:
                for k in g:
                    out.append("- `%s` — %s *Not repaired because:* %s" % (k['signature'], k['what'], why))
        out.append("")
    return '\n'.join(out)


def catch_tables():
    p = os.path.join(HERE, 'catch_table.json')
    if not os.path.exists(p):
        return "(catch_table.json not generated yet: run tools/mutants.py --seeded --table and tools/mutants.py --table)", "(idem)"
    t = json.load(open(p))

    def table(rows):
        out = ["| change | property | verdict | reported by (first obligations / signatures) |", "|---|---|---|---|"]
        for r in rows:
            obs = '; '.join('`%s`' % o[:120].replace('|', '/') for o in r['obligations'][:3]) or '–'
            out.append("| %s | %s | %s | %s |" % (r['name'], r['prop'], r['verdict'], obs))
        return '\n'.join(out)
    seeds = table(t.get('seeds', []))
    muts = table(t.get('mutants', []))
    return seeds, muts


def also_check_sentence():
    rows = []
    sd = os.path.join(HERE, 'seeded')
    for n in sorted(os.listdir(sd)):
        mp = os.path.join(sd, n, 'meta.json')
        if os.path.exists(mp):
            m = json.load(open(mp))
            if m.get('also_check'):
                rows.append("%s: %s" % (n, ', '.join(m['also_check'])))
    total = len([n for n in os.listdir(sd) if os.path.exists(os.path.join(sd, n, 'patch.diff'))])
    return ("%d changes are kept. A change whose violation belongs to a neighbouring property is also run against that property's check (`also_check` in its meta.json; "
            "the table row says which check reported it): %s." % (total, '; '.join(rows)))


def main():
    mods = check_modules()
    known = json.load(open(os.path.join(HERE, 'known_findings.json')))
    tpl = open(os.path.join(HERE, 'tools', 'DESIGN.template.md')).read()
    na = json.load(open(os.path.join(HERE, 'tools', 'not_applicable.json')))
    na_txt = '\n'.join("- **%s — %s.** %s" % (k, PROPS[k]['title'], v['reason']) for k, v in sorted(na.items()))
    seeds, muts = catch_tables()
    fa = '\n'.join("- %s" % x for x in NOTES['false_alarms'])
    out = (tpl.replace('{{SUMMARY_TABLE}}', summary_table(mods)).replace('{{PER_PROPERTY}}', per_property(mods, known))
           .replace('{{NOT_APPLICABLE}}', na_txt).replace('{{FIXES}}', fixes(known)).replace('{{KNOWN}}', known_section(known))
           .replace('{{FALSE_ALARMS}}', fa).replace('{{CATCH_SEEDS}}', seeds).replace('{{CATCH_MUTANTS}}', muts)
           .replace('{{STRENGTHENED}}', NOTES['strengthened']).replace('{{ALSO_CHECK}}', also_check_sentence())
           .replace('{{N_FIXES}}', str(sum(1 for l in subprocess.run(['git', '-C', '/repo', 'log', '--format=%s'], capture_output=True, text=True).stdout.splitlines() if l.startswith('fix:'))))
           .replace('{{N_KNOWN}}', str(sum(1 for k in known['findings'] if k.get('status', 'open') == 'open'))))
    open(os.path.join(HERE, 'DESIGN.md'), 'w').write(out)
    print("DESIGN.md written: %d lines" % out.count('\n'))


if __name__ == '__main__':
    main()
