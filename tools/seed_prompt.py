#!/usr/bin/env python3
"""Print the prompt given to a seeding sub-agent for property <id> (property text only, nothing from /verif)."""
import json, sys
pid = sys.argv[1]
wt = sys.argv[2] if len(sys.argv) > 2 else f"/tmp/seed/{pid}"
out = sys.argv[3] if len(sys.argv) > 3 else f"/tmp/seed_out/{pid}"
for l in open('/verif/properties.jsonl'):
    p = json.loads(l)
    if p['id'] == pid:
        break
else:
    raise SystemExit("no such property")
print(f"""You are helping to evaluate a verification tool by producing realistic *property-breaking* changes to the open-source Python library glue-viz/glue (glue-core).

You have your own scratch git worktree of the library at {wt} (detached HEAD, clean). Work ONLY inside {wt} and write your deliverables to {out}. Do NOT read or touch /repo, /verif or any other directory outside {wt} and {out}. The interpreter is /venv/bin/python (glue is importable from the worktree when you run with the worktree as current directory: `cd {wt} && /venv/bin/python -m pytest glue/...`; confirm `glue.__file__` points into {wt}). There is no network.

The property of glue that your change must break:

  Title: {p['title']}
  Statement: {p['statement']}
  Scope (what the property quantifies over): {p['quantifier']['text']}
  Relevant files (a hint, not a limit): {', '.join(p['anchors']['files'])}

Task: produce TWO independent alternative changes (A and B, at different code sites or of different nature) to the library source (not to tests) such that, for each:
  1. the library still imports and the EXISTING test-suite still passes with the change (at minimum run the test modules of the files you touched and of their main callers, e.g. `cd {wt} && /venv/bin/python -m pytest -q -p no:cacheprovider glue/core/tests glue/utils/tests -x -q`; the full suite `cd {wt} && /venv/bin/python -m pytest -q -p no:cacheprovider glue` takes about 15 minutes - run it once per final change if you can; the 8 tests that already fail on the clean tree (pandas/excel/wcs_autolinking ones) do not count);
  2. the change makes the library violate the property above for some input / sequence of operations;
  3. the violation needs something SPECIFIC to manifest - a particular multi-step sequence of operations, an unusual but legal input (particular shape, step, dtype, nesting, ordering, angle...), re-entrancy, an exception at a particular point, or two cooperating sites that each look fine alone - NOT something that ordinary use would expose at once. It should look like a plausible refactoring slip, an optimisation or an off-by-one that a reviewer could miss, not sabotage.
  4. you provide a demonstration: a small standalone Python program `demo_A.py` (resp. `demo_B.py`) that uses only the public behaviour of the library, exits with status 1 (printing what went wrong) when run against the changed tree and exits 0 against the unchanged tree. Run it as `cd {wt} && PYTHONPATH={wt} /venv/bin/python {out}/demo_A.py` (the PYTHONPATH matters: without it the script would import the installed copy; make the demo print glue.__file__) both with and without your change (switch with `git diff > /tmp/seed_out/<id>/wip.diff; git checkout -- .; ...; git apply /tmp/seed_out/<id>/wip.diff` - do NOT use `git stash`: the stash is shared between all worktrees of the repository and other agents are working in parallel) and confirm both outcomes yourself.

Deliverables in {out}: `patch_A.diff` and `patch_B.diff` (each produced by `git diff` in the worktree against the clean HEAD, each applying on its own to a clean tree), `demo_A.py`, `demo_B.py`, and `notes.md` saying for each change: what it changes, why the existing tests do not notice, what exactly is needed for the violation to manifest, and which test commands you ran with their pass/fail counts. Leave the worktree clean (`git checkout -- .`) when done. Do not commit anything. Keep each patch small (a few lines).

Your final message should summarise, for A and B, the site changed, the trigger, and the test results.""")
