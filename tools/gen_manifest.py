#!/usr/bin/env python3
"""Regenerates /verif/MANIFEST.json from checks/*.py metadata (MANIFEST dict in each check module) so it is always valid."""
import importlib, json, os, sys, glob
HERE = os.path.dirname(os.path.dirname(os.path.abspath(__file__)))
sys.path.insert(0, HERE)
props = [json.loads(l) for l in open(os.path.join(HERE, 'properties.jsonl'))]
NA = json.load(open(os.path.join(HERE, 'tools', 'not_applicable.json')))
checks = []
for p in props:
    pid = p['id']
    f = os.path.join(HERE, 'checks', pid.lower() + '.py')
    if not os.path.exists(f) or pid in NA and NA[pid].get('force'):
        continue
    src = open(f).read()
    ns = {}
    # MANIFEST_ENTRY is a literal dict at the end of the module
    import ast
    tree = ast.parse(src)
    entry = None
    for st in tree.body:
        if isinstance(st, ast.Assign) and getattr(st.targets[0], 'id', None) == 'MANIFEST_ENTRY':
            entry = ast.literal_eval(st.value)
    if entry is None:
        continue
    checks.append({
        "property_id": pid,
        "quick_cmd": "./check %s --tier quick" % pid,
        "thorough_cmd": "./check %s --tier thorough" % pid,
        "evidence_file": "/verif/evidence/%s.json" % pid,
        "replay_cmd_template": "./check %s --replay {path}" % pid,
        "engine": entry.get("engine", "pyvc"),
        "level_claimed": {"category": entry["level"], "text": entry["text"], "design_ref": entry.get("design_ref", "DESIGN.md section 2, " + pid)},
        "level_note": entry["note"],
        "technique": entry["technique"],
    })
claimed = {c['property_id'] for c in checks}
na = [{"property_id": p['id'], "reason": NA.get(p['id'], {}).get('reason', 'check not built yet in this round; see DESIGN.md')}
      for p in props if p['id'] not in claimed]
m = {
    "version": 1,
    "setup_cmd": "./setup.sh",
    "hooks": {"guard": "GLUE_VERIF", "enable": "no hook is needed: contracts are sidecar files, run-time wrappers are installed by the checker process; /repo is not instrumented",
              "baseline_off_cmd": "cd /repo && /venv/bin/python -m pytest -ra -q -p no:cacheprovider --timeout=900 --continue-on-collection-errors --junitxml=/tmp/glue_baseline.junit.xml",
              "source_commits": [], "add_only": True},
    "engines": [
        {"name": "pyvc", "path": "/verif/pyvc", "serves_properties": sorted(claimed),
         "kind_free_text": "AST->z3 symbolic executor over the real function text re-read from /repo on every run; sidecar contracts in /verif/contracts; VCs discharged by z3 5.1.0 (python), fallback cvc5 1.0.3 and z3 4.8.12"},
        {"name": "bounded", "path": "/verif/bounded", "serves_properties": sorted(claimed),
         "kind_free_text": "bounded stand-in: the same contract clauses evaluated natively on the real functions over exhaustively enumerated small scopes (+seeded random); labelled bounded, never counted as proved"},
    ],
    "checks": checks,
    "not_applicable": na,
    "notes": "Technique family: contract-based deductive verification of the real code. See DESIGN.md. Known findings: /verif/known_findings.json.",
}
json.dump(m, open(os.path.join(HERE, 'MANIFEST.json'), 'w'), indent=1)
print("checks:", sorted(claimed), "not_applicable:", [x['property_id'] for x in na])
