#!/usr/bin/env python3
"""Confirm a seeded change produced by a sub-agent, in a scratch worktree of /repo (removed afterwards):
 1. demo exits 0 on the clean tree, 2. patch applies, 3. demo exits 1 with the patch, 4. the existing suite still passes
 (same failures as the 8 baseline always-fail tests).  On success writes /verif/seeded/<id>-<X>/{patch.diff,demo.py,meta.json}.
usage: confirm_seed.py C07 A [--no-suite]"""
import json, os, re, shutil, subprocess, sys, time
pid, X = sys.argv[1], sys.argv[2]
suite = '--no-suite' not in sys.argv
src = '/tmp/seed_out/%s' % pid
NAME = X
if '--src' in sys.argv:
    src = sys.argv[sys.argv.index('--src') + 1]
if '--as' in sys.argv:                      # store under another letter (second-round seeds: A -> C, B -> D)
    NAME = sys.argv[sys.argv.index('--as') + 1]
wt = '/tmp/confirm_%s_%s' % (pid, NAME)
out = '/verif/seeded/%s-%s' % (pid, NAME)
PY = '/venv/bin/python'
def sh(cmd, **kw):
    return subprocess.run(cmd, shell=True, capture_output=True, text=True, **kw)
sh('git -C /repo worktree remove --force %s' % wt)
r = sh('git -C /repo worktree add --detach %s HEAD' % wt); assert r.returncode == 0, r.stderr
log = {}
try:
    env = dict(os.environ, PYTHONPATH=wt)
    demo = '%s/demo_%s.py' % (src, X)
    patch = '%s/patch_%s.diff' % (src, X)
    r0 = subprocess.run([PY, demo], cwd=wt, env=env, capture_output=True, text=True)
    log['demo_clean_exit'] = r0.returncode
    r = sh('git apply %s' % patch, cwd=wt)
    if r.returncode != 0:
        r = sh('patch -p1 --fuzz=3 -i %s' % patch, cwd=wt)
    log['patch_applied'] = (r.returncode == 0)
    if r.returncode != 0:
        print('PATCH FAILED', r.stdout, r.stderr); sys.exit(2)
    diff = sh('git diff', cwd=wt).stdout
    r1 = subprocess.run([PY, demo], cwd=wt, env=env, capture_output=True, text=True)
    log['demo_patched_exit'] = r1.returncode
    log['demo_patched_tail'] = (r1.stdout + r1.stderr)[-600:]
    ok = r0.returncode == 0 and r1.returncode == 1
    if suite and ok:
        t0 = time.time()
        for attempt in (1, 2):      # one retry: test_recalc_on_state_changes errors now and then under xdist load, with or without any patch
            r = sh('%s -m pytest -q -p no:cacheprovider glue -n 10 2>&1 | tail -15' % PY, cwd=wt, env=env)
            tail = r.stdout
            mm = re.search(r'(\d+) failed, (\d+) passed', tail)
            if mm is not None and int(mm.group(1)) <= 8 and int(mm.group(2)) >= 1467 and ' error' not in tail.strip().splitlines()[-1]:
                break
        failed = sorted(set(re.findall(r'FAILED (\S+)', tail)))
        base = json.load(open('/root/.vp/BASELINE.json'))['always_fail']
        basef = set(b.replace('.', '/') for b in base)
        def norm(f):  # path::test -> dotted-ish comparable key
            return f.replace('.py::', '/').replace('::', '/').replace('.', '/')
        extra = [f for f in failed if not any(norm(f).endswith(b.split('::')[-1].replace('.', '/')) or b.replace('::', '/').replace('.', '/') in norm(f) for b in base)]
        m = re.search(r'(\d+) failed, (\d+) passed', tail)
        log['suite'] = {'summary': tail.strip().splitlines()[-1] if tail.strip() else '', 'failed': failed, 'wall_s': round(time.time() - t0)}
        ok = ok and m is not None and int(m.group(1)) <= 8 and int(m.group(2)) >= 1467
    print(json.dumps(log, indent=1))
    if ok:
        os.makedirs(out, exist_ok=True)
        open(out + '/patch.diff', 'w').write(diff)
        shutil.copy(demo, out + '/demo.py')
        notes = open(src + '/notes.md').read() if os.path.exists(src + '/notes.md') else ''
        meta = {'property': pid, 'variant': NAME, 'base_commit': sh('git -C /repo rev-parse --short HEAD').stdout.strip(),
                'needs': '(see notes.md)', 'confirmed': {'demo_clean_exit': 0, 'demo_patched_exit': 1, 'suite': log.get('suite', 'not run')},
                'ran': ['PYTHONPATH=<wt> /venv/bin/python demo.py (clean: exit 0, patched: exit 1)', 'cd <wt> && /venv/bin/python -m pytest -q -p no:cacheprovider glue -n 10']}
        json.dump(meta, open(out + '/meta.json', 'w'), indent=1)
        open(out + '/notes.md', 'w').write(notes)
        print('CONFIRMED ->', out)
    else:
        print('NOT CONFIRMED')
finally:
    sh('git -C /repo worktree remove --force %s' % wt)
sys.exit(0 if ok else 1)
