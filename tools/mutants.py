#!/usr/bin/env python3
"""Engine/mutation self-test: applies each deliberately broken body of selftest/mutants.py (or a seeded patch under
/verif/seeded/<id>/patch.diff) to a SCRATCH COPY of /repo/glue (outside /repo and /verif, removed afterwards) and runs
the property's check against it (GLUE_REPO=<scratch>).  Each mutant must make the check exit 1.
usage: tools/mutants.py [--prop C20] [--name substr] [--seeded] [--jobs N] [--tier quick]"""
import argparse, json, os, shutil, subprocess, sys, tempfile, time
from concurrent.futures import ThreadPoolExecutor
HERE = os.path.dirname(os.path.dirname(os.path.abspath(__file__)))
sys.path.insert(0, HERE)


def make_scratch(tag):
    d = tempfile.mkdtemp(prefix='pyvc_mut_%s_' % tag, dir='/tmp')
    shutil.copytree('/repo/glue', os.path.join(d, 'glue'), ignore=shutil.ignore_patterns('__pycache__', '*.pyc'))
    for f in ('setup.py', 'setup.cfg', 'pyproject.toml'):
        if os.path.exists('/repo/' + f):
            shutil.copy('/repo/' + f, d)
    return d


def run_one(m, tier):
    tag = ''.join(ch if ch.isalnum() else '_' for ch in m['name'])[:30]
    d = make_scratch(tag)
    t0 = time.time()
    try:
        if 'patch' in m:
            r = subprocess.run(['git', 'apply', '--unsafe-paths', '--directory', d, m['patch']], cwd=d, capture_output=True, text=True)
            if r.returncode != 0:
                r = subprocess.run(['patch', '-p1', '-d', d, '-i', m['patch']], capture_output=True, text=True)
                if r.returncode != 0:
                    return m, 'patch-failed', r.stdout + r.stderr, 0
        else:
            p = os.path.join(d, m['file'])
            s = open(p).read()
            if s.count(m['old']) != 1:
                return m, 'mutation-site-not-unique(%d)' % s.count(m['old']), '', 0
            open(p, 'w').write(s.replace(m['old'], m['new']))
        env = dict(os.environ, GLUE_REPO=d, VERIF_EVIDENCE_DIR=os.path.join(d, 'evidence'), VERIF_REPLAY_DIR=os.path.join(d, 'replays'),
                   VERIF_TIER=tier)
        outs = []
        verdict = 'MISSED'
        for prop in m['props']:
            r = subprocess.run([os.path.join(HERE, 'check'), prop, '--tier', tier], env=env, capture_output=True, text=True)
            out = '\n'.join(l for l in (r.stdout + r.stderr).splitlines() if 'WARNING' not in l)
            outs.append("[%s exit=%d]\n%s" % (prop, r.returncode, out[:6000] + "\n...\n" + out[-8000:] if len(out) > 14000 else out))
            if r.returncode == 1 and 'VIOLATION' in out:
                verdict = 'caught'
                exp = m.get('expect')
                if exp and exp not in out:
                    verdict = 'caught(other-obligation)'
                break
            if r.returncode not in (0, 1):
                verdict = 'checker-exit-%d' % r.returncode
        if m.get('expect_pass'):
            verdict = 'caught(expected-pass: no alarm)' if verdict == 'MISSED' else 'FALSE-ALARM(' + verdict + ')'
        return m, verdict, '\n'.join(outs), time.time() - t0
    finally:
        shutil.rmtree(d, ignore_errors=True)


def main():
    ap = argparse.ArgumentParser()
    ap.add_argument('--prop'); ap.add_argument('--name'); ap.add_argument('--seeded', action='store_true')
    ap.add_argument('--jobs', type=int, default=2); ap.add_argument('--tier', default='quick'); ap.add_argument('-v', action='store_true')
    ap.add_argument('--table', help='write a JSON list {name, prop, verdict, obligations} (which obligation / bounded signature reported each change)')
    a = ap.parse_args()
    ms = []
    if a.seeded:
        for sd in sorted(os.listdir(os.path.join(HERE, 'seeded'))):
            meta = os.path.join(HERE, 'seeded', sd, 'meta.json')
            if os.path.exists(meta):
                mj = json.load(open(meta))
                ms.append({'name': 'seeded/' + sd, 'props': [mj['property']] + mj.get('also_check', []), 'patch': os.path.join(HERE, 'seeded', sd, 'patch.diff')})
    else:
        from selftest.mutants import MUTANTS
        ms = [dict(m, props=[m['prop']]) for m in MUTANTS]
    if a.prop:
        ms = [m for m in ms if a.prop in m['props']]
    if a.name:
        ms = [m for m in ms if a.name in m['name']]
    bad = 0
    table = []
    with ThreadPoolExecutor(a.jobs) as ex:
        for m, verdict, out, dt in ex.map(lambda m: run_one(m, a.tier), ms):
            print("%-55s %-28s %5.0fs" % (m['name'], verdict, dt))
            import re
            obls = re.findall(r'VIOLATION property=\S+ replay=\S+ obligation=(.*?) detail=', out)
            table.append({'name': m['name'], 'prop': m['props'][0], 'verdict': verdict, 'obligations': obls[:6], 'n_violation_lines': out.count('VIOLATION property=')})
            if not verdict.startswith('caught') or a.v:
                print('    ' + out.replace('\n', '\n    ')[-2500:])
            if not verdict.startswith('caught'):
                bad += 1
    if a.table:
        json.dump(table, open(a.table, 'w'), indent=1)
    print("%d mutants, %d not caught" % (len(ms), bad))
    return 1 if bad else 0


if __name__ == '__main__':
    sys.exit(main())
