"""Fixed mutant list (DESIGN.md appendix C): deliberately broken bodies, applied to a scratch copy only."""
A = 'glue/utils/array.py'
MUTANTS = [
    dict(prop='C20', name='find_chunk_shape:no-division', file=A,
         old="max_repeat_remaining = max_repeat_remaining // size", new="max_repeat_remaining = max_repeat_remaining",
         expect='size<=n_max'),
    dict(prop='C20', name='iterate_chunks:carry->', file=A,
         old="            if start_index[i] >= shape[i]:\n                start_index[i] = 0",
         new="            if start_index[i] > shape[i]:\n                start_index[i] = 0"),
    dict(prop='C20', name='iterate_chunks:no-min', file=A,
         old="end_index = [min(start_index[i] + chunk_shape[i], shape[i]) for i in range(ndim)]",
         new="end_index = [start_index[i] + chunk_shape[i] for i in range(ndim)]", expect='inside-array'),
    dict(prop='C20', name='iterate_chunks:break->', file=A,
         old="        if start_index[-1] >= shape[-1]:\n            break",
         new="        if start_index[-1] > shape[-1]:\n            break"),
    dict(prop='C20', name='combine_slices:no-alignment', file=A,
         old="    if (beg - beg2) % step2 != 0:\n        beg += step2 - ((beg - beg2) % step2)\n", new=""),
    dict(prop='C20', name='combine_slices:end_new+1', file=A,
         old="        if (end - beg1) % step1 != 0:\n            end_new += 1", new="        end_new += 1"),
    dict(prop='C20', name='combine_slices:step2', file=A,
         old="return slice(indices[0], end_new, indices[1] - indices[0])", new="return slice(indices[0], end_new, step2)"),
    dict(prop='C20', name='combine_slices:early-exit>', file=A,
         old="    if beg2 >= end1 or end2 <= beg1:", new="    if beg2 > end1 or end2 < beg1:",
         expect_pass=True),   # equivalent mutant: the boundary cases fall through to an empty loop and return slice(0, 0, 1) as well
    dict(prop='C20', name='combine_slices:harmless-rename', file=A,
         old="    beg = max(beg1, beg2)\n    end = min(end1, end2)", new="    end = min(end1, end2)\n    beg = max(beg1, beg2)",
         expect_pass=True),
]
