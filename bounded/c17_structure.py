"""C17 bounded stand-in: structural invariant of a dataset + hub-message oracle after every step of operation
sequences over the Data mutation API (valid and invalid arguments), inside and outside a collection."""
import itertools
import random

import numpy as np


def invariant(d):
    """list of violated clauses of the structural invariant"""
    bad = []
    from glue.core.component import CoordinateComponent, DerivedComponent
    comps = list(d.components)
    ids = [id(c) for c in comps]
    if len(set(ids)) != len(ids):
        bad.append("component identifiers are not unique")
    for c in comps:
        try:
            shp = np.shape(d[c])
        except Exception as e:
            bad.append("attribute %s cannot be read: %s" % (c.label, type(e).__name__))
            continue
        if tuple(shp) != tuple(d.shape):
            bad.append("attribute %s has shape %r, the dataset %r" % (c.label, tuple(shp), tuple(d.shape)))
    if len(d.components) > 0:
        if len(d.pixel_component_ids) != d.ndim:
            bad.append("%d pixel attributes for %d dimensions" % (len(d.pixel_component_ids), d.ndim))
        want_world = d.ndim if d.coords is not None else 0
        if len(d.world_component_ids) != want_world:
            bad.append("%d world attributes, expected %d" % (len(d.world_component_ids), want_world))
        for p in list(d.pixel_component_ids) + list(d.world_component_ids):
            if not any(p is c for c in comps):
                bad.append("coordinate attribute %s is not listed among the components" % p.label)
        n_coord = sum(1 for c in comps if isinstance(d.get_component(c), CoordinateComponent))
        if n_coord != len(d.pixel_component_ids) + len(d.world_component_ids):
            bad.append("%d coordinate components stored, %d pixel+world ids listed" % (n_coord, len(d.pixel_component_ids) + len(d.world_component_ids)))
    # lookup by name: the unique match (by documented precedence) or nothing
    labels = set(c.label for c in comps)
    cats = [list(d.main_components), list(d.derived_components), list(d.coordinate_components)]
    for lab in labels:
        exp = None
        for cat in cats:
            m = [c for c in cat if c.label == lab]
            if len(m) == 1:
                exp = m[0]
                break
            if len(m) > 1:
                exp = None
                break
        got = d.find_component_id(lab)
        if got is not exp:
            bad.append("lookup of %r returns %s, expected %s" % (lab, getattr(got, 'label', None) and 'an attribute' if got is not None else None,
                                                               'the unique match' if exp is not None else 'nothing (ambiguous)'))
    return bad


class Recorder:
    def __init__(self, hub):
        from glue.core.hub import HubListener
        from glue.core import message as M
        self.log = []
        self.l = HubListener()
        for name in ('DataAddComponentMessage', 'DataRemoveComponentMessage', 'ComponentsChangedMessage', 'ComponentReplacedMessage',
                     'DataReorderComponentMessage', 'NumericalDataChangedMessage', 'DataUpdateMessage', 'DataRenameComponentMessage'):
            cls = getattr(M, name, None)
            if cls is not None:
                hub.subscribe(self.l, cls, handler=lambda m, name=name: self.log.append((name, m)))

    def take(self):
        out, self.log = self.log, []
        return out


class World:
    def __init__(self, in_collection, with_coords, ndim):
        from glue.core import Data, DataCollection
        from glue.core.hub import Hub
        from glue.core.coordinates import IdentityCoordinates
        shape = (4,) if ndim == 1 else (2, 3)
        self.shape = shape
        kw = dict(a=np.arange(np.prod(shape), dtype=float).reshape(shape), b=np.ones(shape))
        self.d = Data(label='d', coords=IdentityCoordinates(n_dim=ndim) if with_coords else None, **kw)
        self.d['c'] = self.d.id['a'] + self.d.id['b']
        self.d['e'] = self.d.id['c'] * 2
        if in_collection:
            self.dc = DataCollection([self.d])
            hub = self.dc.hub
        else:
            hub = Hub()
            self.d.register_to_hub(hub)
        self.rec = Recorder(hub)
        self.k = 0

    def cid(self, name):
        m = [c for c in self.d.components if c.label == name]
        return m[0] if m else None

    def do(self, op):
        """returns (expected message kinds as a multiset list, or None when not predicted) ; raises only checker errors"""
        from glue.core.component_id import ComponentID
        from glue.core import Data
        d = self.d
        k = op[0]
        before = [c for c in d.components]
        try:
            if k == 'add':
                self.k += 1
                d.add_component(np.full(self.shape, float(self.k)), 'n%d' % self.k)
                return ['DataAddComponentMessage', 'ComponentsChangedMessage'], None
            if k == 'add-same-name':
                # a second attribute under a name that is already in use is a new attribute like any other
                c = self.cid(op[1])
                if c is None:
                    return None, None
                n0 = len(d.components)
                d.add_component(np.full(self.shape, 7.0), op[1])
                if len(d.components) != n0 + 1:
                    return None, "add_component under the used name %r did not add an attribute" % op[1]
                return ['DataAddComponentMessage', 'ComponentsChangedMessage'], None
            if k == 'update_components-partly-bad':
                # the first entry is fine, a later one is rejected: nothing may have been replaced
                ca, cb = self.cid('a'), self.cid('b')
                if ca is None or cb is None or ca in d.derived_components or cb in d.derived_components:
                    return None, None
                va, vb = np.array(d[ca]).copy(), np.array(d[cb]).copy()
                bad = np.zeros((9,)) if op[1] == 'shape' else None
                try:
                    if op[1] == 'shape':
                        d.update_components({ca: np.full(self.shape, 4.0), cb: bad})
                    else:
                        d.update_components({ca: np.full(self.shape, 4.0), ComponentID('not-in-this-dataset'): np.full(self.shape, 1.0)})
                except Exception:
                    same = np.array_equal(np.array(d[ca]), va, equal_nan=True) and np.array_equal(np.array(d[cb]), vb, equal_nan=True)
                    return ([], None) if same else (None, "a rejected update_components (%s) replaced the values of an earlier entry without announcing it" % op[1])
                return None, "update_components accepted an invalid entry (%s)" % op[1]
            if k == 'add-bad-shape':
                self.k += 1
                try:
                    d.add_component(np.zeros((7,)), 'bad%d' % self.k)
                except ValueError:
                    return [], None
                return None, "a component of the wrong shape was accepted"
            if k == 'add-existing-id':
                c = self.cid('b')
                if c is None:
                    return None, None
                d.add_component(np.full(self.shape, 5.0), c)
                return [], None
            if k == 'add-derived':
                a = self.cid('a')
                if a is None:
                    return None, None
                self.k += 1
                d['der%d' % self.k] = a * 3
                return ['DataAddComponentMessage', 'ComponentsChangedMessage'], None
            if k == 'remove':
                c = self.cid(op[1])
                if c is None:
                    d.remove_component(ComponentID('ghost'))
                    return [], None
                # dependents (transitively) go with it
                n = len(self._dependents(c)) + 1
                d.remove_component(c)
                return ['DataRemoveComponentMessage', 'ComponentsChangedMessage'] * n, None
            if k == 'reorder':
                comps = list(d.components)
                new = comps[::-1] if op[1] == 'reverse' else list(comps)
                d.reorder_components(new)
                return (['DataReorderComponentMessage'] if (op[1] == 'reverse' and len(comps) > 1) else []), None
            if k == 'reorder-bad':
                comps = list(d.components)
                try:
                    d.reorder_components(comps[:-1])
                except ValueError:
                    return [], None
                return None, "reorder_components accepted an incomplete list"
            if k == 'rename':
                c = self.cid(op[1])
                if c is None:
                    return None, None
                c.label = op[1] + "'"
                return None, None                      # message kind differs between versions: not predicted
            if k == 'update_id':
                c = self.cid(op[1])
                if c is None:
                    return None, None
                new = ComponentID(op[1] + '*')
                d.update_id(c, new)
                return ['ComponentReplacedMessage'], None
            if k == 'update_id-same':
                c = self.cid('a') or d.components[0]
                d.update_id(c, c)
                return [], None
            if k == 'update_components':
                c = self.cid(op[1])
                if c is None or c in d.derived_components:
                    return None, None
                d.update_components({c: np.full(self.shape, 9.0)})
                return ['NumericalDataChangedMessage'], None
            if k == 'update_components-bad':
                c = self.cid('a')
                if c is None:
                    return None, None
                try:
                    d.update_components({c: np.zeros((9,))})
                except ValueError:
                    return [], None
                return None, "update_components accepted a wrong shape"
            if k == 'update_values':
                shape = self.shape if op[1] == 'same' else ((5,) if len(self.shape) == 1 else (3, 2))
                n = Data(label='d', a=np.zeros(shape), b=np.ones(shape), z=np.full(shape, 2.0))
                labels = [c.label for c in d.main_components]
                if len(set(labels)) != len(labels):
                    # documented refusal: with two attributes of one name the values cannot be matched up by name
                    try:
                        d.update_values_from_data(n)
                    except ValueError:
                        return [], None
                    return None, "update_values_from_data accepted a dataset with non-unique attribute names"
                d.update_values_from_data(n)
                self.shape = shape
                return None, None
            if k == 'set_coords':
                from glue.core.coordinates import IdentityCoordinates, AffineCoordinates
                if op[1] == 'none':
                    d.coords = None
                elif op[1] == 'identity':
                    d.coords = IdentityCoordinates(n_dim=d.ndim)
                else:
                    m = np.eye(d.ndim + 1)
                    m[0, 0] = 2.0
                    d.coords = AffineCoordinates(m)
                return None, None
        except (ValueError, TypeError, KeyError) as e:
            return None, "%s raised %s: %s" % (op, type(e).__name__, e)
        raise ValueError(op)

    def _dependents(self, c):
        d = self.d
        out, frontier = [], [c]
        while frontier:
            x = frontier.pop()
            for cid in d.derived_components:
                comp = d.get_component(cid)
                if any(x is f for f in comp.link.get_from_ids()) and not any(cid is o for o in out):
                    out.append(cid)
                    frontier.append(cid)
        return out


OPS = [('add',), ('add-same-name', 'a'), ('add-same-name', 'b'), ('update_components-partly-bad', 'shape'), ('update_components-partly-bad', 'unknown-id'), ('add-bad-shape',), ('add-existing-id',), ('add-derived',), ('remove', 'a'), ('remove', 'c'), ('remove', 'b'), ('remove', 'zz'),
       ('reorder', 'reverse'), ('reorder', 'same'), ('reorder-bad',), ('rename', 'a'), ('update_id', 'a'), ('update_id', 'c'), ('update_id-same',),
       ('update_components', 'b'), ('update_components-bad',), ('update_values', 'same'), ('update_values', 'other'),
       ('set_coords', 'none'), ('set_coords', 'identity'), ('set_coords', 'affine')]


def run_sequence(cfg, seq):
    w = World(*cfg)
    w.rec.take()
    for i, op in enumerate(seq):
        order_before = [c for c in w.d.components]
        exp, err = w.do(op)
        if err:
            return i, ('operation', err)
        got = w.rec.take()
        bad = invariant(w.d)
        if bad:
            return i, ('invariant', '; '.join(bad[:3]))
        kinds = sorted(k for k, m in got)
        for k, m in got:
            sender = getattr(m, 'sender', None)
            if k.startswith('Data') or k.startswith('Component') or k.startswith('Numerical'):
                if getattr(m, 'data', sender) is not w.d and sender is not w.d:
                    return i, ('message-sender', "%s does not carry the affected dataset" % k)
        if exp is not None and kinds != sorted(exp):
            return i, ('messages', "announced %s, the change that happened calls for %s" % (kinds, sorted(exp)))
        # stable order: operations other than reorder/remove/update_values keep the relative order of surviving components
        if op[0] not in ('reorder', 'update_values', 'set_coords', 'update_id'):
            after = [c for c in w.d.components]
            surv = [c for c in order_before if any(c is a for a in after)]
            pos = [next(j for j, a in enumerate(after) if a is c) for c in surv]
            if pos != sorted(pos):
                return i, ('order', "the relative order of existing components changed")
        if op[0] == 'update_id' and exp:
            after = [c.label for c in w.d.components]
            b = [c.label for c in order_before]
            if [x.rstrip('*') for x in after] != [x.rstrip('*') for x in b]:
                return i, ('order', "update_id moved the component: %s -> %s" % (b, after))
    return None


def run_sequence_batched(cfg, seq):
    """the same operations inside one hub.delay_callbacks() block: when the block closes every change must still be announced
    (the multiset of messages equals the sum of what each change calls for)"""
    w = World(*cfg)
    w.rec.take()
    hub = w.d.hub
    if hub is None:
        return None
    exp_all = []
    predicted = True
    with hub.delay_callbacks():
        for i, op in enumerate(seq):
            exp, err = w.do(op)
            if err:
                return i, ('operation', err)
            if exp is None:
                predicted = False
            else:
                exp_all += list(exp)
        inside = w.rec.take()
        if inside:
            return len(seq) - 1, ('batched-messages', "messages %s were delivered before the delay block closed" % sorted(k for k, m in inside))
    got = sorted(k for k, m in w.rec.take())
    bad = invariant(w.d)
    if bad:
        return len(seq) - 1, ('invariant', '; '.join(bad[:3]))
    if predicted and got != sorted(exp_all):
        return len(seq) - 1, ('batched-messages', "inside one delay block the changes call for %s, announced when it closed: %s" % (sorted(exp_all), got))
    return None


def run(tier, seed, R):
    rng = random.Random(seed)
    L = 2 if tier == 'quick' else 3
    cfgs = [(ic, wc, nd) for ic in (True, False) for wc in (True, False) for nd in (1, 2)]
    R.rule = ("real Data (1-d/2-d, with/without coordinates, inside/outside a collection, with two chained derived attributes): ALL operation sequences of length <= %d over %d "
              "operations (add/remove/reorder/rename/update_id/update_components/update_values_from_data/coords changes, valid and invalid arguments) + random sequences of "
              "length 4-7; after every step: every attribute has the dataset's shape, one pixel id per dimension, world ids iff coordinates, unique ids, stable order, lookup by "
              "name = unique match by documented precedence, and the multiset of hub messages equals the documented messages of the change that happened; the same histories with "
              "every change made inside one hub.delay_callbacks() block (nothing delivered inside, everything announced when it closes). "
              "non-trivial = distinct (configuration, sequence) containing a structural change" % (L, len(OPS)))
    R.exhaustive = True

    def one(cfg, seq):
        try:
            r = run_sequence(cfg, seq)
        except Exception as e:
            import traceback
            tb = traceback.extract_tb(e.__traceback__)
            if tb and '/glue/' in tb[-1].filename:
                r = (len(seq) - 1, ('exception:%s' % type(e).__name__, "%s: %s (in %s)" % (type(e).__name__, e, tb[-1].name)))
            else:
                raise
        nt = any(o[0] in ('add', 'remove', 'reorder', 'update_id', 'update_values', 'set_coords', 'add-derived') for o in seq)
        R.count((cfg, seq) if nt else None, 'data-histories')
        if r is not None:
            i, (kind, detail) = r
            kinds = sorted(set(o[0] for o in seq[:i + 1]))
            R.fail("structure|%s|%s" % (kind, '+'.join(kinds)),
                   "dataset(in_collection=%s, coords=%s, ndim=%d) history %r: after step %d: %s" % (cfg + (list(seq[:i + 1]), i, detail)),
                   "from bounded.c17_structure import run_sequence\nr = run_sequence(%r, %r)\nprint(r)\nsys.exit(1 if r else 0)\n" % (cfg, list(seq[:i + 1])))
    for cfg in cfgs:
        for n in range(1, L + 1):
            for seq in itertools.product(OPS, repeat=n):
                one(cfg, seq)
    for _ in range(600 if tier == 'quick' else 6000):
        one(rng.choice(cfgs), tuple(rng.choice(OPS) for _ in range(rng.randint(4, 7))))
    # the same histories with all changes made inside one delay block of the hub
    for cfg in cfgs:
        for n in range(1, L + 1):
            for seq in itertools.product(OPS, repeat=n):
                try:
                    r = run_sequence_batched(cfg, seq)
                except Exception as e:
                    r = (len(seq) - 1, ('exception:%s' % type(e).__name__, "%s: %s" % (type(e).__name__, e)))
                R.count((cfg, seq, 'batched'), 'data-histories-in-a-delay-block')
                if r is not None:
                    i, (kind, detail) = r
                    kinds = sorted(set(o[0] for o in seq[:i + 1]))
                    R.fail("structure|batched|%s|%s" % (kind, '+'.join(kinds)),
                           "dataset(in_collection=%s, coords=%s, ndim=%d) history %r inside hub.delay_callbacks(): %s" % (cfg + (list(seq), detail)),
                           "from bounded.c17_structure import run_sequence_batched\nr = run_sequence_batched(%r, %r)\nprint(r)\nsys.exit(1 if r else 0)\n" % (cfg, list(seq)))
    R.samples.append({"history": "2-d dataset with coordinates in a collection: set_coords affine, remove a (c and e go too), add, reorder reverse -> invariant + messages after each"})
