"""View catalogue shared by C20, C04, C10 (DESIGN.md, C20): None, Ellipsis, tuples (possibly shorter than the rank)
of integers and positive-step slices, tuples of integer index arrays, boolean masks."""
import itertools
import numpy as np


def axis_entries(n, small):
    out = [slice(None)]
    if small:
        cand = [slice(0, n), slice(1, None), slice(None, -1), slice(None, None, 2), slice(1, None, 2), slice(-2, None),
                slice(0, 0), slice(n, None), 0, n - 1, -1]
    else:
        bounds = [None] + list(range(-n - 1, n + 2))
        cand = [slice(a, b, c) for a in bounds for b in bounds for c in (None, 1, 2, 3)] + list(range(-n, n))
    seen = set()
    for c in cand:
        k = repr(c)
        if k not in seen:
            seen.add(k)
            out.append(c)
    return out


def view_catalogue(shape, rng, small=True, with_arrays=True, max_views=None, ellipsis_in_tuples=True):
    d = len(shape)
    views = [None, Ellipsis]
    per_axis = [axis_entries(n, True if d > 1 or small else False) for n in shape]
    # full-length and shorter tuples
    for k in range(1, d + 1):
        combos = list(itertools.product(*per_axis[:k]))
        if len(combos) > (60 if small else 600):
            combos = rng.sample(combos, 60 if small else 600)
        views.extend(combos)
    if d == 1:
        views.extend(per_axis[0])           # bare (non-tuple) index
    if d >= 2 and ellipsis_in_tuples:
        views.append((Ellipsis, slice(None, None, 2)))
        views.append((0, Ellipsis))
    if with_arrays and all(n > 0 for n in shape):
        # tuples of integer index arrays, boolean mask
        idx = tuple(np.array([rng.randrange(n) for _ in range(3)]) for n in shape)
        views.append(idx)
        idx2 = tuple(np.array([[0, n - 1], [n // 2, 0]]) for n in shape)
        views.append(idx2)
        # shorter tuples of index arrays, and arrays mixed with slices / integers
        for k in range(1, d):
            views.append(tuple(np.array([rng.randrange(n) for _ in range(2)]) for n in shape[:k]))
            views.append(tuple(np.array([0]) for n in shape[:k]))
        if d >= 2:
            views.append((np.array([0, shape[0] - 1]), slice(None, None, 2)))
            views.append((slice(None), np.array([shape[1] - 1, 0, 0])))
            views.append((0, np.array([0, shape[1] - 1])))
        if d >= 3:
            views.append((np.array([0, shape[0] - 1]), slice(None), np.array([shape[2] - 1, 0])))
        # index arrays that are not C-ordered in memory (Fortran order, transposes): the result is defined by the indices, not the layout
        base = [np.array([[0, n - 1, 1 % n], [n // 2, 0, n - 1]]) for n in shape]
        views.append(tuple(np.asfortranarray(b) for b in base))
        views.append(tuple(np.array([[0, n // 2], [n - 1, 0], [1 % n, n - 1]]).T for n in shape))
        # negative entries in index arrays count from the end; index arrays of the same rank as the data
        views.append(tuple(np.array([-1, 0, -n]) for n in shape))
        views.append(tuple(np.array([0, n - 1, -1]).reshape((1,) * (d - 1) + (3,)) for n in shape))
        if d >= 2:
            views.append(tuple(np.array([rng.randrange(n) for _ in range(2 ** d)]).reshape((2,) * d) for n in shape))   # varies along every result axis
        mask = np.zeros(shape, dtype=bool)
        mask.flat[::2] = True
        views.append(mask)
        # boolean masks over the leading axes only (numpy keeps the remaining axes)
        for k in range(1, d):
            lead = np.zeros(shape[:k], dtype=bool)
            lead.flat[::2] = True
            views.append(lead)
    if max_views and len(views) > max_views:
        arrays = [v for v in views if isinstance(v, np.ndarray) or (isinstance(v, tuple) and any(isinstance(x, np.ndarray) for x in v))]
        rest = [v for v in views[2:] if not any(v is a for a in arrays)]
        views = views[:2] + arrays + rng.sample(rest, max(0, min(len(rest), max_views - 2 - len(arrays))))
    return views
