"""C01 bounded stand-in: run-time contract at EVERY node of real selection trees on real datasets.
node.to_mask(data) must equal the Boolean combination of the children's freshly computed reference masks
(leaf reference = the leaf's defining formula on the materialised arrays), have the dataset's shape, and combining /
copying / evaluating must leave deep fingerprints of all operands unchanged; evaluation order is permuted and repeated."""
import itertools
import operator
import random

import numpy as np


def datasets():
    from glue.core import Data
    from glue.core.coordinates import AffineCoordinates
    d1 = Data(x=[1., 2., 3., np.nan, 5., np.inf], y=[6., 5., 4., 3., 2., 1.], label='d1')
    d1.add_component(np.array(['a', 'b', 'a', 'c', 'b', 'a']), 'cat')
    d1['z'] = d1.id['x'] * 2 - d1.id['y']
    d2 = Data(u=np.arange(6.).reshape(2, 3), w=np.array([[5., 1., 3.], [np.nan, 2., 0.]]), label='d2',
              coords=AffineCoordinates(np.array([[2., 0., 1.], [0., 3., -1.], [0., 0., 1.]])))
    d3 = Data(v=np.arange(8.).reshape(2, 2, 2), label='d3')
    return [d1, d2, d3]


_TWINS = {}


def twin_of(d):
    if d.label not in _TWINS:
        _TWINS[d.label] = {x.label: x for x in datasets()}[d.label]
    return _TWINS[d.label]


def leaves(d):
    """[(name, factory -> state, reference mask)]"""
    from glue.core import subset as S
    from glue.core import roi as R
    out = []
    with np.errstate(invalid='ignore'):
        if d.label == 'd1':
            x, y, z = d['x'], d['y'], d['z']
            cx, cy, cz = d.id['x'], d.id['y'], d.id['z']
            out.append(('range', lambda: S.RangeSubsetState(2, 5, cx), (x >= 2) & (x <= 5)))
            out.append(('gt', lambda: cx > 2, x > 2))
            out.append(('le-cid', lambda: cx <= cy, x <= y))
            out.append(('ne', lambda: cy != 4, y != 4))
            out.append(('derived', lambda: cz >= 0, z >= 0))
            out.append(('rect', lambda: S.RoiSubsetState(cx, cy, R.RectangularROI(1.5, 5.5, 1.5, 5.5)),
                        (x > 1.5) & (x < 5.5) & (y > 1.5) & (y < 5.5)))
            out.append(('circle', lambda: S.RoiSubsetState(cx, cy, R.CircularROI(3, 4, 1.6)), (x - 3) ** 2 + (y - 4) ** 2 < 1.6 ** 2))
            codes = d.get_component('cat').codes
            out.append(('category', lambda: S.CategorySubsetState(d.id['cat'], [0, 2]), np.isin(codes, [0, 2])))
            out.append(('catroi', lambda: S.CategoricalROISubsetState(d.id['cat'], R.CategoricalROI(['b'])), np.asarray(d['cat']) == 'b'))
            out.append(('element', lambda: S.ElementSubsetState([0, 3, 5]), np.isin(np.arange(6), [0, 3, 5])))
            m = np.array([True, False, True, True, False, False])
            out.append(('mask', lambda: S.MaskSubsetState(m, d.pixel_component_ids), m.copy()))
            out.append(('slice', lambda: S.SliceSubsetState(d, [slice(1, 5, 2)]), np.isin(np.arange(6), [1, 3])))
            out.append(('multirange', lambda: S.MultiRangeSubsetState([(1, 2), (4.5, 6)], cy), ((y >= 1) & (y <= 2)) | ((y >= 4.5) & (y <= 6))))
            out.append(('pixel', lambda: d.pixel_component_ids[0] >= 3, np.arange(6) >= 3))
            out.append(('empty', lambda: S.SubsetState(), np.zeros(6, bool)))
            out.append(('roi-nd', lambda: S.RoiSubsetStateNd([cx, cy], R.RectangularROI(0.5, 3.5, 3.5, 6.5)), (x > 0.5) & (x < 3.5) & (y > 3.5) & (y < 6.5)))
            out.append(('roi-3d', lambda: S.RoiSubsetState3d(cx, cy, cz, R.Projected3dROI(R.RectangularROI(0.5, 3.5, 3.5, 6.5), np.eye(4))),
                        (x > 0.5) & (x < 3.5) & (y > 3.5) & (y < 6.5)))
            out.append(('element-bound', lambda: S.ElementSubsetState([1, 2], data=d), np.isin(np.arange(6), [1, 2])))
        elif d.label == 'd2':
            u, w = d['u'], d['w']
            cu, cw = d.id['u'], d.id['w']
            out.append(('range', lambda: S.RangeSubsetState(1, 4, cu), (u >= 1) & (u <= 4)))
            out.append(('lt', lambda: cw < 2.5, w < 2.5))
            out.append(('rect', lambda: S.RoiSubsetState(cu, cw, R.RectangularROI(0.5, 4.5, 0.5, 4)), (u > 0.5) & (u < 4.5) & (w > 0.5) & (w < 4)))
            wx = d[d.world_component_ids[1]]
            out.append(('world', lambda: d.world_component_ids[1] > 1.5, wx > 1.5))
            p0 = d[d.pixel_component_ids[0]]
            out.append(('pixel', lambda: d.pixel_component_ids[0] == 1, p0 == 1))
            mm = np.array([[True, False, False], [False, True, True]])
            out.append(('mask', lambda: S.MaskSubsetState(mm, d.pixel_component_ids), mm.copy()))
            sl = np.zeros((2, 3), bool)
            sl[0:1, 1:3] = True
            out.append(('slice', lambda: S.SliceSubsetState(d, [slice(0, 1), slice(1, 3)]), sl))
        else:
            v = d['v']
            cv = d.id['v']
            out.append(('range', lambda: S.RangeSubsetState(2, 5, cv), (v >= 2) & (v <= 5)))
            out.append(('ge', lambda: cv >= 4, v >= 4))
            out.append(('pixel', lambda: d.pixel_component_ids[2] == 0, d[d.pixel_component_ids[2]] == 0))
    return out


def fingerprint(obj, depth=0, seen=None):
    """deep, order-stable fingerprint of a selection object (attributes, ROI parameters, array bytes)"""
    seen = seen if seen is not None else set()
    from glue.core.data import BaseData
    from glue.core.component_id import ComponentID
    if isinstance(obj, np.ndarray):
        return ('arr', obj.shape, obj.tobytes())
    if isinstance(obj, (int, float, str, bool, type(None), np.generic)):
        return repr(obj)
    if isinstance(obj, (BaseData, ComponentID)):
        return ('ref', id(obj))
    if id(obj) in seen or depth > 8:
        return ('cycle',)
    seen.add(id(obj))
    if isinstance(obj, (list, tuple)):
        return tuple(fingerprint(x, depth + 1, seen) for x in obj)
    if isinstance(obj, dict):
        return tuple(sorted((repr(k), fingerprint(v, depth + 1, seen)) for k, v in obj.items()))
    if hasattr(obj, '__dict__'):
        return (type(obj).__name__,) + tuple(sorted((k, fingerprint(v, depth + 1, seen)) for k, v in vars(obj).items()
                                                  if k not in ('parent',)))
    return repr(type(obj))


OPS = {'&': (operator.and_, np.logical_and), '|': (operator.or_, np.logical_or), '^': (operator.xor, np.logical_xor)}


class Tree:
    def __init__(self, op, kids=(), leaf=None):
        self.op, self.kids, self.leaf = op, kids, leaf

    def build(self):
        if self.op == 'leaf':
            return self.leaf[1]()
        if self.op == '~':
            return ~self.kids[0].build()
        if self.op == 'multi':
            from glue.core.subset import MultiOrState
            return MultiOrState([k.build() for k in self.kids])
        return OPS[self.op][0](self.kids[0].build(), self.kids[1].build())

    def ref(self):
        if self.op == 'leaf':
            return np.asarray(self.leaf[2], dtype=bool)
        if self.op == '~':
            return ~self.kids[0].ref()
        if self.op == 'multi':
            r = self.kids[0].ref().copy()
            for k in self.kids[1:]:
                r = r | k.ref()
            return r
        return OPS[self.op][1](self.kids[0].ref(), self.kids[1].ref())

    def name(self):
        if self.op == 'leaf':
            return self.leaf[0]
        if self.op == '~':
            return '~' + self.kids[0].name()
        if self.op == 'multi':
            return 'multi(' + ','.join(k.name() for k in self.kids) + ')'
        return '(' + self.kids[0].name() + self.op + self.kids[1].name() + ')'

    def kinds(self):
        if self.op == 'leaf':
            return {self.leaf[0]}
        s = {self.op}
        for k in self.kids:
            s |= k.kinds()
        return s


def children(state):
    from glue.core.subset import CompositeSubsetState, MultiOrState
    if isinstance(state, MultiOrState):
        return list(state.states)
    if isinstance(state, CompositeSubsetState):
        return [s for s in (state.state1, state.state2) if s is not None]
    return []


def check_tree(R, d, tree, rng, tag):
    """returns None or (kind, detail)"""
    from glue.core.subset import CompositeSubsetState, MultiOrState, InvertState
    state = tree.build()
    ref = tree.ref()
    # fingerprint of the operands (children of the root) before anything is evaluated
    nodes = []

    def walk(s, t):
        nodes.append((s, t))
        for c, k in zip(children(s), t.kids):
            walk(c, k)
    walk(state, tree)
    before = [fingerprint(s) for s, _ in nodes]
    order = list(range(len(nodes)))
    rng.shuffle(order)
    for rep in range(2):
        for i in order:
            s, t = nodes[i]
            try:
                m = s.to_mask(d)
            except Exception as e:
                return ('exception:%s' % type(e).__name__, "%s.to_mask raised %s: %s" % (t.name(), type(e).__name__, e))
            m = np.asarray(m)
            if m.shape != d.shape:
                return ('shape', "%s: mask shape %r != data shape %r" % (t.name(), m.shape, d.shape))
            if m.dtype != bool:
                return ('dtype', "%s: mask dtype %s" % (t.name(), m.dtype))
            if not np.array_equal(m, t.ref()):
                return ('mask', "%s: mask %s != element-wise reference %s (evaluation #%d)"
                        % (t.name(), m.astype(int).ravel().tolist(), t.ref().astype(int).ravel().tolist(), rep + 1))
    # through the dataset and a copy
    try:
        if not np.array_equal(np.asarray(d.get_mask(state)), ref):
            return ('get_mask', "%s: Data.get_mask differs from the reference" % tree.name())
        c = state.copy()
        if not np.array_equal(np.asarray(c.to_mask(d)), ref):
            return ('copy', "%s: the copy selects %s, the original %s" % (tree.name(), np.asarray(c.to_mask(d)).astype(int).ravel().tolist(),
                                                                       ref.astype(int).ravel().tolist()))
    except Exception as e:
        return ('exception:%s' % type(e).__name__, "%s: copy/get_mask raised %s: %s" % (tree.name(), type(e).__name__, e))
    # other consumers of the selection (statistics, histograms of attributes with NaN/inf/non-positive values) evaluate it too: none of
    # them may alter what the selection and its parts select afterwards
    try:
        import warnings
        with warnings.catch_warnings():
            warnings.simplefilter('ignore')
            for cid in d.main_components:
                vals = np.asarray(d[cid])
                if vals.dtype.kind not in 'fi':
                    continue
                for kw in (dict(), dict(positive=True), dict(axis=0)):
                    try:
                        d.compute_statistic('sum', cid, subset_state=state, **kw)
                    except Exception as e:
                        return ('exception:%s' % type(e).__name__, "%s: compute_statistic raised %s: %s" % (tree.name(), type(e).__name__, e))
                d.compute_histogram([cid], range=[[-10, 10]], bins=[4], subset_state=state)
        for s, t in nodes:
            for how, m in (('Data.get_mask', d.get_mask(s)), ('to_mask', s.to_mask(d)), ('to_mask(view=None)', s.to_mask(d, view=None))):
                if not np.array_equal(np.asarray(m), t.ref()):
                    return ('altered-by-evaluation', "%s: after the selection %s was evaluated and statistics and histograms were computed for it, %s gives %s, the element-wise reference is %s"
                            % (t.name(), tree.name(), how, np.asarray(m).astype(int).ravel().tolist(), t.ref().astype(int).ravel().tolist()))
    except Exception as e:
        return ('exception:%s' % type(e).__name__, "%s: statistics/histogram of the selection raised %s: %s" % (tree.name(), type(e).__name__, e))
    # keyword/positional views: results must not depend on how the view is passed or on earlier evaluations with another view
    try:
        views = [tuple(slice(0, max(1, n - 1)) for n in d.shape), tuple(slice(1, None) for n in d.shape)]
        for v in views + views[::-1]:
            mk = np.asarray(state.to_mask(d, view=v))
            mp = np.asarray(state.to_mask(d, v))
            if not (np.array_equal(mk, ref[v]) and np.array_equal(mp, ref[v])):
                return ('view-keyword', "%s: to_mask(view=%r) gives %s / positional %s, expected %s"
                        % (tree.name(), v, mk.astype(int).ravel().tolist(), mp.astype(int).ravel().tolist(), ref[v].astype(int).ravel().tolist()))
    except Exception as e:
        return ('exception:%s' % type(e).__name__, "%s: to_mask with a view raised %s: %s" % (tree.name(), type(e).__name__, e))
    # a twin dataset (same shape, different attributes): every part must behave inside the tree as it does alone
    from glue.core.exceptions import IncompatibleAttribute
    twin = twin_of(d)

    def alone(t):
        if t.op == 'leaf':
            try:
                return np.asarray(t.leaf[1]().to_mask(twin))
            except IncompatibleAttribute:
                return 'incompatible'
            except Exception as e:
                return 'error:' + type(e).__name__
        parts = [alone(k) for k in t.kids]
        for p_ in parts:
            if isinstance(p_, str):
                return p_
        if t.op == '~':
            return ~parts[0]
        if t.op == 'multi':
            r = parts[0].copy()
            for p_ in parts[1:]:
                r = r | p_
            return r
        return OPS[t.op][1](parts[0], parts[1])
    exp = alone(tree)
    try:
        got = np.asarray(state.to_mask(twin))
    except IncompatibleAttribute:
        got = 'incompatible'
    except Exception as e:
        got = 'error:' + type(e).__name__
    same = (isinstance(exp, str) and isinstance(got, str) and exp == got) or \
        (not isinstance(exp, str) and not isinstance(got, str) and np.array_equal(exp, got))
    if not same and not (isinstance(exp, str) and exp.startswith('error')):
        return ('other-dataset', "%s evaluated on another dataset of the same shape: parts alone give %s, the combination gives %s"
                % (tree.name(), exp if isinstance(exp, str) else exp.astype(int).ravel().tolist(),
                   got if isinstance(got, str) else got.astype(int).ravel().tolist()))
    after = [fingerprint(s) for s, _ in nodes]
    for (s, t), a, b in zip(nodes, before, after):
        if a != b:
            return ('operand-altered', "%s: combining/copying/evaluating changed the operand %s" % (tree.name(), t.name()))
    # the numerical values change (everything above was evaluated, hence memoised, before): every combination must still be the
    # combination of its parts as they answer now - no part may answer from before the change
    restore = {}
    for cid in d.main_components:
        arr = np.asarray(d[cid])
        if arr.dtype.kind in 'fi' and arr.size > 1:
            restore[cid] = arr.copy()
    if restore:
        try:
            d.update_components({cid: a.ravel()[::-1].reshape(a.shape).copy() for cid, a in restore.items()})
            for s, t in nodes:
                kids = children(s)
                if not kids:
                    continue
                try:
                    m = np.asarray(s.to_mask(d))
                    km = [np.asarray(k.to_mask(d)) for k in kids]
                except Exception as e:
                    return ('exception:%s' % type(e).__name__, "%s after a value update raised %s: %s" % (t.name(), type(e).__name__, e))
                if t.op == '~':
                    exp2 = ~km[0]
                elif t.op == 'multi':
                    exp2 = km[0].copy()
                    for p_ in km[1:]:
                        exp2 = exp2 | p_
                else:
                    exp2 = OPS[t.op][1](km[0], km[1])
                if not np.array_equal(m, exp2):
                    return ('after-value-update', "%s: after the data values were replaced the combination gives %s but its parts now combine to %s"
                            % (t.name(), m.astype(int).ravel().tolist(), exp2.astype(int).ravel().tolist()))
        finally:
            d.update_components(restore)
    return None


def replay_tree(dlabel, spec_, seed=0):
    d = {x.label: x for x in datasets()}[dlabel]
    lv = {n: (n, f, r) for n, f, r in leaves(d)}

    def mk(sp):
        if isinstance(sp, str):
            return Tree('leaf', leaf=lv[sp])
        return Tree(sp[0], tuple(mk(x) for x in sp[1:]))
    r = check_tree(None, d, mk(spec_), random.Random(seed), '')
    print(r)
    return 1 if r else 0


def tree_spec(t):
    if t.op == 'leaf':
        return t.leaf[0]
    return (t.op,) + tuple(tree_spec(k) for k in t.kids)


def edit_mode_sequences(R, rng, tier):
    from glue.core import DataCollection
    from glue.core import edit_subset_mode as M
    modes = {'replace': (M.ReplaceMode, lambda o, n: n), 'and': (M.AndMode, lambda o, n: o & n), 'or': (M.OrMode, lambda o, n: o | n),
             'xor': (M.XorMode, lambda o, n: o ^ n), 'andnot': (M.AndNotMode, lambda o, n: o & ~n), 'new': (M.NewMode, None)}
    L = 3
    for di in (0, 1):
        for seq in itertools.product(list(modes), repeat=L):
            d = datasets()[di]
            lv = leaves(d)
            pool = lv[:6]
            picks = [pool[(i * 2 + j) % len(pool)] for j, i in enumerate(range(L))]
            dc = DataCollection([d])
            esm = M.EditSubsetMode()
            esm.data_collection = dc
            refs = []          # reference mask per group
            fps = []
            ok = None
            for k, (mname, lf) in enumerate(zip(seq, picks)):
                new_state = lf[1]()
                fp_new = fingerprint(new_state)
                if mname == 'new' or not esm.edit_subset:
                    esm.update(dc, new_state, override_mode=modes[mname][0] if mname == 'new' else (M.ReplaceMode if not esm.edit_subset else modes[mname][0]))
                    if mname == 'new' or len(refs) == 0:
                        refs.append(np.asarray(lf[2], bool))
                    cur = len(refs) - 1
                else:
                    cur = list(dc.subset_groups).index(esm.edit_subset[0])
                    esm.update(dc, new_state, override_mode=modes[mname][0])
                    refs[cur] = modes[mname][1](refs[cur], np.asarray(lf[2], bool))
                if fingerprint(new_state) != fp_new:
                    ok = ('operand-altered', "edit mode %s altered the new state %s" % (mname, lf[0]))
                    break
                for gi, g in enumerate(dc.subset_groups):
                    got = np.asarray(g.subsets[0].to_mask())
                    if got.shape != d.shape or not np.array_equal(got, refs[gi]):
                        ok = ('edit-mode-mask', "modes %r with states %r on %s: after step %d group %d selects %s, expected %s"
                              % (seq, [p[0] for p in picks], d.label, k, gi, got.astype(int).ravel().tolist(), refs[gi].astype(int).ravel().tolist()))
                        break
                if ok:
                    break
            R.count(('modes', d.label, seq), 'edit-mode-sequences')
            if ok:
                R.fail("edit-mode|%s|%s" % (ok[0], '+'.join(sorted(set(seq)))), ok[1], None)


def replace_by_similar_states(R):
    """a selection replaced by another one that differs in a single operand (a number where the old one had an attribute, or the reverse)
    is the new selection afterwards - through the replace edit mode, through a subset of the group and through the group itself"""
    from glue.core import DataCollection
    from glue.core import edit_subset_mode as M
    import operator as op
    from glue.core.subset import InequalitySubsetState, RangeSubsetState
    for how in ('replace-mode', 'subset', 'group'):
        d = datasets()[0]
        x, y = d.id['x'], d.id['y']
        vx, vy = np.asarray(d[x], float), np.asarray(d[y], float)
        with np.errstate(invalid='ignore'):
            chain = [('x>1.5', lambda: x > 1.5, vx > 1.5), ('x>y', lambda: x > y, vx > vy), ('x>2', lambda: x > 2, vx > 2), ('y<=x', lambda: y <= x, vy <= vx), ('y<=4', lambda: y <= 4, vy <= 4),
                     ('y<=x again', lambda: y <= x, vy <= vx), ('range x 1..3', lambda: RangeSubsetState(1, 3, x), (vx >= 1) & (vx <= 3)), ('range x 1..5', lambda: RangeSubsetState(1, 5, x), (vx >= 1) & (vx <= 5)),
                     ('2.5<x', lambda: InequalitySubsetState(2.5, x, op.lt), 2.5 < vx), ('y<x', lambda: InequalitySubsetState(y, x, op.lt), vy < vx)]
        dc = DataCollection([d])
        g = dc.new_subset_group('g', chain[0][1]())
        esm = M.EditSubsetMode()
        esm.data_collection = dc
        esm.edit_subset = [g]
        prev = chain[0][0]
        prev_ref = np.asarray(chain[0][2], bool)
        for name, mk, ref in chain[1:]:
            st = mk()
            if how == 'replace-mode':
                esm.update(dc, st, override_mode=M.ReplaceMode)
            elif how == 'subset':
                g.subsets[0].subset_state = st
            else:
                g.subset_state = st
            got = np.asarray(g.subsets[0].to_mask())
            assert not np.array_equal(np.asarray(ref, bool), prev_ref), "driver: consecutive selections of the chain must select different elements"
            prev_ref = np.asarray(ref, bool)
            R.count(('replace-similar', how, prev, name), 'edit-mode-sequences')
            if not np.array_equal(got, np.asarray(ref, bool)):
                R.fail("edit-mode|replace-by-similar-state|%s" % how, "selection %s replaced by %s through the %s: the subset selects %s, the new selection selects %s"
                       % (prev, name, how, got.astype(int).tolist(), np.asarray(ref, bool).astype(int).tolist()), None)
                break
            prev = name


def edit_modes_on_untouched_group(R):
    """a subset group that was created without a selection (new_subset_group()) is the empty selection: and / and-not keep it empty,
    or / xor / replace give the new selection"""
    from glue.core import DataCollection
    from glue.core import edit_subset_mode as M
    from glue.core.subset import SubsetState
    modes = {'replace': (M.ReplaceMode, lambda o, n: n), 'and': (M.AndMode, lambda o, n: o & n), 'or': (M.OrMode, lambda o, n: o | n),
             'xor': (M.XorMode, lambda o, n: o ^ n), 'andnot': (M.AndNotMode, lambda o, n: o & ~n)}
    for di in (0, 1):
        for start in ('new_subset_group()', 'replaced-by-SubsetState()', 'cleared-by-empty-inequality'):
            for m1, m2 in itertools.product(list(modes), repeat=2):
                d = datasets()[di]
                lv = leaves(d)[:4]
                dc = DataCollection([d])
                esm = M.EditSubsetMode()
                esm.data_collection = dc
                g = dc.new_subset_group('g')
                if start == 'replaced-by-SubsetState()':
                    g.subset_state = lv[0][1]()
                    g.subset_state = SubsetState()
                elif start == 'cleared-by-empty-inequality':
                    g.subset_state = lv[0][1]() & ~lv[0][1]()
                esm.edit_subset = [g]
                ref = np.zeros(d.shape, bool)
                bad = None
                for k, (mname, lf) in enumerate(zip((m1, m2), (lv[1], lv[2]))):
                    try:
                        esm.update(dc, lf[1](), override_mode=modes[mname][0])
                    except Exception as e:
                        bad = "mode %s raised %s: %s" % (mname, type(e).__name__, e)
                        break
                    ref = modes[mname][1](ref, np.asarray(lf[2], bool))
                    got = np.asarray(g.subsets[0].to_mask())
                    if not np.array_equal(got, ref):
                        bad = "after %s with %s the group selects %s, expected %s" % (mname, lf[0], got.astype(int).ravel().tolist(), ref.astype(int).ravel().tolist())
                        break
                R.count(('untouched', di, start, m1, m2), 'edit-mode-sequences')
                if bad:
                    R.fail("edit-mode|untouched-group|%s|%s" % (start.split('(')[0], m1 if 'after %s' % m1 in bad or 'mode %s' % m1 in bad else m2),
                           "group in state %s on %s, modes (%s, %s): %s" % (start, d.label, m1, m2, bad), None)


def run(tier, seed, R):
    rng = random.Random(seed)
    R.rule = ("real datasets (1-d with NaN/inf/categorical/derived, 2-d with affine coordinates, 3-d) x leaf kinds "
              "{range, multirange, inequality (number, cid-cid), rectangle, circle, category, categorical ROI, element, mask, slice, pixel, world, derived, empty}: "
              "ALL trees of depth 1 over {&,|,^,~}, all many-way ors of 1-3 members, seeded random trees of depth 2-3 (4 thorough); contract checked at every node "
              "(mask == element-wise combination of reference masks, shape, dtype), in permuted order, twice, through Data.get_mask and through a copy; deep fingerprint of "
              "every operand unchanged; after the data values are replaced every node equals the combination of its parts as they answer now; all edit-mode sequences of length 3; all pairs of edit modes on a group that was never given a selection (new_subset_group(), SubsetState(), x & ~x). non-trivial = distinct tree whose reference mask is neither empty nor full")
    R.exhaustive = True

    def one(d, tree, tag):
        ref = tree.ref()
        nt = 0 < int(ref.sum()) < ref.size
        r = check_tree(R, d, tree, rng, tag)
        R.count((d.label, tree.name()) if nt else None, 'selection-trees')
        if r is not None:
            kind, detail = r
            R.fail("tree|%s|%s" % (kind, '+'.join(sorted(tree.kinds()))), "dataset %s: %s" % (d.label, detail),
                   "from bounded.c01_subset import replay_tree\nsys.exit(replay_tree(%r, %r))\n" % (d.label, tree_spec(tree)))
    for d in datasets():
        lv = [Tree('leaf', leaf=x) for x in leaves(d)]
        for t in lv:
            one(d, t, 'leaf')
            one(d, Tree('~', (t,)), 'not')
        for a, b in itertools.product(lv, repeat=2):
            for op in OPS:
                one(d, Tree(op, (a, b)), 'depth1')
        for k in (1, 2, 3):
            combos = list(itertools.product(lv, repeat=k))
            if len(combos) > 250:
                combos = rng.sample(combos, 250)
            for c in combos:
                one(d, Tree('multi', tuple(c)), 'multi')
        # random deeper trees
        maxd = 3 if tier == 'quick' else 4

        def rnd(depth):
            if depth == 0 or rng.random() < 0.25:
                return rng.choice(lv)
            r = rng.random()
            if r < 0.2:
                return Tree('~', (rnd(depth - 1),))
            if r < 0.35:
                return Tree('multi', tuple(rnd(depth - 1) for _ in range(rng.randint(1, 4))))
            return Tree(rng.choice(list(OPS)), (rnd(depth - 1), rnd(depth - 1)))
        for _ in range(400 if tier == 'quick' else 4000):
            one(d, rnd(rng.randint(2, maxd)), 'random')
    edit_mode_sequences(R, rng, tier)
    edit_modes_on_untouched_group(R)
    replace_by_similar_states(R)
    R.samples.append({"tree": "d1: ((range&~circle)|multi(category,gt,slice)) - every node compared with the element-wise reference, twice, permuted order"})
