"""C15 bounded stand-in: world-coordinate attributes, the automatically created pixel<->world links and the inverse, against the
coordinate transformation applied directly to the pixel grid (reference computed here with plain matrix arithmetic, not by glue).

  affine matrices of 1-3 dims: diagonal, fully coupled, upper / lower triangular, every axis permutation (90-degree rotations,
  axis swaps, cyclic shifts), block-coupled (2+1), rotation by an arbitrary angle, rotation by 90/270 degrees built from cos/sin
  (terms of 1e-17), tiny steps (1e-17); IdentityCoordinates; an astropy WCS with a coupled celestial pair and an independent third axis
  shapes with distinct extents; the view catalogue (None, Ellipsis, ints incl. negative, slices with steps and negative bounds,
  short tuples, index arrays, boolean mask)
Checked per (coordinates, shape, view):
  data[world id, view] == T(pixel grid)[view]               (same shape, tolerance 1e-9 relative)
  pixel->world link.compute(data, view) == the same
  world->pixel link.compute(data, view) == pixel grid[view] (within tolerance: this is the inverse)
  coords.world_to_pixel_values(coords.pixel_to_world_values(p)) == p
"""
import itertools
import math
import random
import warnings

import numpy as np

from bounded.views import view_catalogue


def affine_catalogue():
    """name -> augmented matrix (x, y, z order as glue documents)"""
    out = {}
    for nd in (1, 2, 3):
        def aug(lin, off=None):
            m = np.eye(nd + 1)
            m[:nd, :nd] = lin
            m[:nd, nd] = off if off is not None else [1.5 * (i + 1) - 2 for i in range(nd)]
            return m
        out['%dd-diagonal' % nd] = aug(np.diag([1.5 + i for i in range(nd)]))
        out['%dd-diagonal-negative-step' % nd] = aug(np.diag([(-1) ** i * (0.5 + i) for i in range(nd)]))
        out['%dd-tiny-step' % nd] = aug(np.diag([1e-17] + [2.0] * (nd - 1)))
        out['%dd-tiny-steps-zero-offset' % nd] = aug(np.diag([1e-18 * (j + 1) for j in range(nd)]), [0.0] * nd)
        if nd == 1:
            continue
        full = np.array([[1.0 + 0.3 * i + 0.7 * j + (2 if i == j else 0) for j in range(nd)] for i in range(nd)])
        out['%dd-coupled' % nd] = aug(full)
        out['%dd-upper-triangular' % nd] = aug(np.triu(full))
        out['%dd-lower-triangular' % nd] = aug(np.tril(full))
        for perm in itertools.permutations(range(nd)):
            if perm == tuple(range(nd)):
                continue
            p = np.zeros((nd, nd))
            for i, j in enumerate(perm):
                p[i, j] = 1.5 + i
            out['%dd-permuted-%s' % (nd, ''.join(map(str, perm)))] = aug(p)
        c, s = math.cos(0.6), math.sin(0.6)
        rot = np.eye(nd)
        rot[:2, :2] = [[c, -s], [s, c]]
        out['%dd-rotation-0.6rad' % nd] = aug(rot * 2.0)
        for deg in (90, 270):
            c, s = math.cos(math.radians(deg)), math.sin(math.radians(deg))
            rot = np.eye(nd)
            rot[:2, :2] = [[c, -s], [s, c]]
            out['%dd-rotation-%ddeg-from-cos-sin' % (nd, deg)] = aug(rot)
        if nd == 3:
            blk = np.array([[2.0, 0.5, 0.0], [-0.5, 1.0, 0.0], [0.0, 0.0, 3.0]])
            out['3d-block-2+1'] = aug(blk)
            blk2 = np.array([[2.0, 0.0, 0.5], [0.0, 3.0, 0.0], [-0.5, 0.0, 1.0]])
            out['3d-block-outer-pair'] = aug(blk2)
            chain = np.array([[1.0, 0.5, 0.0], [0.0, 1.0, 0.5], [0.0, 0.0, 1.0]])
            out['3d-chain'] = aug(chain)
    return out


SHAPES = {1: (5,), 2: (3, 4), 3: (2, 3, 4)}


def reference_world(matrix, shape):
    """world values of every world axis (numpy order: result[i] belongs to data.world_component_ids[i]) on the full pixel grid"""
    nd = len(shape)
    grids = np.meshgrid(*[np.arange(s, dtype=float) for s in shape], indexing='ij')       # numpy order
    xyz = grids[::-1]                                                                       # x, y, z order
    lin, off = matrix[:nd, :nd], matrix[:nd, nd]
    world_xyz = [sum(lin[i, j] * xyz[j] for j in range(nd)) + off[i] for i in range(nd)]
    return world_xyz[::-1], grids


def close(a, b, scale=None):
    """equal within 1e-9 of the scale of the quantity (the largest magnitude of the reference over the whole array it comes from), so that
    coordinates of order 1e-18 are compared as strictly as coordinates of order 1"""
    a, b = np.asarray(a, dtype=float), np.asarray(b, dtype=float)
    if a.shape != b.shape:
        return False
    if scale is None:
        scale = float(np.max(np.abs(b))) if b.size else 1.0
    return bool(np.all(np.abs(a - b) <= 1e-9 * scale + 1e-300))


def view_kind(v, nd):
    if v is None:
        return 'none'
    if v is Ellipsis:
        return 'ellipsis'
    if isinstance(v, np.ndarray):
        return 'bool-mask' if v.dtype == bool else 'index-array'
    vv = v if isinstance(v, tuple) else (v,)
    parts = []
    if any(isinstance(e, np.ndarray) for e in vv):
        parts.append('arrays')
    if any(isinstance(e, (int, np.integer)) and e < 0 for e in vv):
        parts.append('negative-int')
    elif any(isinstance(e, (int, np.integer)) for e in vv):
        parts.append('int')
    if any(isinstance(e, slice) and e.step not in (None, 1) for e in vv):
        parts.append('stepped')
    if any(e is Ellipsis for e in vv):
        parts.append('ellipsis')
    if len(vv) < nd:
        parts.append('short')
    return '+'.join(parts) or 'slices'


def matrix_kind(name):
    k = name.split('-', 1)[1]
    if k.startswith('permuted'):
        return 'permuted'
    return k


def ref_index(full, v):
    return full if v is None else full[v]


def check_dataset(R, name, d, world_ref, grids, views, tol_inverse=True):
    nd = d.ndim
    mk = matrix_kind(name) if '-' in name else name
    from glue.core.component_link import CoordinateComponentLink
    links = [l for l in d.coordinate_links if isinstance(l, CoordinateComponentLink)]
    p2w = {l.index: l for l in links if l.pixel2world}
    w2p = {l.index: l for l in links if not l.pixel2world}
    for v in views:
        vk = view_kind(v, nd)
        for i in range(nd):
            try:
                exp = ref_index(world_ref[i], v)
                exp_pix = ref_index(grids[i], v)
            except IndexError:
                continue
            for what in ('attribute', 'pixel->world-link', 'world->pixel-link'):
                try:
                    with warnings.catch_warnings():
                        warnings.simplefilter('ignore')
                        if what == 'attribute':
                            got = d[d.world_component_ids[i], v] if v is not None else d.get_data(d.world_component_ids[i])
                            want = exp
                        elif what == 'pixel->world-link':
                            if i not in p2w:
                                continue
                            got = p2w[i].compute(d, view=v)
                            want = exp
                        else:
                            if i not in w2p or not tol_inverse:
                                continue
                            got = w2p[i].compute(d, view=v)
                            want = exp_pix
                    err = None
                    if np.shape(got) != np.shape(want):
                        err = ('shape', "has shape %r, expected %r" % (np.shape(got), np.shape(want)))
                    elif not close(got, want, float(np.max(np.abs(world_ref[i]))) if what != 'world->pixel-link' else float(max(1, max(d.shape)))):
                        err = ('value', "gives %s, the transformation gives %s" % (np.asarray(got).ravel()[:8].tolist(), np.asarray(want).ravel()[:8].tolist()))
                except Exception as e:
                    err = ('exception:%s' % type(e).__name__, "raised %s: %s" % (type(e).__name__, e))
                R.count((name, repr(v), i, what) if np.size(exp) > 1 else None, 'world-' + what)
                if err:
                    R.fail("coords|%s|%s|view:%s|%s" % (mk, what, vk, err[0]),
                           "%s, shape %r, %s of world axis %d (numpy order), view %r: %s" % (name, d.shape, what, i, v, err[1]),
                           "import numpy as np\nfrom numpy import array\nfrom bounded.c15_coords import replay\nsys.exit(replay(%r, %r, %d, %r))\n" % (name, v, i, what))


def build(name, matrix):
    from glue.core import Data
    from glue.core.coordinates import AffineCoordinates
    nd = matrix.shape[0] - 1
    shape = SHAPES[nd]
    d = Data(label=name, v=np.arange(int(np.prod(shape)), dtype=float).reshape(shape), coords=AffineCoordinates(matrix))
    world_ref, grids = reference_world(matrix, shape)
    return d, world_ref, grids


def replay(name, view, axis, what):
    class Rr:
        bad = []

        def count(self, *a, **k):
            pass

        def fail(self, sig, detail, code):
            self.bad.append(detail)
    r = Rr()
    cat = affine_catalogue()
    if name in cat:
        d, world_ref, grids = build(name, cat[name])
        check_dataset(r, name, d, world_ref, grids, [view])
    for b in r.bad:
        print(b)
    return 1 if r.bad else 0


def run(tier, seed, R):
    from glue.core import Data
    from glue.core.coordinates import IdentityCoordinates
    rng = random.Random(seed)
    R.rule = ("for every affine matrix of the catalogue (1-3 dims: diagonal, negative steps, tiny steps, coupled, upper/lower triangular, all axis permutations, rotations incl. 90/270 degrees built "
              "from cos/sin, block-coupled 2+1 in both arrangements, chain), IdentityCoordinates (1-3 dims) and an astropy WCS (coupled celestial pair + independent axis): every view of the "
              "catalogue (None, Ellipsis, ints incl. negative, slices with steps / negative bounds, short tuples, index arrays, boolean mask) x every world axis: the attribute, the pixel->world "
              "link and the world->pixel link (applied to the world attributes) against the matrix applied to the pixel grid; plus world_to_pixel(pixel_to_world(p)) == p on random points. "
              "non-trivial = distinct case with more than one element")
    R.exhaustive = False
    n_views = 40 if tier == 'quick' else 200
    if run_connected(tier, R):
        R.notes.append('the sweep stopped after dependent_axes failed to return')
        return
    for name, matrix in affine_catalogue().items():
        d, world_ref, grids = build(name, matrix)
        views = view_catalogue(d.shape, rng, max_views=n_views)
        check_dataset(R, name, d, world_ref, grids, views, tol_inverse='tiny-step-' not in name and not name.endswith('tiny-step'))
        # the coordinate object itself: inverse
        nd = d.ndim
        pts = [np.array([rng.uniform(-5, 9) for _ in range(7)]) for _ in range(nd)]
        try:
            w = d.coords.pixel_to_world_values(*pts)
            w = (w,) if nd == 1 else w
            back = d.coords.world_to_pixel_values(*w)
            back = (back,) if nd == 1 else back
            ok = all(close(b, p) for b, p in zip(back, pts)) or name.endswith('tiny-step')
            det = "world_to_pixel(pixel_to_world(p)) gives %s for p = %s" % ([np.asarray(b).tolist() for b in back], [p.tolist() for p in pts])
        except Exception as e:
            ok, det = False, "raised %s: %s" % (type(e).__name__, e)
        R.count((name, 'inverse'), 'coordinate-object-inverse')
        if not ok:
            R.fail("coords|%s|inverse" % matrix_kind(name), "%s: %s" % (name, det), None)
    for nd in (1, 2, 3):
        shape = SHAPES[nd]
        d = Data(label='identity%d' % nd, v=np.zeros(shape), coords=IdentityCoordinates(n_dim=nd))
        grids = np.meshgrid(*[np.arange(s, dtype=float) for s in shape], indexing='ij')
        check_dataset(R, 'identity', d, grids, grids, view_catalogue(shape, rng, max_views=n_views))
    try:
        from astropy.wcs import WCS
        w = WCS(naxis=3)
        w.wcs.ctype = ['RA---TAN', 'DEC--TAN', 'VELO-LSR']
        w.wcs.crval = [30.0, 10.0, 5.0]
        w.wcs.crpix = [2.0, 1.5, 1.0]
        w.wcs.cdelt = [-0.1, 0.1, 2.5]
        w.wcs.pc = [[0.8, -0.6, 0], [0.6, 0.8, 0], [0, 0, 1]]
        shape = (2, 3, 4)
        d = Data(label='wcs', v=np.zeros(shape), coords=w)
        grids = np.meshgrid(*[np.arange(s, dtype=float) for s in shape], indexing='ij')
        wx = w.pixel_to_world_values(*grids[::-1])[::-1]
        check_dataset(R, 'wcs-celestial+spectral', d, [np.asarray(a) for a in wx], grids, view_catalogue(shape, rng, max_views=n_views))
    except ImportError:
        pass
    R.samples.append({"case": "3d-permuted-120 (x->world 1, y->world 2, z->world 0), shape (2,3,4), view (slice(None,None,2), -1): attribute and both links vs the matrix applied to the grid"})


def run_connected(tier, R):
    from bounded.c10_stats import time_limit, CaseTimeout
    hung = False
    """dependent_axes / _connected_axes on EVERY boolean correlation matrix up to 3x3 (4x4 in the thorough tier): the returned set contains
    every pixel axis the world axis of that index is marked as depending on, every world axis marked as depending on the pixel axis of that
    index, and is closed under 'shares a world axis / shares a pixel axis' (so nothing connected to it is dropped by the shortcuts)."""
    from glue.core.coordinate_helpers import dependent_axes
    try:
        from glue.core.coordinate_helpers import _connected_axes
    except ImportError:
        _connected_axes = None

    class FakeCoords:
        def __init__(self, m):
            self.axis_correlation_matrix = m
    nmax = 3 if tier == 'quick' else 4
    for n in range(1, nmax + 1):
        for bits in itertools.product((False, True), repeat=n * n):
            m = np.array(bits, dtype=bool).reshape((n, n))
            mr = m[::-1, ::-1]            # numpy order, as dependent_axes sees it
            for axis in range(n):
                # reference: breadth-first search over the bipartite graph, pixel i and world i seeded together
                pix, wor = {axis}, {axis}
                changed = True
                while changed:
                    changed = False
                    for w in range(n):
                        for p in range(n):
                            if mr[w, p] and ((p in pix) != (w in wor)):
                                pix.add(p)
                                wor.add(w)
                                changed = True
                            elif mr[w, p] and p in pix and w not in wor:
                                wor.add(w)
                                changed = True
                exp = tuple(sorted(pix | wor))
                try:
                    with time_limit(5):
                        got = tuple(int(x) for x in dependent_axes(FakeCoords(m), axis))
                    err = None if got == exp else "dependent_axes gives %r, the axes connected to axis %d are %r" % (got, axis, exp)
                except CaseTimeout:
                    got, err, hung = (), "did not return within 5 s (the search for connected axes does not terminate)", True
                except Exception as e:
                    err = "raised %s: %s" % (type(e).__name__, e)
                R.count(('dep', n, bits, axis) if any(bits) else None, 'dependent_axes-all-matrices')
                if err:
                    direct = set(np.flatnonzero(mr[axis, :])) | set(np.flatnonzero(mr[:, axis]))
                    kind = 'drops-a-directly-dependent-axis' if 'gives' in err and not direct <= set(got) else ('not-closed' if 'gives' in err and not set(exp) <= set(got) else 'other')
                    R.fail("dependent_axes|%dx%d|%s" % (n, n, kind), "correlation matrix %s (world x pixel, coordinate order), axis %d (numpy order): %s" % (m.astype(int).tolist(), axis, err),
                           "import numpy as np\nfrom glue.core.coordinate_helpers import dependent_axes\nclass C:\n    axis_correlation_matrix = np.array(%r, dtype=bool)\n"
                           "got = tuple(int(x) for x in dependent_axes(C(), %d))\nprint(got, 'expected', %r)\nsys.exit(0 if got == %r else 1)\n" % (m.astype(int).tolist(), axis, exp, exp))
                    if hung:
                        return True        # every further use of the coordinate helpers would hang as well
