"""C10 bounded stand-in: Data.compute_statistic / Data.compute_histogram against an independent textbook reference, over
shapes up to 4-d, every axis subset, views with positive steps, selection kinds (value-, pixel-, slice-, mask-, region-based, empty),
finite/positive filters and chunk limits from 1 element up; histograms over bin counts and ranges incl. reversed ranges and ranges whose
ends coincide with data values, linear and log, weighted and not, 1-d and 2-d.

Reference (written here, not taken from glue):
  viewed = values[view], sel = selection mask[view]; keep = sel & (finite?) & (>0?)
  statistic over `axis` of the viewed array = textbook statistic of the kept values in each reduced cell, NaN where none is kept;
  with finite=False both the NaN-ignoring and the NaN-propagating value are accepted (the documentation only says finite=True ignores NaN).
  histogram: counts (weight sums) of selected finite values v with lo <= v <= hi in `bins` equal-width bins of [lo, hi] (of [log10 lo, log10 hi]
  in log space), hi itself counted in the last bin.  Cases in which a data value is within 1e-9 (relative to the range) of an interior
  bin edge are not generated (floating-point bin assignment there is not determined by the definition).
"""
import itertools
import random
import warnings

import numpy as np

from bounded.views import view_catalogue

class CaseTimeout(BaseException):      # not an Exception: library code and harness code that catch Exception must not swallow it
    pass


class time_limit:
    """abort a single library call that does not return (e.g. a chunk loop that stops advancing)"""

    def __init__(self, seconds):
        self.seconds = seconds

    def __enter__(self):
        import signal

        def handler(signum, frame):
            raise CaseTimeout("no result after %d s" % self.seconds)
        try:
            self.old = signal.signal(signal.SIGALRM, handler)
            signal.alarm(self.seconds)
            self.armed = True
        except ValueError:          # not in the main thread
            self.armed = False

    def __exit__(self, *a):
        if self.armed:
            import signal
            signal.alarm(0)
            signal.signal(signal.SIGALRM, self.old)
        return False


STATS = ('minimum', 'maximum', 'mean', 'median', 'sum', 'percentile')
SHAPES_QUICK = ((5,), (1,), (3, 4), (4, 1), (2, 3, 4), (3, 1, 2), (2, 3, 2, 3))
SHAPES_THOROUGH = SHAPES_QUICK + ((7,), (2, 5), (5, 2), (1, 1), (3, 2, 2), (4, 3, 2), (2, 1, 3, 2), (1, 2, 2, 2))


# ---------------------------------------------------------------- reference

def _textbook(stat, vals, q):
    """vals: 1-d array of the qualifying values (may hold inf; NaN only when finite=False)"""
    if vals.size == 0:
        return np.nan
    with warnings.catch_warnings():
        warnings.simplefilter('ignore')
        with np.errstate(all='ignore'):
            if stat == 'minimum':
                return np.min(vals)
            if stat == 'maximum':
                return np.max(vals)
            if stat == 'mean':
                return np.sum(vals) / vals.size
            if stat == 'sum':
                return np.sum(vals)
            s = np.sort(vals)
            if np.isnan(s).any():
                return np.nan
            if stat == 'median':
                q = 50.0
            # linear interpolation between closest ranks (the numpy / textbook default)
            pos = (s.size - 1) * q / 100.0
            lo = int(np.floor(pos))
            hi = min(lo + 1, s.size - 1)
            if s[lo] == s[hi]:
                return s[lo]
            return s[lo] + (s[hi] - s[lo]) * (pos - lo)


def reference(stat, values, selmask, view, axis, finite, positive, q, ignore_nan):
    a = np.asarray(values, dtype=float)
    m = np.ones(a.shape, bool) if selmask is None else np.asarray(selmask, bool)
    if view is not None:
        a, m = a[view], m[view]
    keep = m.copy()
    with np.errstate(invalid='ignore'):
        if finite:
            keep &= np.isfinite(a)
        if positive:
            keep &= a > 0
        if ignore_nan:
            keep &= ~np.isnan(a)
    if axis is None:
        return np.float64(_textbook(stat, a[keep], q))
    axes = (axis,) if isinstance(axis, (int, np.integer)) else tuple(axis)
    rest = [i for i in range(a.ndim) if i not in axes]
    at = np.transpose(a, rest + list(axes))
    kt = np.transpose(keep, rest + list(axes))
    oshape = tuple(a.shape[i] for i in rest)
    n = int(np.prod(oshape)) if oshape else 1
    at = at.reshape((n, -1)) if at.size else at.reshape((n, 0))
    kt = kt.reshape((n, -1)) if kt.size else kt.reshape((n, 0))
    out = np.empty(n)
    for i in range(n):
        out[i] = _textbook(stat, at[i][kt[i]], q)
    return out.reshape(oshape)


def indeterminate(stat, values, selmask, view, axis, positive):
    """cells whose qualifying values (finite=False) hold an infinity: mean/median/percentile/sum then involve inf-inf or 0*inf, whose
    result the definition does not fix; such cells are not compared"""
    a = np.asarray(values, dtype=float)
    m = np.ones(a.shape, bool) if selmask is None else np.asarray(selmask, bool)
    if view is not None:
        a, m = a[view], m[view]
    bad = m & np.isinf(a)
    if positive:
        bad &= a > 0
    if stat in ('minimum', 'maximum'):
        bad &= False
    if axis is None:
        return np.asarray(bad.any())
    axes = (axis,) if isinstance(axis, (int, np.integer)) else tuple(axis)
    return bad.any(axis=axes) if axes else bad


def close(a, b, skip=None):
    a, b = np.asarray(a, dtype=float), np.asarray(b, dtype=float)
    if a.shape != b.shape:
        return False
    with np.errstate(invalid='ignore'):
        same = (a == b) | (np.isnan(a) & np.isnan(b)) | (np.abs(a - b) <= 1e-9 * (1 + np.abs(a) + np.abs(b)))
    if skip is not None:
        same = same | skip
    return bool(np.all(same))


# ---------------------------------------------------------------- datasets and selections

def make_values(shape, kind, rng):
    n = int(np.prod(shape))
    if kind == 'int':
        return np.array([rng.randrange(-4, 9) for _ in range(n)]).reshape(shape)
    v = np.array([round(rng.uniform(-6, 12), 1) for _ in range(n)])
    if n >= 3:
        for idx, special in zip(rng.sample(range(n), min(n, 4)), (np.nan, np.inf, -np.inf, 0.0)):
            v[idx] = special
    return v.reshape(shape)


def make_data(shape, rng):
    from glue.core import Data
    d = Data(label='d' + 'x'.join(map(str, shape)), x=make_values(shape, 'float', rng), k=make_values(shape, 'int', rng))
    return d


def selections(d, rng):
    """name -> (subset state, independent expected mask)"""
    from glue.core import subset as S
    from glue.core import roi as G
    x = np.asarray(d['x'], dtype=float)
    k = np.asarray(d['k'])
    px = d.pixel_component_ids
    shape = d.shape
    grids = np.meshgrid(*[np.arange(s) for s in shape], indexing='ij') if shape else []
    out = {'none': (None, None)}
    with np.errstate(invalid='ignore'):
        out['value-gt'] = (d.id['x'] > 1.5, x > 1.5)
        out['value-int'] = (d.id['k'] <= 2, k <= 2)
    out['empty'] = (d.id['k'] > 1000, np.zeros(shape, bool))
    ax = rng.randrange(d.ndim)
    lo, hi = sorted((rng.randrange(shape[ax]), rng.randrange(shape[ax])))
    out['pixel-range'] = (S.RangeSubsetState(lo, hi, px[ax]), (grids[ax] >= lo) & (grids[ax] <= hi))
    last = d.ndim - 1
    out['pixel-last-only'] = (S.RangeSubsetState(shape[last] - 1, shape[last] - 1, px[last]), grids[last] == shape[last] - 1)
    box = np.ones(shape, bool)
    st = None
    for a in range(d.ndim):
        l, h = sorted((rng.randrange(shape[a]), rng.randrange(shape[a])))
        box &= (grids[a] >= l) & (grids[a] <= h)
        s1 = S.RangeSubsetState(l, h, px[a])
        st = s1 if st is None else (st & s1)
    out['pixel-box'] = (st, box)
    out['not-pixel-range'] = (~out['pixel-range'][0], ~out['pixel-range'][1])
    sl = []
    for a in range(d.ndim):
        l = rng.randrange(shape[a])
        h = rng.randrange(l, shape[a]) + 1
        sl.append(slice(l, h))
    m = np.zeros(shape, bool)
    m[tuple(sl)] = True
    out['slice'] = (S.SliceSubsetState(d, sl), m)
    sl2 = [slice(None, None, 2)] + [slice(None)] * (d.ndim - 1)
    m2 = np.zeros(shape, bool)
    m2[tuple(sl2)] = True
    out['slice-stepped'] = (S.SliceSubsetState(d, sl2), m2)
    mm = np.array([rng.random() < 0.4 for _ in range(d.size)]).reshape(shape)
    out['mask'] = (S.MaskSubsetState(mm, px), mm)
    one = np.zeros(shape, bool)
    one.flat[rng.randrange(d.size)] = True
    out['single-element'] = (S.MaskSubsetState(one, px), one)
    if d.ndim >= 2:
        r = G.RectangularROI(-0.5, shape[-1] - 1.5 if shape[-1] > 1 else 0.5, 0.5 if shape[-2] > 1 else -0.5, shape[-2] - 0.5)
        exp = r.contains(grids[-1].astype(float), grids[-2].astype(float))
        out['pixel-roi'] = (S.RoiSubsetState(px[-1], px[-2], r), np.asarray(exp, bool))
    with np.errstate(invalid='ignore'):
        out['or'] = ((d.id['x'] > 8) | out['pixel-last-only'][0], (x > 8) | out['pixel-last-only'][1])
    return out


def view_kind(v, ndim):
    if v is None:
        return 'none'
    if v is Ellipsis:
        return 'ellipsis'
    if not isinstance(v, tuple):
        v = (v,)
    ints = any(isinstance(e, (int, np.integer)) for e in v)
    stepped = any(isinstance(e, slice) and e.step not in (None, 1) for e in v)
    neg = any(isinstance(e, slice) and ((e.start is not None and e.start < 0) or (e.stop is not None and e.stop < 0)) for e in v)
    parts = []
    if len(v) < ndim:
        parts.append('short')
    if ints:
        parts.append('ints')
    if stepped:
        parts.append('stepped')
    if neg:
        parts.append('negative-bounds')
    return '+'.join(parts) or 'slices'


def axis_kind(axis, ndim):
    if axis is None:
        return 'none'
    if isinstance(axis, (int, np.integer)):
        return 'int'
    if len(axis) == 0:
        return 'empty-tuple'
    if len(axis) == ndim:
        return 'all'
    if len(axis) == ndim - 1:
        return 'all-but-one'
    return 'some'


def axis_subsets(ndim):
    out = [None]
    out.extend(range(ndim))
    for r in range(0, ndim + 1):
        out.extend(itertools.combinations(range(ndim), r))
    return out


# ---------------------------------------------------------------- one statistic case

def stat_case(d, stat, cidname, state, expmask, view, axis, finite, positive, q, n_chunk_max):
    """-> None (agrees) | (kind, detail)"""
    values = np.asarray(d[cidname])
    refs = [reference(stat, values, expmask, view, axis, finite, positive, q, True)]
    if not finite:
        refs.append(reference(stat, values, expmask, view, axis, finite, positive, q, False))
    kw = {}
    if n_chunk_max is not None:
        kw['n_chunk_max'] = n_chunk_max
    try:
        with warnings.catch_warnings():
            warnings.simplefilter('ignore')
            with np.errstate(all='ignore'), time_limit(5):
                got = d.compute_statistic(stat, d.id[cidname], subset_state=state, axis=axis, finite=finite, positive=positive,
                                          percentile=q if stat == 'percentile' else None, view=view, **kw)
    except CaseTimeout as e:
        TIMEOUTS[0] += 1
        return ('no-result', "did not return within 5 s")
    except Exception as e:
        import traceback
        tb = traceback.extract_tb(e.__traceback__)
        return ('exception:%s' % type(e).__name__, "raised %s: %s (at %s:%d)" % (type(e).__name__, e, tb[-1].filename.rsplit('/', 1)[-1], tb[-1].lineno))
    if np.shape(got) != np.shape(refs[0]):
        return ('shape', "has shape %r, the definition gives shape %r" % (np.shape(got), np.shape(refs[0])))
    skip = None if finite else indeterminate(stat, values, expmask, view, axis, positive)
    if not any(close(got, r, skip) for r in refs):
        return ('value', "gives %s, the definition gives %s" % (np.asarray(got).tolist(), np.asarray(refs[0]).tolist()))
    return None


class EmptyView(Exception):
    pass


def viewed_ndim(shape, view):
    if view is None:
        return len(shape)
    v = np.empty(shape, dtype=bool)[view]
    if v.size == 0:
        raise EmptyView()       # a view of zero elements has no "documented shape" of statistics: not generated
    return v.ndim


def one(R, d, stat, cidname, sname, state, expmask, view, axis, finite, positive, q, lim):
    if TIMEOUTS[0] >= 3:
        return
    r = stat_case(d, stat, cidname, state, expmask, view, axis, finite, positive, q, lim)
    nontrivial = expmask is None or (expmask.any() and not expmask.all())
    R.count((d.label, stat, sname, repr(view), repr(axis), finite, positive, lim) if nontrivial else None, 'statistic' if lim is None else 'statistic-chunked')
    if r is not None:
        path = 'chunked' if lim is not None else 'direct'
        R.fail("stat|%s|%s|view:%s|axis:%s|%s" % (path, sname, view_kind(view, d.ndim), axis_kind(axis, viewed_ndim(d.shape, view)), r[0]),
               "dataset of shape %r, %s of %s, selection %s, view %r, axis %r, finite=%r positive=%r%s: %s" %
               (d.shape, stat, cidname, sname, view, axis, finite, positive, '' if lim is None else ' n_chunk_max=%d' % lim, r[1]),
               "from bounded.c10_stats import replay_stat\nsys.exit(replay_stat(%r, %r, %r, %r, %r, %r, %r, %r, %r, %r, %r))\n" %
               (SEED_USED[0], TIER_USED[0], d.shape, stat, cidname, sname, view, axis, (finite, positive), q, lim))


TIMEOUTS = [0]          # calls that did not return; after 3 the statistic sweep stops (each costs 5 s)
SEED_USED = [0]
TIER_USED = ['quick']


def shape_rng(seed, shape):
    return random.Random("%d|%r" % (seed, tuple(shape)))


def replay_stat(seed, tier, shape, stat, cidname, sname, view, axis, fp, q, lim):
    rng = shape_rng(seed, shape)
    d = make_data(tuple(shape), rng)
    sels = selections(d, rng)
    state, expmask = sels[sname]
    print("values:", np.asarray(d[cidname]).tolist())
    print("expected selection mask:", None if expmask is None else expmask.astype(int).tolist())
    r = stat_case(d, stat, cidname, state, expmask, view, axis, fp[0], fp[1], q, lim)
    print(r)
    return 1 if r else 0


def _sweep_shape(R, d, sels, shape, rng, n_views, per_cell):
    views = view_catalogue(shape, rng, with_arrays=False, ellipsis_in_tuples=False, max_views=n_views)
    size = int(np.prod(shape))
    for sname, (state, expmask) in sels.items():
        for view in views:
            try:
                vnd = viewed_ndim(shape, view)
            except (IndexError, EmptyView):
                continue
            for axis in axis_subsets(vnd):
                for _ in range(per_cell):
                    stat = rng.choice(STATS)
                    finite, positive = rng.choice(((True, False), (True, True), (False, False), (False, True)))
                    cidname = 'x' if rng.random() < 0.8 else 'k'
                    q = rng.choice((0, 10, 37.5, 50, 90, 100))
                    one(R, d, stat, cidname, sname, state, expmask, view, axis, finite, positive, q, None)
        if len(shape) >= 2:
            limits = sorted(set([1, 2, 3, 5, 7, max(1, size // 2), max(1, size - 1), size]))
            for keepax in range(len(shape)):
                axis = tuple(a for a in range(len(shape)) if a != keepax)
                for lim in limits:
                    for stat in STATS:
                        finite, positive = rng.choice(((True, False), (True, True), (False, False)))
                        one(R, d, stat, 'x', sname, state, expmask, None, axis, finite, positive, 25, lim)


def run_statistics(tier, seed, R):
    SEED_USED[0], TIER_USED[0] = seed, tier
    shapes = SHAPES_QUICK if tier == 'quick' else SHAPES_THOROUGH
    for shape in shapes:
        rng = shape_rng(seed, shape)
        d = make_data(shape, rng)
        sels = selections(d, rng)
        _sweep_shape(R, d, sels, shape, rng, 10 if tier == 'quick' else 40, 1 if tier == 'quick' else 3)


# ---------------------------------------------------------------- histograms

def ref_hist(x, w, sel, lo, hi, bins, log):
    x = np.asarray(x, dtype=float).ravel()
    w = None if w is None else np.asarray(w, dtype=float).ravel()
    sel = np.ones(x.shape, bool) if sel is None else np.asarray(sel, bool).ravel()
    lo, hi = min(lo, hi), max(lo, hi)
    with np.errstate(all='ignore'):
        keep = sel & np.isfinite(x) & (x >= lo) & (x <= hi)
        if log:
            keep &= x > 0
            pos = np.where(keep, np.log10(np.where(keep, x, 1.0)), 0.0)
            a, b = np.log10(lo), np.log10(hi)
        else:
            pos = np.where(keep, x, 0.0)
            a, b = lo, hi
    out = np.zeros(bins)
    if b == a:
        # zero-width range: every in-range value sits on both ends; the definition puts it in the last bin ... not generated
        return None, None
    t = (pos - a) / (b - a) * bins
    idx = np.minimum(np.floor(t).astype(int), bins - 1)
    frac = np.abs(t - np.round(t))
    interior = (np.round(t) > 0) & (np.round(t) < bins)
    ambiguous = bool(np.any(keep & interior & (frac < 1e-7)))
    for i in np.flatnonzero(keep):
        out[idx[i]] += 1 if w is None else w[i]
    return out, ambiguous


def hist_case(d, xname, wname, state, expmask, rng_, bins, log):
    x = np.asarray(d[xname])
    w = None if wname is None else np.asarray(d[wname])
    exp, amb = ref_hist(x, w, expmask, rng_[0], rng_[1], bins, log)
    if exp is None or amb:
        return 'skip'
    try:
        with warnings.catch_warnings():
            warnings.simplefilter('ignore')
            with np.errstate(all='ignore'):
                got = d.compute_histogram([d.id[xname]], weights=None if wname is None else d.id[wname], range=[tuple(rng_)], bins=[bins], log=[log],
                                          subset_state=state)
    except Exception as e:
        return ('exception:%s' % type(e).__name__, "raised %s: %s" % (type(e).__name__, e))
    got = np.asarray(got, dtype=float)
    if got.shape != exp.shape:
        return ('shape', "has shape %r, expected %r" % (got.shape, exp.shape))
    if not close(got, exp):
        tot_g, tot_e = float(np.sum(got)), float(np.sum(exp))
        kind = 'bin-total' if abs(tot_g - tot_e) > 1e-9 * (1 + abs(tot_e)) else 'bin-assignment'
        return (kind, "gives %s (total %g), the definition gives %s (total %g = in-range selected values)" % (got.tolist(), tot_g, exp.tolist(), tot_e))
    return None


def hist2d_case(d, state, expmask, rx, ry, bins, logs):
    x, y = np.asarray(d['x'], dtype=float).ravel(), np.asarray(d['y'], dtype=float).ravel()
    sel = np.ones(x.shape, bool) if expmask is None else np.asarray(expmask, bool).ravel()
    ex, ax_ = ref_hist(x, None, sel, rx[0], rx[1], bins[0], logs[0])
    ey, ay_ = ref_hist(y, None, sel, ry[0], ry[1], bins[1], logs[1])
    if ex is None or ey is None or ax_ or ay_:
        return 'skip'
    # joint reference
    exp = np.zeros(bins)
    with np.errstate(all='ignore'):
        for i in range(x.size):
            if not sel[i] or not (np.isfinite(x[i]) and np.isfinite(y[i])):
                continue
            cell = []
            for v, (lo, hi), nb, lg in ((x[i], rx, bins[0], logs[0]), (y[i], ry, bins[1], logs[1])):
                lo, hi = min(lo, hi), max(lo, hi)
                if not (lo <= v <= hi) or (lg and v <= 0):
                    cell = None
                    break
                a, b, p = (np.log10(lo), np.log10(hi), np.log10(v)) if lg else (lo, hi, v)
                cell.append(min(int(np.floor((p - a) / (b - a) * nb)), nb - 1))
            if cell is not None:
                exp[cell[0], cell[1]] += 1
    try:
        with warnings.catch_warnings():
            warnings.simplefilter('ignore')
            with np.errstate(all='ignore'):
                got = d.compute_histogram([d.id['x'], d.id['y']], range=[tuple(rx), tuple(ry)], bins=list(bins), log=list(logs), subset_state=state)
    except Exception as e:
        return ('exception:%s' % type(e).__name__, "raised %s: %s" % (type(e).__name__, e))
    got = np.asarray(got, dtype=float)
    if got.shape != exp.shape:
        return ('shape', "has shape %r, expected %r" % (got.shape, exp.shape))
    if not close(got, exp):
        tot_g, tot_e = float(np.sum(got)), float(np.sum(exp))
        kind = 'bin-total' if abs(tot_g - tot_e) > 1e-9 * (1 + abs(tot_e)) else 'bin-assignment'
        return (kind, "gives %s (total %g), the definition gives %s (total %g)" % (got.tolist(), tot_g, exp.tolist(), tot_e))
    return None


HIST_X = {
    'mixed': np.array([-3.0, -1.25, 0.0, 0.5, 1.0, 2.75, 4.0, 4.0, 7.5, 10.0, np.nan, np.inf, -np.inf, 3.3, 9.1, 0.013]),
    'negative': np.array([-9.5, -8.0, -7.25, -4.0, -2.0, -2.0, -1.0, -0.5, np.nan, -6.1]),
    'small-positive': np.array([0.001, 0.002, 0.01, 0.05, 0.1, 0.25, 0.5, 0.5, 0.013, np.nan]),
    'large-positive': np.array([1.0e4, 3.0e5, 2.0e8, 7.0e10, 1.0e12, 1.0e16, 1.0e16, 5.5e13, 1.0e10, np.nan]),
    'integers': np.array([0, 1, 1, 2, 3, 5, 8, 13, 21, 34]),
}


def hist_ranges(name, vals):
    fin = vals[np.isfinite(vals.astype(float))].astype(float)
    lo, hi = float(fin.min()), float(fin.max())
    mid = float(np.sort(fin)[fin.size // 2])
    out = [('data-min-max', (lo, hi)), ('reversed', (hi, lo)), ('upper-end-on-value', (lo - 1.37, mid)), ('lower-end-on-value', (mid, hi + 2.11)),
           ('inside', (lo + 0.37 * (hi - lo), lo + 0.81 * (hi - lo))), ('wider', (lo - 0.71 * (hi - lo), hi + 0.53 * (hi - lo)))]
    return out


def run_histograms(tier, seed, R):
    from glue.core import Data
    from glue.core import subset as S
    rng = random.Random(seed + 1)
    for name, vals in HIST_X.items():
        for shape_kind in ('1d', '2d'):
            n = vals.size
            v = vals if shape_kind == '1d' else vals[:(n // 2) * 2].reshape((2, n // 2))
            wts = np.array([round(rng.uniform(0.5, 3), 2) for _ in range(v.size)]).reshape(v.shape)
            d = Data(label='h-%s-%s' % (name, shape_kind), x=v, w=wts)
            xf = np.asarray(v, dtype=float)
            with np.errstate(invalid='ignore'):
                med = float(np.nanmedian(xf[np.isfinite(xf)]))
                sels = {'none': (None, None), 'value-ge-median': (d.id['x'] >= med, xf >= med), 'empty': (d.id['w'] > 100, np.zeros(v.shape, bool)),
                        'pixel': (S.RangeSubsetState(1, v.shape[-1] - 2, d.pixel_component_ids[-1]),
                                  (np.indices(v.shape)[-1] >= 1) & (np.indices(v.shape)[-1] <= v.shape[-1] - 2))}
            sl = [slice(0, 1)] * (v.ndim - 1) + [slice(1, None, 2)]
            m = np.zeros(v.shape, bool)
            m[tuple(sl)] = True
            sels['slice'] = (S.SliceSubsetState(d, sl), m)
            for (rname, rg), bins, log, wname, (sname, (state, expmask)) in itertools.product(
                    hist_ranges(name, v), (1, 2, 3, 7, 10), (False, True), (None, 'w'), sels.items()):
                if log and (min(rg) <= 0):
                    continue        # a log-space range needs positive ends: outside the definition
                r = hist_case(d, 'x', wname, state, expmask, rg, bins, log)
                if r == 'skip':
                    continue
                R.count((name, shape_kind, rname, bins, log, wname, sname), 'histogram-1d')
                if r is not None:
                    sign = 'negative-upper-end' if max(rg) < 0 and not log else ('upper-end-below-1' if log and max(rg) < 1 else 'generic')
                    R.fail("hist|1d|%s|%s|%s|%s" % ('log' if log else 'linear', rname if r[0] != 'exception' else 'any', sign, r[0]),
                           "values %s (%s), range %r, %d bins, log=%r, weights=%r, selection %s: %s" % (name, shape_kind, rg, bins, log, wname, sname, r[1]),
                           "from bounded.c10_stats import replay_hist\nsys.exit(replay_hist(%r, %r, %r, %r, %r, %r, %r, %r))\n" % (seed, name, shape_kind, rname, bins, log, wname, sname))
    # 2-d histograms
    xs = HIST_X['mixed']
    ys = np.array([0.2, 1.1, 5.0, 2.2, 3.0, 3.0, 0.7, 9.9, 4.4, 1.0, 2.0, np.nan, 6.0, 0.05, 8.0, 5.5])
    d = Data(label='h2', x=xs, y=ys)
    with np.errstate(invalid='ignore'):
        sels = {'none': (None, None), 'y-gt-1': (d.id['y'] > 1, ys > 1), 'empty': (d.id['y'] > 1000, np.zeros(xs.shape, bool))}
    for (rxn, rx), (ryn, ry), bins, logs, (sname, (state, expmask)) in itertools.product(
            hist_ranges('mixed', xs), hist_ranges('y', ys), ((1, 1), (2, 3), (4, 2), (5, 5)), ((False, False), (True, False), (False, True), (True, True)), sels.items()):
        if (logs[0] and min(rx) <= 0) or (logs[1] and min(ry) <= 0):
            continue
        r = hist2d_case(d, state, expmask, rx, ry, bins, logs)
        if r == 'skip':
            continue
        R.count((rxn, ryn, bins, logs, sname), 'histogram-2d')
        if r is not None:
            R.fail("hist|2d|%s|%s" % ('log' if any(logs) else 'linear', r[0]),
                   "2-d histogram, ranges %r x %r, bins %r, log=%r, selection %s: %s" % (rx, ry, bins, logs, sname, r[1]), None)


def replay_hist(seed, name, shape_kind, rname, bins, log, wname, sname):
    from glue.core import Data
    from glue.core import subset as S
    rng = random.Random(seed + 1)
    for nm, vals in HIST_X.items():
        for sk in ('1d', '2d'):
            n = vals.size
            v = vals if sk == '1d' else vals[:(n // 2) * 2].reshape((2, n // 2))
            wts = np.array([round(rng.uniform(0.5, 3), 2) for _ in range(v.size)]).reshape(v.shape)
            if (nm, sk) != (name, shape_kind):
                continue
            d = Data(label='h', x=v, w=wts)
            xf = np.asarray(v, dtype=float)
            med = float(np.nanmedian(xf[np.isfinite(xf)]))
            with np.errstate(invalid='ignore'):
                sels = {'none': (None, None), 'value-ge-median': (d.id['x'] >= med, xf >= med), 'empty': (d.id['w'] > 100, np.zeros(v.shape, bool)),
                        'pixel': (S.RangeSubsetState(1, v.shape[-1] - 2, d.pixel_component_ids[-1]),
                                  (np.indices(v.shape)[-1] >= 1) & (np.indices(v.shape)[-1] <= v.shape[-1] - 2))}
            sl = [slice(0, 1)] * (v.ndim - 1) + [slice(1, None, 2)]
            m = np.zeros(v.shape, bool)
            m[tuple(sl)] = True
            sels['slice'] = (S.SliceSubsetState(d, sl), m)
            rg = dict(hist_ranges(nm, v))[rname]
            state, expmask = sels[sname]
            r = hist_case(d, 'x', wname, state, expmask, rg, bins, log)
            print(r)
            return 1 if r and r != 'skip' else 0
    return 0


def run(tier, seed, R):
    R.rule = ("compute_statistic vs an independent reference over shapes %s; per shape: 13 selection kinds (value, pixel range/box/last-plane, complement, slice, stepped slice, "
              "random mask, single element, pixel region, or, empty, none) x a catalogue of views (None, Ellipsis, full/short tuples of integers and slices with steps 1-2 and "
              "negative bounds) x every axis subset of the viewed array (None, each int, every tuple incl. () and all) with statistic, finite/positive and percentile drawn per cell; "
              "chunked path: every all-but-one axis tuple x chunk limits {1,2,3,5,7,size/2,size-1,size} x all six statistics. compute_histogram: 5 value sets (mixed with NaN/inf, "
              "all negative, <1, >=1e4, integers) as 1-d and 2-d data x 6 ranges (data min/max, reversed, each end on a data value, inside, wider) x bins {1,2,3,7,10} x linear/log x "
              "weights on/off x 5 selections; 2-d histograms over range pairs x 4 bin shapes x 4 log pairs. non-trivial = distinct case whose selection is neither empty nor everything"
              % (list(SHAPES_QUICK if tier == 'quick' else SHAPES_THOROUGH),))
    R.exhaustive = False
    run_statistics(tier, seed, R)
    run_histograms(tier, seed, R)
    run_viewers(tier, seed, R)
    R.samples.append({"case": "shape (2,3,4), median over axis (0,2) of x restricted to the pixel box selection with view (slice(1,None), slice(None,-1)), n_chunk_max default"})
    R.samples.append({"case": "values 'negative', range (data min, data max), 3 bins, linear: the value equal to the upper end is counted in the last bin"})


# ---------------------------------------------------------------- what the viewers plot

def run_viewers(tier, seed, R):
    from glue.core import Data, DataCollection
    from glue.core import subset as S
    from glue.viewers.profile.state import ProfileViewerState, ProfileLayerState
    from glue.viewers.histogram.state import HistogramViewerState, HistogramLayerState
    from glue.viewers.image.pixel_selection_subset_state import PixelSubsetState
    rng = random.Random(seed + 2)
    for shape in ((3, 4, 2), (2, 3), (4, 1, 3)):
        d = make_data(shape, rng)
        dc = DataCollection([d])
        sels = selections(d, rng)
        px = PixelSubsetState(d, [slice(None)] + [slice(s - 1, s) for s in shape[1:]])
        pm = np.zeros(shape, bool)
        pm[tuple([slice(None)] + [slice(s - 1, s) for s in shape[1:]])] = True
        sels['pixel-selection'] = (px, pm)
        groups = {}
        for sname in ('value-gt', 'pixel-box', 'slice', 'empty', 'mask', 'pixel-selection', 'not-pixel-range'):
            groups[sname] = dc.new_subset_group(sname, sels[sname][0])
        vs = ProfileViewerState()
        layers = {'none': ProfileLayerState(viewer_state=vs, layer=d)}
        vs.layers.append(layers['none'])
        for sname, g in groups.items():
            layers[sname] = ProfileLayerState(viewer_state=vs, layer=g.subsets[0])
            vs.layers.append(layers[sname])
        for ax in range(len(shape)):
            for fn in ('minimum', 'maximum', 'mean', 'median', 'sum'):
                vs.x_att = d.pixel_component_ids[ax]
                vs.function = fn
                axes = tuple(a for a in range(len(shape)) if a != ax)
                for sname, ls in layers.items():
                    expmask = sels[sname][1]
                    exp = reference(fn, np.asarray(d[ls.attribute]), expmask, None, axes, True, False, None, True)
                    ls.reset_cache()
                    err = None
                    try:
                        with warnings.catch_warnings():
                            warnings.simplefilter('ignore')
                            x, y = ls.profile
                        if np.all(np.isnan(exp)):
                            ok = len(x) == 0 and len(y) == 0
                        else:
                            ok = close(y, exp) and close(x, np.arange(shape[ax]))
                        if not ok:
                            err = ('value', "plots x=%s y=%s, the definition gives x=%s y=%s" % (np.asarray(x).tolist(), np.asarray(y).tolist(), list(range(shape[ax])), exp.tolist()))
                    except Exception as e:
                        err = ('exception:%s' % type(e).__name__, "raised %s: %s" % (type(e).__name__, e))
                    R.count((shape, ax, fn, sname), 'profile-layer')
                    if err:
                        R.fail("viewer|profile|%s|%s" % (sname, err[0]), "profile of %s over pixel axis %d of a %r cube (attribute %s), layer selection %s: %s" % (fn, ax, shape, ls.attribute, sname, err[1]), None)
    # histogram layers
    for name in ('mixed', 'negative', 'small-positive'):
        vals = HIST_X[name]
        d = Data(label='hv-' + name, x=vals)
        dc = DataCollection([d])
        xf = vals.astype(float)
        med = float(np.nanmedian(xf[np.isfinite(xf)]))
        with np.errstate(invalid='ignore'):
            sels = {'none': (None, None), 'value-ge-median': (d.id['x'] >= med, xf >= med), 'empty': (d.id['x'] > 1e30, np.zeros(vals.shape, bool))}
        vs = HistogramViewerState()
        layers = {'none': HistogramLayerState(viewer_state=vs, layer=d)}
        vs.layers.append(layers['none'])
        for sname in ('value-ge-median', 'empty'):
            g = dc.new_subset_group(sname, sels[sname][0])
            layers[sname] = HistogramLayerState(viewer_state=vs, layer=g.subsets[0])
            vs.layers.append(layers[sname])
        vs.x_att = d.id['x']
        for (rname, rg), bins, log in itertools.product(hist_ranges(name, vals), (1, 3, 7), (False, True)):
            if log and min(rg) <= 0:
                continue
            with warnings.catch_warnings():
                warnings.simplefilter('ignore')
                vs.x_log = log
                vs.hist_x_min, vs.hist_x_max = rg
                vs.hist_n_bin = bins
            for sname, ls in layers.items():
                exp, amb = ref_hist(vals, None, sels[sname][1], rg[0], rg[1], bins, log)
                if exp is None or amb:
                    continue
                ls.reset_cache()
                err = None
                try:
                    with warnings.catch_warnings():
                        warnings.simplefilter('ignore')
                        edges, got = ls.histogram
                    lo, hi = min(rg), max(rg)
                    ee = np.logspace(np.log10(lo), np.log10(hi), bins + 1) if log else np.linspace(lo, hi, bins + 1)
                    if not close(got, exp) or not close(edges, ee):
                        err = ('value', "plots edges %s counts %s, the definition gives edges %s counts %s" % (np.asarray(edges).tolist(), np.asarray(got).tolist(), ee.tolist(), exp.tolist()))
                except Exception as e:
                    err = ('exception:%s' % type(e).__name__, "raised %s: %s" % (type(e).__name__, e))
                R.count((name, rname, bins, log, sname), 'histogram-layer')
                if err:
                    R.fail("viewer|histogram|%s|%s|%s" % ('log' if log else 'linear', sname, err[0]),
                           "histogram layer of values %s, range %r, %d bins, log=%r, layer selection %s: %s" % (name, rg, bins, log, sname, err[1]), None)
