"""C12: [E] exhaustive finite checks over the registries and the rename table of the current tree, and
[B] old-format round trips (bounded)."""
import inspect
import io
import json


def registries(R):
    """[E] every registered type: versions consecutive from 1; saver and loader version sets equal where both exist."""
    from glue.core import state as S
    sv, ld = S.GlueSerializer.dispatch._data, S.GlueUnSerializer.dispatch._data
    for nm, d in (('saver', sv), ('loader', ld)):
        for typ, versions in d.items():
            vs = sorted(versions)
            R.count(('reg', nm, typ.__name__, tuple(vs)), 'registry-entries[E]')
            if not vs:
                continue            # empty entry left by a defaultdict read (get_version on an unknown key)
            if vs != list(range(1, len(vs) + 1)):
                R.fail("registry|%s|%s.%s|not-consecutive" % (nm, typ.__module__, typ.__name__),
                       "%s registry: versions of %s are %r (not consecutive from 1)" % (nm, typ.__name__, vs),
                       "from glue.core import state as S\nd = S.Glue%s.dispatch._data\nbad = [(k, sorted(v)) for k, v in d.items() if v and sorted(v) != list(range(1, len(v) + 1))]\nprint(bad)\nsys.exit(1 if bad else 0)\n"
                       % ('Serializer' if nm == 'saver' else 'UnSerializer'))
    for typ in sv:
        if typ in ld and ld[typ] and sv[typ] and sorted(sv[typ]) != sorted(ld[typ]):
            R.fail("registry|versions-differ|%s.%s" % (typ.__module__, typ.__name__),
                   "%s has saver versions %r but loader versions %r" % (typ.__name__, sorted(sv[typ]), sorted(ld[typ])),
                   "from glue.core import state as S\nsv, ld = S.GlueSerializer.dispatch._data, S.GlueUnSerializer.dispatch._data\n"
                   "bad = [k for k in sv if k in ld and ld[k] and sorted(sv[k]) != sorted(ld[k])]\nprint(bad)\nsys.exit(1 if bad else 0)\n")
    saver_only = [t.__name__ for t in sv if t not in ld or not ld[t]]
    R.notes.append("types with a saver but no loader (by design, not flagged): %s" % saver_only)


def patch_table(R):
    """[E] every row of the rename table: ranking function (no cycle), fixed point importable when it lies in this
    package tree, key does not capture a class this package defines and writes."""
    import os
    import importlib.util
    from glue.core import state as S
    from glue.utils import lookup_class
    T = S.PATH_PATCHES
    rank = {}

    def rk(name, seen=()):
        if name in rank:
            return rank[name]
        if name in seen:
            return None
        if name not in T:
            rank[name] = 0
            return 0
        r = rk(T[name], seen + (name,))
        rank[name] = None if r is None else r + 1
        return rank[name]
    here = os.path.dirname(os.path.dirname(S.__file__))       # .../glue
    for before, after in T.items():
        R.count(('row', before), 'patch-rows[E]')
        r = rk(before)
        if r is None or rk(after) is None or not (rk(after) < r):
            R.fail("patch|cycle|%s" % before, "rename table: following %s never terminates (cycle)" % before,
                   "from glue.core import state as S\nn, k = %r, 0\nwhile n in S.PATH_PATCHES and k < 1000:\n    n = S.PATH_PATCHES[n]; k += 1\nsys.exit(1 if k >= 1000 else 0)\n" % before)
            continue
        fixed = before
        while fixed in T:
            fixed = T[fixed]
        # importable when the target lies in a module tree present in this repository
        parts = fixed.split('.')
        if parts[0] == 'glue':
            # is there a module file for a prefix of the path inside this tree?
            sub = os.path.join(here, *parts[1:2])
            if os.path.isdir(sub) or os.path.exists(sub + '.py'):
                try:
                    obj = lookup_class(fixed)
                    ok = obj is not None
                except Exception as e:
                    ok = False
                # modules that exist only in the separate Qt package (…qt…) are outside this package
                if not ok and '.qt' not in fixed and 'qt.' not in fixed:
                    R.fail("patch|dangling|%s" % before, "rename table: %s -> %s cannot be imported from this package" % (before, fixed),
                           "from glue.core.state import lookup_class_with_patches\ntry:\n    lookup_class_with_patches(%r)\nexcept Exception as e:\n    print(e); sys.exit(1)\nsys.exit(0)\n" % before)
        # the real function must resolve the row to the same object as following the table to its fixed point
        try:
            want = lookup_class(fixed)
        except Exception:
            want = None
        if want is not None:
            try:
                got = S.lookup_class_with_patches(before)
                okk = got is want
                why = "resolves to %r instead of %r" % (got, want)
            except Exception as e:
                okk = False
                why = "raises %s: %s" % (type(e).__name__, e)
            if not okk:
                R.fail("patch|resolution|%s" % before, "lookup_class_with_patches(%r) %s (fixed point of the table: %s)" % (before, why, fixed),
                       "from glue.core.state import lookup_class_with_patches\nfrom glue.utils import lookup_class\ntry:\n    ok = lookup_class_with_patches(%r) is lookup_class(%r)\n"
                       "except Exception as e:\n    print(e); ok = False\nsys.exit(0 if ok else 1)\n" % (before, fixed))
        # the key must not be the real name of a class this package defines and writes
        try:
            obj = lookup_class(before)
        except Exception:
            obj = None
        if inspect.isclass(obj) and not inspect.isabstract(obj) and "%s.%s" % (obj.__module__, obj.__qualname__) == before:
            writes = hasattr(obj, '__gluestate__') or any(t in S.GlueSerializer.dispatch for t in obj.__mro__ if t is not object)
            if writes:
                R.fail("patch|captures-live-class|%s" % before,
                       "rename table key %s is the real name of a class this package still defines and writes; its records are redirected to %s on load"
                       % (before, fixed),
                       "from glue.core import state as S\nfrom glue.utils import lookup_class\nk = %r\nobj = lookup_class(k)\n"
                       "print(k, '->', S.PATH_PATCHES.get(k))\nsys.exit(1 if k in S.PATH_PATCHES and '%%s.%%s' %% (obj.__module__, obj.__qualname__) == k else 0)\n" % before)


class ForcedVersionSerializer:
    pass


def make_forced(versions):
    """GlueSerializer that writes the given types with the given (older) registered versions."""
    from glue.core.state import GlueSerializer

    class Forced(GlueSerializer):
        def _dispatch(self, obj):
            for typ, v in versions.items():
                if type(obj) is typ:
                    return self.dispatch.get_version(typ, v), v
            return GlueSerializer._dispatch(self, obj)
    return Forced


def sample_collection(seed=0, with_join=True, with_coords=False, with_derived=True):
    import numpy as np
    from glue.core import Data, DataCollection
    from glue.core.component_link import ComponentLink
    from glue.core.coordinates import IdentityCoordinates
    d1 = Data(x=[1., 2., 3., np.nan], y=[4, 5, 6, 7], label='first')
    d1.add_component(np.array(['a', 'b', 'a', 'c']), 'cat')
    if with_derived:
        d1['z'] = d1.id['x'] * 2 + 1
    d2 = Data(u=[[1., 2.], [3., 4.]], label='second', coords=IdentityCoordinates(n_dim=2) if with_coords else None)
    d3 = Data(k=[3, 1, 2, 2], w=[10., 20., 30., 40.], label='third')
    d1.style.color = '#123456'
    d1.style.alpha = 0.4
    d1.meta['origin'] = 'generated'
    d1.meta['n'] = 3
    dc = DataCollection([d1, d2, d3])
    dc.add_link(ComponentLink([d1.id['x']], d3.id['w'], using=None) if False else ComponentLink([d1.id['x']], d3.id['w']))
    if with_join:
        # a link whose inputs live partly in the target's own dataset and partly in another one (registered function, saved by name)
        from bounded.c02_session import register_functions, _volume2
        register_functions()
        dc.add_link(ComponentLink([d3.id['w'], d1.id['y']], d3.id['k2'] if False else d2.id['u'], using=_volume2) if False else
                    ComponentLink([d1.id['y'], d3.id['k']], d1.id['x'], using=_volume2))
    if with_join:
        d3.join_on_key(d1, 'k', 'y') if False else d1.join_on_key(d3, 'y', 'k')
    g1 = dc.new_subset_group('low x', d1.id['x'] < 2.5)
    g2 = dc.new_subset_group('range', (d3.id['w'] > 15) & (d3.id['w'] < 35))
    g1.style.color = '#00ff00'
    return dc


ASPECTS_BY_DATA_VERSION = {
    1: {'label', 'shape', 'main_components', 'values', 'subsets', 'n_subsets'},
    2: {'label', 'shape', 'main_components', 'values', 'subsets', 'n_subsets', 'style'},
    3: {'label', 'shape', 'main_components', 'values', 'subsets', 'n_subsets', 'style', 'key_joins'},
    4: {'label', 'shape', 'main_components', 'values', 'subsets', 'n_subsets', 'style', 'key_joins', 'uuid'},
    5: {'label', 'shape', 'main_components', 'values', 'subsets', 'n_subsets', 'style', 'key_joins', 'uuid', 'meta', 'components'},
}


def _aspects(vd, vc, with_join):
    aspects = set(ASPECTS_BY_DATA_VERSION[vd]) | {'n_data', 'n_links', 'linked'}       # links are recorded by every DataCollection version
    if vc >= 2:
        aspects |= {'groups', 'n_groups'}
    if vd < 3 or not with_join:
        aspects -= {'key_joins'}
    return aspects


def _old_format_case(vd, vc, with_join, with_coords, with_derived):
    """returns None (equivalent) or (kind, detail)"""
    from glue.core.state import GlueUnSerializer
    from glue.core import Data, DataCollection
    from bounded.session_oracle import snapshot, diff
    dc = sample_collection(with_join=with_join, with_coords=with_coords, with_derived=with_derived)
    before = snapshot(dc)
    try:
        text = make_forced({Data: vd, DataCollection: vc})(dc).dumps()
        assert ('"_protocol": %d' % vd in text) or vd == 1
        dc2 = GlueUnSerializer.loads(text).object('__main__')
    except Exception as e:
        return ("exception:%s" % type(e).__name__, "raised %s: %s" % (type(e).__name__, e))
    dd = diff(before, snapshot(dc2), _aspects(vd, vc, with_join))
    if not dd:
        return None
    # classification: is the only difference the arithmetic derived component `z` of the first dataset?
    only_z = all(('values.z' in x) or ('components' in x and "'z'" in x) or ('.linked' in x and "'z'" in x) for x in dd)
    if only_z and with_derived:
        return ("arithmetic-derived-component-dropped", '; '.join(dd[:3]))
    return ("differs:" + dd[0].split(':')[0].split('.')[-1], '; '.join(dd[:3]))


def old_formats(R, tier):
    """[B] for every (Data version, DataCollection version): write the sample collection in that format, load it back."""
    from glue.core.state import GlueSerializer
    from glue.core import Data, DataCollection
    sv = GlueSerializer.dispatch._data
    for with_join in (False, True):
        for with_coords in (False, True):
            for with_derived in (False, True):
                for vd in sorted(sv[Data]):
                    for vc in sorted(sv[DataCollection]):
                        R.count((vd, vc, with_join, with_coords, with_derived), 'old-format-roundtrips')
                        r = _old_format_case(vd, vc, with_join, with_coords, with_derived)
                        if r is None:
                            continue
                        kind, detail = r
                        if kind == "arithmetic-derived-component-dropped":
                            sig = "old-format|DataCollection-v%s|%s" % ('1..3' if vc <= 3 else vc, kind)
                        else:
                            sig = "old-format|Data-v%d|DataCollection-v%d|%s" % (vd, vc, kind)
                        R.fail(sig, "sample collection written as Data v%d / DataCollection v%d (join=%s coords=%s derived=%s) and loaded back: %s"
                               % (vd, vc, with_join, with_coords, with_derived, detail),
                               "from bounded.c12_state import replay_old_format\nsys.exit(replay_old_format(%d, %d, %r, %r, %r))\n"
                               % (vd, vc, with_join, with_coords, with_derived))


def replay_old_format(vd, vc, with_join, with_coords, with_derived=True):
    r = _old_format_case(vd, vc, with_join, with_coords, with_derived)
    print(r)
    return 1 if r else 0


def vdict_native(R, tier, seed):
    """[B] run-time contract on the real VersionedDict over all short assignment sequences."""
    import itertools
    from glue.core.state import VersionedDict
    ops = [('k', v) for v in (-1, 0, 1, 2, 3)] + [('j', 1), ('j', 2)]
    N = 4 if tier == 'quick' else 5
    for n in range(1, N + 1):
        for seq in itertools.product(ops, repeat=n):
            d = VersionedDict()
            model = {}
            ok = True
            for item, v in seq:
                exp_ok = v == len(model.get(item, [])) + 1
                try:
                    d[item, v] = (item, v)
                    got_ok = True
                except KeyError:
                    got_ok = False
                if got_ok and exp_ok:
                    model.setdefault(item, []).append((item, v))
                if got_ok != exp_ok:
                    ok = False
                    break
                for it in ('k', 'j'):
                    if (it in d) != (it in model):
                        ok = False
                    if it in model and (d[it] != (model[it][-1], len(model[it])) or
                                        any(d.get_version(it, i + 1) != x for i, x in enumerate(model[it]))):
                        ok = False
            R.count(('vd', seq) if len(set(seq)) > 1 else None, 'VersionedDict-sequences')
            if not ok:
                R.fail("VersionedDict|sequence", "VersionedDict assignment sequence %r deviates from 'consecutive from 1, write-once'" % (seq,),
                       "from glue.core.state import VersionedDict\nd = VersionedDict()\nseq = %r\nbad = False\nn = {}\n"
                       "for item, v in seq:\n    exp = v == n.get(item, 0) + 1\n    try:\n        d[item, v] = 1; got = True\n    except KeyError:\n        got = False\n"
                       "    if got and exp: n[item] = v\n    bad = bad or got != exp or any((it in d) != (it in n) for it in 'kj')\nsys.exit(1 if bad else 0)\n" % (seq,))


def late_registration(R):
    """a saver registered after objects of that class (or of a subclass that so far inherited a saver) were already saved is used
    from then on: every save uses the newest registered version of the first class in the MRO that has one"""
    from glue.core.state import GlueSerializer, GlueUnSerializer, saver, loader

    class Quantity(object):
        def __init__(self, v):
            self.v = v

    class Tagged(Quantity):
        pass

    class Plain(Quantity):          # never gets a saver of its own: always written by the newest saver of Quantity
        pass

    @saver(Quantity)
    def _s1(q, context):
        return dict(v=q.v)

    @loader(Quantity)
    def _l1(rec, context):
        return Quantity(rec['v'])
    q, t, pl = Quantity(3), Tagged(4), Plain(5)
    first = (GlueSerializer(q).dumps(), GlueSerializer(t).dumps(), GlueSerializer(pl).dumps())

    @saver(Quantity, version=2)
    def _s2(q, context):
        return dict(value=q.v, unit='m')

    @loader(Quantity, version=2)
    def _l2(rec, context):
        return Quantity(rec['value'])

    @saver(Tagged)
    def _st(q, context):
        return dict(v=q.v, tag='t')

    @loader(Tagged)
    def _lt(rec, context):
        return Tagged(rec['v'])
    second = (GlueSerializer(q).dumps(), GlueSerializer(t).dumps(), GlueSerializer(pl).dumps())
    R.count(('late', 'inherited-version'), 'late-registration')
    if '"_protocol": 2' not in second[2] or '"unit"' not in second[2]:
        R.fail("late-registration|newer-base-version-ignored-by-subclass", "an object of a subclass without a saver of its own, saved once through the inherited version-1 saver, is not written by the "
               "version-2 saver registered for its base class afterwards: %s" % second[2], None)
    R.count(('late', 'version'), 'late-registration')
    R.count(('late', 'subclass'), 'late-registration')
    if '"_protocol": 2' not in second[0] or '"unit"' not in second[0]:
        R.fail("late-registration|newer-version-ignored", "a version-2 saver registered after a first save is not used by the next save: %s" % second[0], None)
    if '"tag"' not in second[1]:
        R.fail("late-registration|subclass-saver-ignored", "a saver registered for a subclass after a first save (through the inherited saver) is not used by the next save: %s" % second[1], None)


def run(tier, seed, R):
    R.rule = ("[E] every entry of the saver/loader registries and every row of the rename table of the current tree (exhaustive); "
              "[B] the sample collection written in every (Data version x DataCollection version) format and loaded back, compared on the "
              "aspects that version records (incl. a link whose inputs live in two datasets); all assignment sequences of length <= N on the real VersionedDict; savers registered after a first save. "
              "non-trivial = distinct registry entry / table row / format pair / sequence with >1 distinct operations")
    R.exhaustive = True
    registries(R)
    patch_table(R)
    vdict_native(R, tier, seed)
    old_formats(R, tier)
    late_registration(R)
    R.samples.append({"old-format": "sample collection written as Data v3 / DataCollection v2, loaded, compared on label/values/subsets/style/key_joins/groups"})
    R.samples.append({"patch-row": "glue.clients.ds9norm.DS9Normalize -> ... -> glue.viewers.image.compat.DS9Compat: rank 2, importable"})
