"""C04 bounded stand-in: values and membership masks restricted to a view equal the full-size result indexed by that view
(same shape), for every attribute kind x selection kind x shape x view of the catalogue; IndexedData against the parent slice."""
import itertools
import random

import numpy as np


def view_kind(v, ndim):
    if v is None:
        return 'none'
    if v is Ellipsis:
        return 'ellipsis'
    if isinstance(v, np.ndarray):
        return 'bare-bool-mask' if v.dtype == bool else 'bare-index-array'
    if isinstance(v, slice):
        return 'bare-slice'
    if isinstance(v, (int, np.integer)):
        return 'bare-int'
    if isinstance(v, tuple):
        has_arr = any(isinstance(x, np.ndarray) for x in v)
        has_ell = any(x is Ellipsis for x in v)
        ints = [isinstance(x, (int, np.integer)) for x in v]
        short = len(v) < ndim and not has_ell
        if has_ell:
            return 'tuple-with-ellipsis'
        if has_arr:
            if all(isinstance(x, np.ndarray) for x in v):
                return 'short-index-arrays' if short else 'index-arrays'
            return 'arrays-mixed'
        if all(ints):
            return 'short-all-int' if short else 'all-int'
        if any(ints):
            return 'short-int-mixed' if short else 'int-mixed'
        return 'short-slices' if short else 'slices'
    return 'other'


def datasets():
    """[(data, {attr kind: cid}, other datasets to keep alive)]"""
    from glue.core import Data, DataCollection
    from glue.core.coordinates import AffineCoordinates
    from glue.core.link_helpers import LinkSame
    from glue.core.component_link import ComponentLink
    out = []
    for shape in ((5,), (3, 4), (2, 3, 2)):
        n = int(np.prod(shape))
        nd = len(shape)
        m = np.eye(nd + 1)
        for i in range(nd):
            m[i, i] = 1.5 + i
            m[i, nd] = -1.0 * i
        if nd >= 2:
            m[0, 1] = 0.5           # coupled axes
        f = (np.arange(n, dtype=float) * 1.5 - 3).reshape(shape)
        f.flat[1] = np.nan
        i = (np.arange(n) % 4).reshape(shape)
        c = np.array(['a', 'b', 'c'])[(np.arange(n) * 2) % 3].reshape(shape)
        d = Data(f=f, i=i, label='d%d' % nd, coords=AffineCoordinates(m))
        d.add_component(c, 'c')
        d['der'] = d.id['f'] * 2 + d.id['i']
        other = Data(g=np.arange(n, dtype=float).reshape(shape) * 10, label='o%d' % nd)
        dc = DataCollection([d, other])
        for a, b in zip(d.pixel_component_ids, other.pixel_component_ids):
            dc.add_link(LinkSame(a, b))
        dc.add_link(ComponentLink([d.id['i']], other.id['g'], using=lambda x: x * 10.0 + 1))
        kinds = {'stored-float': d.id['f'], 'stored-int': d.id['i'], 'categorical': d.id['c'], 'derived': d.id['der'],
                 'linked': other.id['g'], 'pixel': d.pixel_component_ids[-1], 'world': d.world_component_ids[0], 'world-last': d.world_component_ids[-1]}
        out.append((d, kinds, (other, dc)))
    return out


def selections(d, kinds):
    from glue.core import subset as S
    from glue.core import roi as R
    f, i, c = kinds['stored-float'], kinds['stored-int'], kinds['categorical']
    px = d.pixel_component_ids
    m = np.zeros(d.shape, bool)
    m.flat[::3] = True
    sl = [slice(0, max(1, s - 1)) for s in d.shape]
    sl2 = [slice(None, None, 2)] + [slice(1, None)] * (d.ndim - 1)
    out = {
        'empty': S.SubsetState(), 'range': S.RangeSubsetState(-1, 4, f), 'inequality': i >= 2, 'ineq-cid-cid': f > i,
        'roi': S.RoiSubsetState(f, i, R.RectangularROI(-2.5, 6.5, 0.5, 3.5)), 'roi-nd': S.RoiSubsetStateNd([f, i], R.CircularROI(2, 2, 3.1)),
        'roi-pixel': S.RoiSubsetState(px[-1], px[0], R.RectangularROI(0.5, 1.5, -0.5, 0.5)),      # last axis == 1 and first axis == 0: depends on both
        'category': S.CategorySubsetState(c, [0, 2]), 'categorical-roi': S.CategoricalROISubsetState(c, R.CategoricalROI(['b'])),
        'element': S.ElementSubsetState([0, 2, d.size - 1]), 'mask': S.MaskSubsetState(m, d.pixel_component_ids),
        'slice': S.SliceSubsetState(d, sl), 'slice-stepped': S.SliceSubsetState(d, sl2),
        'multirange': S.MultiRangeSubsetState([(-3, -1), (3, 6)], f), 'linked-ineq': kinds['linked'] > 15, 'world-ineq': kinds['world'] > 1.0,
    }
    out['and'] = out['range'] & out['inequality']
    out['not-slice'] = ~out['slice']
    out['multi-or'] = S.MultiOrState([out['range'], out['mask'], out['roi']])
    # many-way or whose first member keeps its masks memoised (the members are the very objects above)
    out['multi-or-memo'] = S.MultiOrState([out['inequality'], out['category'], out['element'], out['ineq-cid-cid'], out['range']])
    out['xor-deep'] = (out['slice-stepped'] ^ out['inequality']) | (~out['range'])
    return out


def same_values(a, b):
    a, b = np.asarray(a), np.asarray(b)
    if a.shape != b.shape:
        return False
    if a.dtype.kind in 'fc' or b.dtype.kind in 'fc':
        a, b = a.astype(float), b.astype(float)
        return bool(np.all((a == b) | (np.isnan(a) & np.isnan(b))))
    return bool(np.all(a == b))


def ref_index(full, v):
    if v is None:
        return full
    return full[v]


def check_values(R, d, kname, cid, views):
    full = np.asarray(d[cid])
    for v in views:
        try:
            exp = ref_index(full, v)
        except IndexError:
            continue
        vk = view_kind(v, d.ndim)
        try:
            got = d[cid, v] if v is not None else d.get_data(cid, view=None)
            if kname == 'categorical':
                got = np.asarray(got)
            err = None if same_values(got, exp) else ('values' if np.shape(got) == np.shape(exp) else 'shape')
            det = "gives %s (shape %r), the full array indexed by the view %s (shape %r)" % (np.asarray(got).tolist(), np.shape(got), np.asarray(exp).tolist(), np.shape(exp))
        except Exception as e:
            err, det = 'exception:%s' % type(e).__name__, "raised %s: %s" % (type(e).__name__, e)
        R.count(('v', d.label, kname, repr(v)) if np.size(exp) not in (0, full.size) else None, 'attribute-values')
        if err:
            R.fail("view|values|%s|%s|%s" % (kname, vk, err), "dataset %s attribute kind %s, view %r: %s" % (d.label, kname, v, det),
                   "import numpy as np\nfrom numpy import array\nfrom bounded.c04_views import replay_values\nsys.exit(replay_values(%r, %r, %r))\n" % (d.label, kname, v))


def check_masks(R, d, sname, state, views, ref_state=None, skip=()):
    """returns the views that failed; `skip`: views of this selection already reported by an earlier pass (the same input is reported once)"""
    failed = []
    try:
        full = np.asarray(d.get_mask(state if ref_state is None else ref_state))
    except Exception as e:
        R.fail("view|mask-full|%s|exception:%s" % (sname, type(e).__name__), "dataset %s selection %s raised %s: %s" % (d.label, sname, type(e).__name__, e), None)
        return failed
    if full.shape != d.shape:
        R.fail("view|mask-full|%s|shape" % sname, "dataset %s selection %s: full mask has shape %r" % (d.label, sname, full.shape), None)
        return failed
    for v in views:
        if repr(v) in skip:
            continue
        try:
            exp = ref_index(full, v)
        except IndexError:
            continue
        vk = view_kind(v, d.ndim)
        try:
            got = np.asarray(d.get_mask(state, view=v))
            err = None if (got.shape == np.shape(exp) and np.array_equal(got, exp)) else ('mask' if got.shape == np.shape(exp) else 'shape')
            det = "gives %s (shape %r), the full mask indexed by the view %s (shape %r)" % (got.astype(int).tolist(), got.shape, np.asarray(exp).astype(int).tolist(), np.shape(exp))
        except Exception as e:
            err, det = 'exception:%s' % type(e).__name__, "raised %s: %s" % (type(e).__name__, e)
        R.count(('m', d.label, sname, repr(v)) if 0 < int(np.sum(exp)) < max(np.size(exp), 1) else None, 'masks')
        if err:
            failed.append(repr(v))
            R.fail("view|mask|%s|%s|%s" % (sname, vk, err), "dataset %s selection %s, view %r: %s" % (d.label, sname, v, det),
                   "import numpy as np\nfrom numpy import array\nfrom bounded.c04_views import replay_mask\nsys.exit(replay_mask(%r, %r, %r))\n" % (d.label, sname, v))
    return failed


def replay_values(dlabel, kname, v):
    for d, kinds, keep in datasets():
        if d.label == dlabel:
            full = np.asarray(d[kinds[kname]])
            try:
                got = d[kinds[kname], v]
            except Exception as e:
                print(type(e).__name__, e)
                return 1
            print(np.asarray(got).tolist(), np.asarray(full[v]).tolist())
            return 0 if same_values(got, full[v]) else 1
    return 0


def replay_mask(dlabel, sname, v):
    for d, kinds, keep in datasets():
        if d.label == dlabel:
            sels = selections(d, kinds)
            second = sname.endswith('@second-pass')
            st = sels[sname.split('@')[0]]
            if second:
                # as in the sweep: the selection and every combination containing it evaluated with this view first
                for x in sels.values():
                    try:
                        d.get_mask(x, view=v)
                    except Exception:
                        pass
            full = np.asarray(d.get_mask(st.copy() if second else st))
            try:
                got = np.asarray(d.get_mask(st, view=v))
            except Exception as e:
                print(type(e).__name__, e)
                return 1
            exp = full if v is None else full[v]
            return 0 if got.shape == exp.shape and np.array_equal(got, exp) else 1
    return 0


def fresh_first(R, rng, tier):
    """the view is requested on a dataset whose full-size arrays/masks were never requested before (no order dependence)"""
    from bounded.views import view_catalogue
    for di in range(3):
        shape = datasets()[di][0].shape
        views = view_catalogue(shape, rng, small=True, max_views=40, ellipsis_in_tuples=False)
        for v in views:
            if v is None:
                continue
            for what in ('categorical-values', 'categorical-codes', 'category-mask', 'catroi-mask', 'derived-values', 'world-values'):
                d, kinds, keep = datasets()[di]
                sels = None
                try:
                    if what == 'categorical-values':
                        got = np.asarray(d[kinds['categorical'], v])
                        exp = np.asarray(d[kinds['categorical']])[v]
                    elif what == 'categorical-codes':
                        gv = d[kinds['categorical'], v]
                        if not hasattr(gv, 'codes'):
                            continue
                        got = np.asarray(gv.codes)
                        exp = np.asarray(d[kinds['categorical']].codes)[v]
                    elif what == 'category-mask':
                        st = selections(d, kinds)['category']
                        got = np.asarray(d.get_mask(st, view=v))
                        exp = np.asarray(d.get_mask(st))[v]
                    elif what == 'catroi-mask':
                        st = selections(d, kinds)['categorical-roi']
                        got = np.asarray(d.get_mask(st, view=v))
                        exp = np.asarray(d.get_mask(st))[v]
                    elif what == 'derived-values':
                        got = np.asarray(d[kinds['derived'], v])
                        exp = np.asarray(d[kinds['derived']])[v]
                    else:
                        got = np.asarray(d[kinds['world'], v])
                        exp = np.asarray(d[kinds['world']])[v]
                except IndexError:
                    continue
                except Exception as e:
                    if view_kind(v, len(shape)) in ('all-int', 'bare-int', 'short-all-int') and 'mask' in what:
                        continue          # scalar views of categorical selections: separate (known) finding
                    R.fail("view|fresh-first|%s|exception:%s" % (what, type(e).__name__), "dataset of shape %r, %s with view %r requested first: %s: %s"
                           % (shape, what, v, type(e).__name__, e), None)
                    continue
                R.count(('ff', di, what, repr(v)), 'fresh-first')
                if np.ndim(exp) == 0 and 'mask' in what:
                    continue
                if not same_values(got, exp):
                    R.fail("view|fresh-first|%s|%s" % (what, view_kind(v, len(shape))),
                           "dataset of shape %r: %s with view %r requested BEFORE the full-size result gives %s, the full result indexed by the view gives %s"
                           % (shape, what, v, np.asarray(got).tolist(), np.asarray(exp).tolist()),
                           "import numpy as np\nfrom numpy import array\nfrom bounded.c04_views import replay_fresh\nsys.exit(replay_fresh(%d, %r, %r))\n" % (di, what, v))


def replay_fresh(di, what, v):
    d, kinds, keep = datasets()[di]
    if what == 'categorical-codes':
        got = np.asarray(d[kinds['categorical'], v].codes)
        exp = np.asarray(d[kinds['categorical']].codes)[v]
    elif what == 'category-mask':
        st = selections(d, kinds)['category']
        got = np.asarray(d.get_mask(st, view=v)); exp = np.asarray(d.get_mask(st))[v]
    else:
        key = {'categorical-values': 'categorical', 'derived-values': 'derived', 'world-values': 'world'}.get(what, 'categorical')
        got = np.asarray(d[kinds[key], v]); exp = np.asarray(d[kinds[key]])[v]
    print(got.tolist(), np.asarray(exp).tolist())
    return 0 if same_values(got, exp) else 1


def aligned_datasets(R, rng, tier):
    """slice-based selections evaluated on ANOTHER dataset that is pixel-aligned with permuted axes"""
    from glue.core import Data, DataCollection
    from glue.core.link_helpers import LinkSame
    from glue.core import subset as S
    from bounded.views import view_catalogue
    for shape, perm in (((3, 4), (1, 0)), ((2, 3, 4), (2, 0, 1)), ((2, 3, 4), (0, 2, 1)), ((3, 4), (0, 1))):
        ref = Data(f=np.arange(int(np.prod(shape)), dtype=float).reshape(shape), label='ref')
        oshape = tuple(shape[p] for p in perm)
        oth = Data(g=np.zeros(oshape), label='oth')
        dc = DataCollection([ref, oth])
        for i, p in enumerate(perm):
            dc.add_link(LinkSame(oth.pixel_component_ids[i], ref.pixel_component_ids[p]))
        slsets = [[slice(0, 2), slice(1, None), slice(None, None, 2)][:len(shape)], [slice(1, 2), slice(None), slice(1, 3)][:len(shape)],
                  [slice(None, None, 2), slice(0, 3, 2), slice(None)][:len(shape)]]
        views = view_catalogue(oshape, rng, small=True, max_views=50, ellipsis_in_tuples=False)
        cases = []
        for sl in slsets:
            fullref = np.zeros(shape, bool)
            fullref[tuple(sl)] = True
            cases.append((sl, S.SliceSubsetState(ref, list(sl)), fullref))
        # regions drawn on the pixel attributes of `ref` (its last and first axis), evaluated on the other dataset, where the same
        # attributes run along other axis numbers
        from glue.core import roi as G
        idx = np.indices(shape)
        for (x0, x1, y0, y1) in ((0.5, 2.5, -0.5, 1.5), (-0.5, 0.5, 0.5, 5.0)):
            fullref = (idx[-1] > x0) & (idx[-1] < x1) & (idx[0] > y0) & (idx[0] < y1)
            cases.append(('rectangle(%g,%g,%g,%g) on the last and first pixel axis of ref' % (x0, x1, y0, y1),
                          S.RoiSubsetState(ref.pixel_component_ids[-1], ref.pixel_component_ids[0], G.RectangularROI(x0, x1, y0, y1)), fullref))
        for sl, st, fullref in cases:
            exp_full = np.transpose(fullref, perm)
            try:
                got_full = np.asarray(oth.get_mask(st))
            except Exception as e:
                R.fail("view|aligned|full|exception:%s" % type(e).__name__, "selection %r on %r evaluated on a dataset with axes permuted by %r raised %s: %s"
                       % (sl, shape, perm, type(e).__name__, e), None)
                continue
            R.count(('al', shape, perm, repr(sl), 'full'), 'aligned-datasets')
            if got_full.shape != exp_full.shape or not np.array_equal(got_full, exp_full):
                R.fail("view|aligned|full|mask", "slice selection %r on shape %r seen from the dataset with axes %r: wrong cells selected" % (sl, shape, perm), None)
                continue
            for v in views:
                try:
                    exp = exp_full if v is None else exp_full[v]
                except IndexError:
                    continue
                try:
                    got = np.asarray(oth.get_mask(st, view=v))
                    err = None if (got.shape == np.shape(exp) and np.array_equal(got, exp)) else ('mask' if got.shape == np.shape(exp) else 'shape')
                    det = "gives %s, the full mask indexed by the view %s" % (got.astype(int).tolist(), np.asarray(exp).astype(int).tolist())
                except Exception as e:
                    err, det = 'exception:%s' % type(e).__name__, "%s: %s" % (type(e).__name__, e)
                R.count(('al', shape, perm, repr(sl), repr(v)), 'aligned-datasets')
                if err:
                    R.fail("view|aligned|%s|%s" % (view_kind(v, len(oshape)), err),
                           "slice selection %r defined on shape %r, evaluated on the pixel-aligned dataset with axis order %r, view %r: %s" % (sl, shape, perm, v, det), None)


def indexed(R, rng, tier):
    from glue.core.data_derived import IndexedData
    from bounded.views import view_catalogue
    for d, kinds, keep in datasets():
        if d.ndim < 2:
            continue
        options = [[None] + list(range(s)) + [-1, -s] for s in d.shape]      # negative indices count from the end
        all_idx = [t for t in itertools.product(*options) if any(x is None for x in t) and any(x is not None for x in t)]
        if tier == 'quick' and len(all_idx) > 16:
            neg = [t for t in all_idx if any(x is not None and x < 0 for x in t)]
            all_idx = rng.sample([t for t in all_idx if t not in neg], 10) + rng.sample(neg, 6)
        sels = selections(d, kinds)
        for idx in all_idx:
            for change in (False, True):
                try:
                    if change:
                        first = tuple(0 if x is not None else None for x in idx)
                        ind = IndexedData(d, first)
                        ind.indices = idx
                    else:
                        ind = IndexedData(d, idx)
                except Exception as e:
                    R.fail("indexed|construct|exception:%s" % type(e).__name__, "IndexedData(%s, %r) raised %s: %s" % (d.label, idx, type(e).__name__, e), None)
                    continue
                pslice = tuple(slice(None) if x is None else x for x in idx)
                rshape = tuple(s for s, x in zip(d.shape, idx) if x is None)
                views = view_catalogue(rshape, rng, small=True, max_views=14, ellipsis_in_tuples=False)
                for kname in ('stored-float', 'derived', 'categorical', 'pixel', 'world'):
                    cid = kinds[kname]
                    if kname == 'pixel':
                        continue
                    try:
                        icid = next(c for c in (ind.main_components + ind.derived_components + list(ind.world_component_ids)) if c.label == cid.label) \
                            if kname != 'world' else None
                    except Exception:
                        icid = None
                    if icid is None:
                        continue
                    parent = np.asarray(d[cid])[pslice]
                    for v in views:
                        try:
                            exp = parent if v is None else parent[v]
                        except IndexError:
                            continue
                        try:
                            got = np.asarray(ind.get_data(icid, view=v))
                            err = None if same_values(got, exp) else ('values' if got.shape == np.shape(exp) else 'shape')
                            det = "shape %r vs %r" % (got.shape, np.shape(exp))
                        except Exception as e:
                            err, det = 'exception:%s' % type(e).__name__, "%s: %s" % (type(e).__name__, e)
                        R.count(('iv', d.label, idx, change, kname, repr(v)), 'indexed-values')
                        if err:
                            R.fail("indexed|values|%s|%s|%s" % (kname, view_kind(v, len(rshape)), err),
                                   "IndexedData(%s, %r)%s attribute %s view %r: %s" % (d.label, idx, ' after changing indices' if change else '', kname, v, det), None)
                for sname in ('range', 'category', 'slice', 'and', 'mask'):
                    st = sels[sname]
                    parent = np.asarray(d.get_mask(st))[pslice]
                    for v in views:
                        try:
                            exp = parent if v is None else parent[v]
                        except IndexError:
                            continue
                        try:
                            got = np.asarray(ind.get_mask(st, view=v))
                            err = None if (got.shape == np.shape(exp) and np.array_equal(got, exp)) else ('mask' if got.shape == np.shape(exp) else 'shape')
                            det = "shape %r vs %r" % (got.shape, np.shape(exp))
                        except Exception as e:
                            err, det = 'exception:%s' % type(e).__name__, "%s: %s" % (type(e).__name__, e)
                        R.count(('im', d.label, idx, change, sname, repr(v)), 'indexed-masks')
                        if err:
                            R.fail("indexed|mask|%s|%s|%s" % (sname, view_kind(v, len(rshape)), err),
                                   "IndexedData(%s, %r)%s selection %s view %r: %s" % (d.label, idx, ' after changing indices' if change else '', sname, v, det), None)
                # statistics and histograms equal those of the parent slice
                try:
                    icid = next(c for c in ind.main_components if c.label == 'f')
                    vals = np.asarray(d[kinds['stored-float']])[pslice]
                    for stat, fn in (('sum', np.nansum), ('maximum', np.nanmax)):
                        got = ind.compute_statistic(stat, icid)
                        if not np.isclose(got, fn(vals), equal_nan=True):
                            R.fail("indexed|statistic|%s" % stat, "IndexedData(%s, %r).compute_statistic(%s) = %r, parent slice gives %r" % (d.label, idx, stat, got, fn(vals)), None)
                    st = sels['inequality']
                    msk = np.asarray(d.get_mask(st))[pslice]
                    got = ind.compute_statistic('sum', icid, subset_state=st)
                    exp = np.nansum(vals[msk]) if msk.any() and not np.all(np.isnan(vals[msk])) else np.nan
                    if not (np.isclose(got, exp, equal_nan=True) or (np.isnan(exp) and got == 0) or (np.isnan(got) and exp == 0)):
                        R.fail("indexed|statistic|sum-subset", "IndexedData(%s, %r) sum over a selection = %r, parent slice gives %r" % (d.label, idx, got, exp), None)
                    # reductions along an axis, with selections that may be empty inside this slice (NaN of the reduced shape expected)
                    for sname2 in ('inequality', 'range', 'mask'):
                        st2 = sels[sname2]
                        msk2 = np.asarray(d.get_mask(st2))[pslice]
                        for ax in list(range(vals.ndim)) + ([tuple(range(vals.ndim))] if vals.ndim > 1 else []):
                            with np.errstate(all='ignore'):
                                import warnings as _w
                                with _w.catch_warnings():
                                    _w.simplefilter('ignore')
                                    expa = np.nansum(np.where(msk2 & np.isfinite(vals), vals, np.nan), axis=ax)
                                    cnt = np.sum(msk2 & np.isfinite(vals), axis=ax)
                                    expa = np.where(cnt > 0, expa, np.nan)
                                    gota = np.asarray(ind.compute_statistic('sum', icid, subset_state=st2, axis=ax), dtype=float)
                            if gota.shape != np.shape(expa) or not np.allclose(gota, expa, equal_nan=True):
                                R.fail("indexed|statistic|axis-subset|%s" % ('shape' if gota.shape != np.shape(expa) else 'value'),
                                       "IndexedData(%s, %r) sum over selection %s along axis %r = %s (shape %r), parent slice gives %s (shape %r)"
                                       % (d.label, idx, sname2, ax, gota.tolist(), gota.shape, np.asarray(expa).tolist(), np.shape(expa)), None)
                        hs = ind.compute_histogram([icid], range=[(-5.25, 15.5)], bins=[4], subset_state=st2)
                        vs = vals[msk2]
                        hes = np.histogram(vs[np.isfinite(vs)], bins=4, range=(-5.25, 15.5))[0]
                        if not np.array_equal(np.asarray(hs), hes):
                            R.fail("indexed|histogram-subset", "IndexedData(%s, %r).compute_histogram over selection %s = %s, parent slice gives %s" % (d.label, idx, sname2, np.asarray(hs).tolist(), hes.tolist()), None)
                    h = ind.compute_histogram([icid], range=[(-5.25, 15.5)], bins=[4])   # no data value on a bin edge
                    he = np.histogram(vals[np.isfinite(vals)], bins=4, range=(-5.25, 15.5))[0]
                    if not np.array_equal(np.asarray(h), he):
                        R.fail("indexed|histogram", "IndexedData(%s, %r).compute_histogram = %s, parent slice gives %s" % (d.label, idx, np.asarray(h).tolist(), he.tolist()), None)
                    R.count(('is', d.label, idx, change), 'indexed-statistics')
                except Exception as e:
                    R.fail("indexed|statistic|exception:%s" % type(e).__name__, "IndexedData(%s, %r) statistics raised %s: %s" % (d.label, idx, type(e).__name__, e), None)


def run(tier, seed, R):
    from bounded.views import view_catalogue
    rng = random.Random(seed)
    R.rule = ("datasets of shape (5,), (3,4), (2,3,2) with affine (coupled) coordinates x attribute kinds {stored float with NaN, stored int, n-d categorical, derived, linked, pixel, world} "
              "x 20 selection kinds (leaves, slice-based, composites, many-way or) x the view catalogue (None, Ellipsis, tuples of positive-step slices possibly shorter than ndim, integers mixed with "
              "slices, all-integer, tuples of index arrays incl. shorter and mixed ones, boolean masks): values/masks with the view vs the full result indexed by the view (same shape); "
              "IndexedData for (a sample of) all index tuples, before and after changing indices: values, masks, statistics, histograms vs the parent slice. non-trivial = distinct case with a partial result")
    R.exhaustive = True
    for d, kinds, keep in datasets():
        views = view_catalogue(d.shape, rng, small=(tier == 'quick'), max_views=70 if tier == 'quick' else 400, ellipsis_in_tuples=False)
        if d.ndim == 1:
            views += [slice(1, 4), slice(None, None, 2), 2, -1, np.array([0, 3, 3]), np.array([True, False, True, True, False])]
        for kname, cid in kinds.items():
            check_values(R, d, kname, cid, views)
        sels = selections(d, kinds)
        first = {}
        for sname, st in sels.items():
            first[sname] = check_masks(R, d, sname, st, views)
        # second pass over the selections whose masks are memoised per view, after every combination containing them has been evaluated
        # with every view: each view must still give the full mask (of an independent copy) indexed by it
        for sname in ('inequality', 'category', 'element', 'and', 'categorical-roi', 'not-slice'):
            check_masks(R, d, sname + '@second-pass', sels[sname], views, ref_state=sels[sname].copy(), skip=first[sname] or ())
    fresh_first(R, rng, tier)
    aligned_datasets(R, rng, tier)
    indexed(R, rng, tier)
    R.samples.append({"case": "dataset (2,3,2), world attribute, view (array([0,1]), slice(1,None)) vs full[view]; selection slice-stepped with view (slice(None), 1)"})
